"""C08 -- tree code length equals k ln(n) + sum ln|c| and stays aligned with the tree list."""
import itertools
import json
import math
import os
import re
from concurrent.futures import ThreadPoolExecutor

import esrv

PROPS_V = "Props/C08.v"
TRANSLATORS = ["aifeyn"]
TRUSTED = [
    "Coq 8.16.1 kernel + vm_compute (no native_compute)",
    "Print Assumptions: every C08 theorem is closed under the global context except C08_aifeyn_value (the only one that "
    "mentions R), which lists the standard-library axioms ClassicalDedekindReals.sig_not_dec, sig_forall_dec, "
    "FunctionalExtensionality.functional_extensionality_dep, Classical_Prop.classic",
    "translator harness/translate/aifeyn.py + pyz.py (Python ast -> Gallina, fail-closed): aifeyn_complexity, get_max_param, "
    "the param_list comprehension, and the write plan (clear / append order / cat commands) of generate_equations",
    "coq/Model/AifeynSpec.v models of str.lstrip, str.isdigit (Latin-1), guarded int(), `in` on lists and strings, len(set()), "
    "'a%i'%z, np.array/np.abs/boolean-mask assignment on int64 arrays -- each compared with CPython/numpy on exhaustive short inputs every run",
    "observation of (k, nop, |n|) inside the real aifeyn_complexity by a forwarding proxy for the module-level name np "
    "(harness/corr/c08_impl.py); MPI stand-in harness/fakempi (one rank)",
]
ASSUMPTIONS = [
    "np.log / float summation rounding is not modelled: the implementation's float is compared with k*log(nop)+sum(log c) of the "
    "model's structure within 1e-12 relative",
    "labels are str objects with code points < 256; integer labels fit int64 strictly (|c| < 2^63), otherwise the model answers None "
    "(numpy leaves int64: uint64/float64/object arrays, abs(-2^63) overflows to nan) ",
    "one MPI rank; the text format of trees_n.txt (pprint of str(tree), one line per tree) and coreutils cat are exercised on real "
    "generated libraries, not proved",
    "node_to_string mentions every label of the tree verbatim (hypothesis of C08_single_tree_api_same; checked on every API case)",
]
IMPL = os.path.join(esrv.VERIF, "harness", "corr", "c08_impl.py")
TOL = 1e-12
HEAD = ("From Coq Require Import String Ascii ZArith List Bool.\n"
        "From ESRV Require Import Common.Py Common.Corr Model.AifeynSpec Gen.GenAifeyn.\n"
        "Import ListNotations.\nOpen Scope string_scope.\nOpen Scope Z_scope.\n"
        "Definition SC := str_of_codes.\n"
        "Definition ost_eqb (a b : option (Z * Z * list Z)) : bool :=\n"
        "  opt_eqb (fun x y => (fst (fst x) =? fst (fst y)) && (snd (fst x) =? snd (fst y)) && lz_eqb (snd x) (snd y))%bool a b.\n"
        "Definition ls_eqb := list_eqb String.eqb.\n"
        "Definition run_gen := run_generate get_max_param gen_param_list aifeyn_complexity gen_clear gen_plan gen_cats.\n")


# ------------------------------------------------------------------ Coq literals

def cz(v):
    return "%d" % v if v >= 0 else "(%d)" % v


def cs(s):
    if all(32 <= ord(c) <= 126 for c in s):
        return '"' + s.replace('"', '""') + '"'
    return "(SC [" + "; ".join("%d%%nat" % ord(c) for c in s) + "])"


def cls(l):
    return "[" + "; ".join(cs(x) for x in l) + "]"


def cst(st):
    """structure [k, nop, consts] | None"""
    if st is None:
        return "None"
    return "Some (%s, %s, [%s])" % (cz(st[0]), cz(st[1]), "; ".join(cz(c) for c in st[2]))


def coq_tags(vtext, tags, timeout=900):
    rc, out = esrv.coq_run(vtext, timeout=timeout)
    flat = " ".join(out.split()).replace("%string", "")
    bad = [t for t in tags if '("%s", [])' % t not in flat]
    return rc, bad, flat


def struct_value(st):
    k, nop, cs_ = st
    def lg(x):                      # numpy's log on the edge of its domain
        return math.log(x) if x > 0 else (float("-inf") if x == 0 else float("nan"))
    if nop <= 0 and k == 0:
        return float("nan")         # 0 * -inf
    return k * lg(nop) + sum(lg(c) for c in cs_)


def close(a, b):
    if isinstance(a, str):
        a = float(a)
    if isinstance(b, str):
        b = float(b)
    if math.isnan(a) or math.isnan(b):
        return math.isnan(a) and math.isnan(b)
    if math.isinf(a) or math.isinf(b):
        return a == b
    return abs(a - b) <= TOL * max(1.0, abs(a), abs(b))


# ------------------------------------------------------------------ the documented formula, independently (spec side)

INT_RE = re.compile(r"-?[0-9]+\Z")
PARAM_RE = re.compile(r"a[0-9]+\Z")


def formula(labels, is_param=lambda l: PARAM_RE.match(l) is not None):
    """k ln n + sum ln|c|: n = distinct symbols, all parameters and integers together one symbol; 0 read as 1"""
    k = len(labels)
    ints = [int(l) for l in labels if INT_RE.match(l)]
    grouped = [l for l in labels if INT_RE.match(l) or is_param(l)]
    ops = set(l for l in labels if not (INT_RE.match(l) or is_param(l)))
    n = len(ops) + (1 if grouped else 0)
    if n == 0:
        return float("nan")
    return k * math.log(n) + sum(math.log(abs(c) if c != 0 else 1) for c in ints)


def parse_tree_line(line):
    """a line of trees_n.txt: pprint of str(list or numpy array of labels)"""
    return re.findall(r"'([^']*)'", line)


# ------------------------------------------------------------------ input generation

def gen_idioms(ctx):
    alpha = ['-', '0', '1', '9', 'a', 'x', '+', '²', ' ', '_']
    L = 3 if ctx.quick else 4
    strings = [[c] for c in range(256)]
    for n in range(0, L + 1):
        for t in itertools.product(alpha, repeat=n):
            strings.append([ord(c) for c in t])
    strings += [[ord(c) for c in s] for s in ("-007", "--12", "-9223372036854775807", "123456789012", "-³", "¹²", "1-1", "- 1")]
    rng = esrv.rng(ctx.seed, "C08-idioms")
    lstrip = []
    for ch in ("-", "", "-+", "0-"):
        for n in range(0, 4):
            for t in itertools.product(['-', '+', '0', 'a'], repeat=n):
                lstrip.append([[ord(c) for c in ch], [ord(c) for c in t]])
    pool = ["x", "a0", "a1", "+", "", "-"]
    in_list = []
    for n in range(0, 4):
        for t in itertools.product(pool[:4], repeat=n):
            for x in pool:
                in_list.append([[ord(c) for c in x], [[ord(c) for c in y] for y in t]])
    in_str = []
    small = [''.join(t) for n in range(0, 3) for t in itertools.product("a10", repeat=n)]
    big = [''.join(t) for n in range(0, 5) for t in itertools.product("a10", repeat=n)]
    for s in small:
        for f in big:
            in_str.append([[ord(c) for c in s], [ord(c) for c in f]])
    fmt = list(range(-12, 131)) + [999, 1000, 123456789, -98765, 2 ** 63, 10 ** 30]
    toks = ["a0", "a1", "a2", "a3", "a10", "a", "x", "1", "0", "+", "(", ")", "tan", "a11", "a12"]
    gmp = [[], [[]], [[ord(c) for c in "a1"]], [[ord(c) for c in "a0a1a2a3a4a5a6a7a8a9a10a11"]]]
    for _ in range(300 if ctx.quick else 3000):
        F = []
        for _ in range(rng.randrange(0, 4)):
            F.append([ord(c) for c in ''.join(rng.choice(toks) for _ in range(rng.randrange(0, 6)))])
        gmp.append(F)
    return dict(strings=strings, lstrip=lstrip, in_list=in_list, in_str=in_str, fmt=fmt, gmp=gmp)


def random_shape(rng, size):
    """arities of a random prefix-notation tree with `size` nodes"""
    while True:
        ar = []
        need = 1
        for i in range(size):
            left = size - i - 1           # nodes still to place after this one
            opts = [a for a in (0, 1, 2) if 0 <= need - 1 + a <= left and (need - 1 + a > 0 or left == 0)]
            if not opts:
                break
            a = rng.choice(opts)
            ar.append(a)
            need = need - 1 + a
        if len(ar) == size and need == 0:
            return ar


def gen_random(ctx, bases):
    rng = esrv.rng(ctx.seed, "C08-random")
    N = 2000 if ctx.quick else 50000
    ops = sorted(set(l for b in bases.values() for grp in b[1:] for l in grp))
    direct, api = [], []

    def int_label():
        r = rng.random()
        if r < 0.55:
            return str(rng.randrange(-9, 10))
        if r < 0.65:
            return rng.choice(["0", "-0", "00", "007", "-012"])
        if r < 0.9:
            return str(rng.choice([1, -1]) * rng.randrange(10, 10 ** rng.randrange(2, 8)))
        return str(rng.choice([1, -1]) * rng.randrange(10 ** 12, 2 ** 63))

    n_direct = N * 3 // 5
    while len(direct) < n_direct:
        K = rng.randrange(0, 5)
        params = ["a%d" % j for j in range(K)]
        k = rng.randrange(0, 12)
        tree = []
        for _ in range(k):
            r = rng.random()
            if r < 0.45:
                tree.append(rng.choice(ops))
            elif r < 0.6:
                tree.append("x")
            elif r < 0.8 and params:
                tree.append(rng.choice(params))
            elif r < 0.97:
                tree.append(int_label())
            else:
                tree.append(rng.choice(["--5", "²", "-", "a", "a10", "a01", "+5", "", "---0"]))
        r = rng.random()
        if r < 0.6:
            pl = list(params)
        elif r < 0.75:
            pl = ["a%d" % j for j in range(K + rng.randrange(1, 8))]
        elif r < 0.85:
            pl = ["a%d" % j for j in range(rng.randrange(0, K + 1))]
        else:
            pl = rng.sample(params + ["x", "5", "-", "exp", "a10"], rng.randrange(0, 4))
        case = dict(tree=tree, pl=pl, kind="direct", cover=(r < 0.75))
        direct.append(case)
        # a renamed copy: parameters permuted / merged inside pl
        if params and pl == params and rng.random() < 0.5:
            m = {p: rng.choice(params) for p in params} if rng.random() < 0.5 else dict(zip(params, rng.sample(params, K)))
            direct.append(dict(tree=[m.get(l, l) for l in tree], pl=pl, kind="renamed", of=len(direct) - 1, cover=True))
    # siblings: same number of nodes and the same SET of symbols, but an integer constant occurs a different number of times (the
    # sum of ln|c| runs over occurrences, not over distinct constants); evaluated one after the other in the same process
    for t1, t2, plx in ((["*", "*", "2", "x", "*", "x", "x"], ["*", "*", "2", "x", "*", "2", "x"], []),
                        (["+", "*", "3", "x", "*", "x", "a0"], ["+", "*", "3", "x", "*", "3", "a0"], ["a0"]),
                        (["*", "-2", "*", "x", "/", "x", "a0"], ["*", "-2", "*", "-2", "/", "x", "a0"], ["a0"]),
                        (["exp", "/", "*", "x", "x", "2"], ["exp", "/", "*", "2", "x", "2"], [])):
        direct.append(dict(tree=t1, pl=plx, kind="sibling", cover=True))
        direct.append(dict(tree=t2, pl=plx, kind="sibling", cover=True))
    for c0 in list(direct[:400]):
        ints = [l for l in c0["tree"] if INT_RE.match(l) and abs(int(l)) >= 2 and abs(int(l)) < 2 ** 40]
        rest = [j for j, l in enumerate(c0["tree"]) if not INT_RE.match(l) and c0["tree"].count(l) >= 2]
        if ints and rest:
            t2 = list(c0["tree"])
            t2[rng.choice(rest)] = rng.choice(ints)
            direct.append(dict(tree=t2, pl=c0["pl"], kind="sibling", cover=c0.get("cover", True)))
    for lab in ("9223372036854775807", "-9223372036854775807", "9223372036854775808", "-9223372036854775808", "18446744073709551616"):
        direct.append(dict(tree=["+", lab, "x"], pl=[], kind="boundary", cover=False))
    names = sorted(bases)
    # observation outside the property's domain (parameters that skip a0), see C08_api_gap_witness
    api.append(dict(tree=["+", "a1", "a2"], basis=bases[names[0]], bname=names[0], kind="gap-observation", K=0))
    while len(api) < N - n_direct:
        bname = rng.choice(names)
        basis = bases[bname]
        ar = random_shape(rng, rng.randrange(1, 9))
        K = 0
        tree = []
        leaves = sum(1 for a in ar if a == 0)
        maxp = rng.randrange(0, 5)
        for a in ar:
            if a == 0:
                r = rng.random()
                if r < 0.4:
                    tree.append("x")
                elif r < 0.75 and K < maxp:
                    tree.append("a%d" % K)
                    K += 1
                elif r < 0.8 and K > 0:
                    tree.append("a%d" % rng.randrange(K))
                else:
                    # labels_to_shape accepts only labels that eval() as a number: canonical decimal integers
                    tree.append(str(int(int_label())) if rng.random() < 0.8 else "x")
            else:
                tree.append(rng.choice(basis[a]))
        kind = "api"
        if K >= 2 and rng.random() < 0.3:        # same parameters, other order
            perm = dict(zip(["a%d" % j for j in range(K)], rng.sample(["a%d" % j for j in range(K)], K)))
            tree = [perm.get(l, l) for l in tree]
            kind = "api-permuted"
        api.append(dict(tree=tree, basis=basis, bname=bname, kind=kind, K=K))
    return direct, api


# ------------------------------------------------------------------ correspondence

def corr_idioms(ctx):
    rep = ctx.report
    inp = gen_idioms(ctx)
    rc, out, err = esrv.run_py(ctx.scratch, IMPL, ["idioms"], stdin=json.dumps(inp), timeout=600)
    if rc != 0:
        rep.fail("broken-correspondence", "idioms driver failed", "C08:idioms-driver", observed=err[-2000:], theorem="idiom sweep")
        return
    res = json.loads(out)

    def cl(codes):
        return "[" + "; ".join("%d" % c for c in codes) + "]"

    def shard(items, n=1200):
        return [items[i:i + n] for i in range(0, len(items), n)]
    jobs = []
    str_cases = []
    for codes, (ls, isd, guard, iv) in zip(inp["strings"], res["strings"]):
        if any(c > 255 for c in codes):
            continue
        ivs = "None" if not guard else ("(Some None)" if iv == "ValueError" else "(Some (Some %s%%Z))" % cz(iv))
        str_cases.append("(%s, %s, %s, %s)" % (cl(codes), cl(ls), "true" if isd else "false", ivs))
        rep.case(key=("str", tuple(codes)), nontrivial=guard or isd, sample=None)
    for sh in shard(str_cases):
        jobs.append((HEAD + "Local Open Scope nat_scope.\n"
                     "Definition cases : list (list nat * list nat * bool * option (option Z)) := [%s].\n"
                     "Eval vm_compute in (\"STR\", failing (fun c => match c with (s, ls, d, iv) =>\n"
                     "  String.eqb (py_lstrip \"-\" (SC s)) (SC ls) && Bool.eqb (py_isdigit (SC s)) d &&\n"
                     "  match iv with None => negb (numeric_like (SC s)) | Some r => numeric_like (SC s) && opt_eqb Z.eqb (py_int (SC s)) r end end)%%bool cases).\n"
                     % "; ".join(sh), ["STR"], "str.lstrip('-') / str.isdigit / guarded int()"))
    ls_cases = ["(%s, %s, %s)" % (cl(ch), cl(s), cl(r)) for (ch, s), r in zip(inp["lstrip"], res["lstrip"])]
    il_cases = ["(%s, [%s], %s, %d%%Z)" % (cl(x), "; ".join(cl(y) for y in l), "true" if r[0] else "false", r[1])
                for (x, l), r in zip(inp["in_list"], res["in_list"])]
    is_cases = ["(%s, %s, %s)" % (cl(s), cl(f), "true" if r else "false") for (s, f), r in zip(inp["in_str"], res["in_str"])]
    fm_cases = ["(%s%%Z, %s)" % (cz(z), cl(r)) for z, r in zip(inp["fmt"], res["fmt"])]
    gm_cases = ["([%s], %d%%Z)" % ("; ".join(cl(f) for f in F), r) for F, r in zip(inp["gmp"], res["gmp"])]
    for name, n in (("lstrip", len(ls_cases)), ("in_list", len(il_cases)), ("in_str", len(is_cases)), ("fmt", len(fm_cases)), ("gmp", len(gm_cases))):
        for i in range(n):
            rep.case(key=(name, i), nontrivial=True)
    jobs.append((HEAD + "Local Open Scope nat_scope.\n"
                 "Definition lsc : list (list nat * list nat * list nat) := [%s].\n"
                 "Definition ilc : list (list nat * list (list nat) * bool * Z) := [%s].\n"
                 "Definition fmc : list (Z * list nat) := [%s].\n"
                 "Eval vm_compute in (\"LSTRIP\", failing (fun c => match c with (ch, s, r) => String.eqb (py_lstrip (SC ch) (SC s)) (SC r) end) lsc).\n"
                 "Eval vm_compute in (\"INLIST\", failing (fun c => match c with (x, l, r, n) => Bool.eqb (py_in (SC x) (map SC l)) r && (py_len (py_set (map SC l)) =? n)%%Z end)%%bool ilc).\n"
                 "Eval vm_compute in (\"FMT\", failing (fun c => match c with (z, r) => String.eqb (py_fmt_pct_i \"a\" \"\" z) (SC r) end) fmc).\n"
                 % ("; ".join(ls_cases), "; ".join(il_cases), "; ".join(fm_cases)), ["LSTRIP", "INLIST", "FMT"],
                 "str.lstrip(chars) / `in` on lists / len(set()) / 'a%i'%z"))
    for sh in shard(is_cases):
        jobs.append((HEAD + "Local Open Scope nat_scope.\n"
                     "Definition isc : list (list nat * list nat * bool) := [%s].\n"
                     "Eval vm_compute in (\"INSTR\", failing (fun c => match c with (s, f, r) => Bool.eqb (py_str_contains (SC s) (SC f)) r end) isc).\n"
                     % "; ".join(sh), ["INSTR"], "substring `in`"))
    for sh in shard(gm_cases):
        jobs.append((HEAD + "Local Open Scope nat_scope.\n"
                     "Definition gmc : list (list (list nat) * Z) := [%s].\n"
                     "Eval vm_compute in (\"GMP\", failing (fun c => match c with (F, r) => opt_eqb Z.eqb (get_max_param (map SC F)) (Some r) end) gmc).\n"
                     % "; ".join(sh), ["GMP"], "simplifier.get_max_param vs translated get_max_param"))
    run_jobs(ctx, jobs, "C08:idioms-corr")
    rep.traces += len(str_cases) + len(ls_cases) + len(il_cases) + len(is_cases) + len(fm_cases) + len(gm_cases)


def run_jobs(ctx, jobs, key):
    rep = ctx.report
    with ThreadPoolExecutor(max_workers=8) as ex:
        results = list(ex.map(lambda j: coq_tags(j[0], j[1]), jobs))
    for (v, tags, what), (rc, bad, flat) in zip(jobs, results):
        if rc != 0 or bad:
            rep.fail("broken-correspondence", "Coq model and implementation differ: %s (tags %s)" % (what, bad or "coqc failed"),
                     key, observed=flat[-1500:], theorem=what)


def corr_random(ctx, bases):
    rep = ctx.report
    direct, api = gen_random(ctx, bases)
    ctx.c08_direct, ctx.c08_api = direct, api
    rc, out, err = esrv.run_py(ctx.scratch, IMPL, ["random"], stdin=json.dumps(dict(direct=direct, api=api)), timeout=1500)
    if rc != 0:
        rep.fail("broken-correspondence", "random driver failed", "C08:random-driver", observed=err[-2000:], theorem="random label lists")
        ctx.c08_direct_res, ctx.c08_api_res = [], []
        return
    res = json.loads(out)
    ctx.c08_direct_res, ctx.c08_api_res = res["direct"], res["api"]
    dcases, acases = [], []
    for c, r in zip(direct, res["direct"]):
        big = any(INT_RE.match(l) and abs(int(l)) >= 2 ** 63 for l in c["tree"])
        if "exc" in r:
            if r["exc"] != "ValueError" and not big:
                rep.fail("broken-correspondence", "aifeyn_complexity raised an unexpected exception", "C08:random-observe",
                         input=c, observed=r, theorem="structure observation")
                continue
            exp = None                      # ValueError from int(); (object arrays beyond uint64 raise TypeError: unmodelled)
        elif big:
            exp = None                      # outside the modelled int64 domain: the model answers None, whatever numpy did
            rep.extra.setdefault("int64_boundary_observations", []).append({"tree": c["tree"], "impl": r})
        elif r["struct"] is None:
            rep.fail("broken-correspondence", "structure of aifeyn_complexity's return could not be observed", "C08:random-observe",
                     input=c, observed=r, theorem="structure observation")
            continue
        else:
            exp = r["struct"]
            # float vs structure (rounding of np.log is the only thing not modelled)
            if not close(r["value"], struct_value(exp)) or r["dtype"] not in ("int64", "float64"):
                rep.fail("broken-correspondence", "returned float is not k*log(nop)+sum(log|n|) of the observed structure",
                         "C08:float-vs-structure", input=c, observed=r, expected=struct_value(exp), theorem="structure observation")
        dcases.append("(%s, %s, %s)" % (cls(c["tree"]), cls(c["pl"]), cst(exp)))
        ints = [l for l in c["tree"] if INT_RE.match(l)]
        rep.case(key=("direct", tuple(c["tree"]), tuple(c["pl"])), nontrivial=len(c["tree"]) > 1 and (bool(ints) or bool(c["pl"])),
                 sample={"tree": c["tree"], "param_list": c["pl"], "impl": r})
    for c, r in zip(api, res["api"]):
        if "exc" in r or r.get("struct") is None:
            rep.fail("broken-correspondence", "tree_to_aifeyn raised or could not be observed on a well-formed tree",
                     "C08:api-observe", input=c, observed=r, theorem="structure observation")
            continue
        if not close(r["value"], struct_value(r["struct"])) or r["value"] != r["value2"] or r["k"] != len(c["tree"]):
            rep.fail("broken-correspondence", "tree_to_aifeyn's return differs from the observed structure / len(labels)",
                     "C08:float-vs-structure", input=c, observed=r, theorem="structure observation")
        acases.append("(%s, %s, %s, %s)" % (cls(c["tree"]), cs(r["fstr"]), cls(r["pl"]), cst(r["struct"])))
        rep.case(key=("api", tuple(c["tree"])), nontrivial=len(c["tree"]) > 1,
                 sample={"tree": c["tree"], "basis": c["bname"], "impl": {k: r[k] for k in ("pl", "struct", "value", "fstr")}})
    jobs = []
    for i in range(0, len(dcases), 1000):
        jobs.append((HEAD + "Definition cases : list (list string * list string * option (Z * Z * list Z)) := [%s].\n"
                     "Eval vm_compute in (\"DIRECT\", failing (fun c => match c with (t, pl, e) => ost_eqb (aifeyn_complexity t pl) e end) cases).\n"
                     "Eval vm_compute in (\"SPEC\", failing (fun c => match c with (t, pl, e) => ost_eqb (aifeyn_spec t pl) e end) cases).\n"
                     % "; ".join(dcases[i:i + 1000]), ["DIRECT", "SPEC"], "aifeyn_complexity on random label lists (structure)"))
    for i in range(0, len(acases), 1000):
        jobs.append((HEAD + "Definition cases : list (list string * string * list string * option (Z * Z * list Z)) := [%s].\n"
                     "Eval vm_compute in (\"API\", failing (fun c => match c with (t, f, pl, e) =>\n"
                     "  match get_max_param [f] with Some m => ls_eqb (gen_param_list m) pl | None => false end\n"
                     "  && ost_eqb (aifeyn_complexity t pl) e && forallb (fun l => py_str_contains l f) t end)%%bool cases).\n"
                     % "; ".join(acases[i:i + 1000]), ["API"], "tree_to_aifeyn: get_max_param([fstr]), param_list, structure, labels occur in fstr"))
    run_jobs(ctx, jobs, "C08:random-corr")
    rep.traces += len(dcases) + len(acases)


EXTRA_BASES = {"verif_long": [["x"], ["sqrt_abs"], ["+", "*"]],
               "verif_long2": [["x", "a"], ["log10_abs", "sqrt_abs"], ["+", "*"]],
               # unary names of lengths 6 and 8 and no binary operator: at 8 nodes the 256 printed tree lines take every length from
               # 68 to 83 characters, in particular exactly 78, 79, 80 and 81 (the boundary of the pretty-printer's width logic)
               "verif_widths": [["x", "a"], ["square", "sqrt_abs"], []],
               # the parameter placeholder is not the LAST nullary label (every shipped basis has ["x", "a"]): the last function of a
               # shape then carries no parameter, the first carries all of them -- the per-shape parameter list must not depend on that
               "verif_afirst": [["a", "x"], ["inv"], ["+", "*", "pow"]]}
LONG_LABEL_JOBS = [("verif_long", 6), ("verif_long2", 5), ("verif_widths", 8), ("verif_afirst", 3), ("verif_afirst", 4)]


def lib_jobs(ctx):
    nmax = 4 if ctx.quick else 5
    return nmax


def corr_library(ctx, bases):
    rep = ctx.report
    nmax = lib_jobs(ctx)
    todo = [(b, n) for b in sorted(bases) for n in range(1, nmax + 1)]
    # user-style bases with long operator names: tree lines get long early (pretty-printer width logic, alignment clause)
    todo += [(b, n) for b, n in LONG_LABEL_JOBS if ctx.quick or True]

    def run(job):
        b, n = job
        rc, out, err = esrv.run_py(ctx.scratch, IMPL, ["library", b, str(n)] + (["noapi"] if b in EXTRA_BASES else []),
                                   extra={"C08_EXTRA_BASES": json.dumps(EXTRA_BASES)}, timeout=2400)
        return job, rc, out, err
    with ThreadPoolExecutor(max_workers=8) as ex:
        results = list(ex.map(run, todo))
    ctx.c08_libs = {}
    jobs = []
    for (b, n), rc, out, err in results:
        if rc != 0:
            rep.fail("broken-correspondence", "generate_equations failed for %s n=%d" % (b, n), "C08:library-driver",
                     observed=err[-2000:], theorem="generated libraries")
            continue
        d = json.loads(out)
        ctx.c08_libs[(b, n)] = d
        shapes, calls, files = d["shapes"], d["calls"], d["files"]
        # observed structures in file order: originals of every shape, then rewritten trees of every shape
        pos = 0
        orig, extra = [], []
        for sh in shapes:
            orig += calls[pos:pos + len(sh["all"])]
            pos += len(sh["all"])
            extra += calls[pos:pos + len(sh["extra"])]
            pos += len(sh["extra"])
        obs = orig + extra
        trees = [parse_tree_line(l) for l in files["trees"]]
        ok = (pos == len(calls) and len(obs) == len(files["aifeyn"]) == len(trees)
              and all(o["tree"] == t for o, t in zip(obs, trees))
              and all(o["value"] == v.strip() for o, v in zip(obs, files["aifeyn"]))
              and all(o["struct"] is not None and close(o["value"], struct_value(o["struct"])) for o in obs))
        if not ok:
            rep.fail("broken-correspondence", "recorded aifeyn_complexity calls of generate_equations (%s, n=%d) do not line up with "
                     "trees_n.txt / aifeyn_n.txt in the order originals-then-rewritten" % (b, n), "C08:library-observe",
                     observed={"calls": len(calls), "trees": len(trees), "aifeyn": len(files["aifeyn"])}, theorem="write-loop model")
            continue
        shp = "; ".join("{| so_fun := %s; so_all := [%s]; so_extra := [%s] |}" % (
            cls(sh["fun"]), "; ".join(cls(t) for t in sh["all"]), "; ".join(cls(t) for t in sh["extra"])) for sh in shapes)
        v = (HEAD +
             "Definition shapes : list shape_out := [%s].\n"
             "Definition want_trees : list (list string) := [%s].\n"
             "Definition want_vals : list (option (Z * Z * list Z)) := [%s].\n"
             "Definition stale : fsys := [(\"trees\", [LVal None]); (\"orig_aifeyn\", [LVal None]); (\"extra_trees\", [LTree []])].\n"
             "Definition line_eqb (a b : line) : bool := match a, b with LTree x, LTree y => ls_eqb x y | LVal x, LVal y => ost_eqb x y | _, _ => false end.\n"
             "Definition got := run_gen stale shapes.\n"
             "Eval vm_compute in (\"RUN\", match got with Some _ => @nil nat | None => [0%%nat] end).\n"
             "Eval vm_compute in (\"TREES\", match got with Some fs => if Nat.eqb (length (fs_read fs \"trees\")) (length want_trees) then failing (fun p => line_eqb (fst p) (LTree (snd p))) (combine (fs_read fs \"trees\") want_trees) else [0%%nat] | None => [0%%nat] end).\n"
             "Eval vm_compute in (\"VALS\", match got with Some fs => if Nat.eqb (length (fs_read fs \"aifeyn\")) (length want_vals) then failing (fun p => line_eqb (fst p) (LVal (snd p))) (combine (fs_read fs \"aifeyn\") want_vals) else [0%%nat] | None => [0%%nat] end).\n"
             % (shp, "; ".join(cls(t) for t in trees), "; ".join(cst(o["struct"]) for o in obs)))
        jobs.append((v, ["RUN", "TREES", "VALS"], "write-loop model run_gen vs generate_equations files (%s, n=%d)" % (b, n)))
        for i, (t, o) in enumerate(zip(trees, obs)):
            rep.case(key=("lib", b, n, i), nontrivial=len(t) > 1,
                     sample={"basis": b, "n": n, "line": i, "tree": t, "aifeyn_line": files["aifeyn"][i]} if i == len(trees) - 1 else None)
        rep.traces += len(trees)
    run_jobs(ctx, jobs, "C08:library-corr")


def correspondence(ctx):
    rep = ctx.report
    rc, out, err = esrv.run_py(ctx.scratch, IMPL, ["bases"], timeout=300)
    if rc != 0:
        rep.fail("broken-correspondence", "cannot read the shipped bases from duplicate_checker.main", "C08:bases",
                 observed=err[-2000:], theorem="bases")
        ctx.c08_bases = {}
        return
    bases = json.loads(out)
    ctx.c08_bases = bases
    corr_idioms(ctx)
    corr_random(ctx, bases)
    corr_library(ctx, bases)
    rep.rule = ("idioms: every Latin-1 character, every string of length <= %d over {-,0,1,9,a,x,+,superscript-2,space,_} through CPython and the Coq "
                "models (lstrip/isdigit/guarded int), exhaustive small `in`/set/substring/format cases, random get_max_param inputs; "
                "random: %d label lists (operators of every shipped basis, x, a0..a3, integers -9..9 incl. 0/-0/007, multi-digit and negative up to 2^63, "
                "ill-formed labels, covering / non-covering / arbitrary param_lists, renamed copies) through the real aifeyn_complexity, and random "
                "well-formed trees (1..8 nodes, <= 4 parameters, integers) through the real tree_to_aifeyn, structure observed via an np proxy and compared "
                "in Coq (vm_compute), float compared with the structure's value within 1e-12; library: every line of trees_n/aifeyn_n for every shipped "
                "basis, n <= %d, against the Coq write-loop model run on the recorded shape_to_functions outputs (stale file content injected). "
                "non-trivial = more than one label and an integer or parameter involved"
                % (3 if ctx.quick else 4, 2000 if ctx.quick else 50000, lib_jobs(ctx)))


# ------------------------------------------------------------------ search: the property on the implementation's outputs

def search(ctx):
    rep = ctx.report
    nfail = {}

    def fail(key, what, **kw):
        nfail[key] = nfail.get(key, 0) + 1
        if nfail[key] <= 2:
            rep.fail("failing-input", what, key, **kw)
    # (i) direct calls whose param_list covers exactly the parameters a0..a(K-1) and only well-formed labels
    direct = getattr(ctx, "c08_direct", [])
    dres = getattr(ctx, "c08_direct_res", [])
    for c, r in zip(direct, dres):
        if "exc" in r or not c.get("cover"):
            continue
        tree, pl = c["tree"], c["pl"]
        if any(not (INT_RE.match(l) or PARAM_RE.match(l) or re.match(r"[a-z_0-9+*/]+\Z|-\Z", l)) for l in tree):
            continue
        if any(l.startswith("--") or not l.isascii() for l in tree):
            continue
        if any(PARAM_RE.match(l) and l not in pl for l in tree) or any(not PARAM_RE.match(p) for p in pl):
            continue
        if any(INT_RE.match(l) and abs(int(l)) >= 2 ** 63 for l in tree):
            continue
        want = formula(tree)
        if not close(r["value"], want):
            fail("C08:formula:direct", "aifeyn_complexity(tree, param_list) differs from k ln n + sum ln|c|",
                 input={"labels": tree, "param_list": pl}, observed=r["value"], expected=repr(want))
        if c["kind"] == "renamed":
            r0 = dres[c["of"]]
            if "exc" not in r0 and not close(r["value"], r0["value"]):
                fail("C08:rename", "renaming parameters changed the code length",
                     input={"labels": tree, "original": direct[c["of"]]["tree"], "param_list": pl}, observed=r["value"], expected=r0["value"])
    # (ii) single-tree API on random trees using a0..a(K-1)
    for c, r in zip(getattr(ctx, "c08_api", []), getattr(ctx, "c08_api_res", [])):
        if "exc" in r:
            continue
        if c["kind"] == "gap-observation":
            rep.extra["gap_observation"] = {"labels": c["tree"], "tree_to_aifeyn": r["value2"], "param_list_used": r["pl"],
                                            "formula_with_a1_a2_as_parameters": repr(formula(c["tree"]))}
            continue
        if any(INT_RE.match(l) and abs(int(l)) >= 2 ** 63 for l in c["tree"]):
            continue
        want = formula(c["tree"])
        if not close(r["value2"], want) or r["k"] != len(c["tree"]):
            fail("C08:formula:api", "tree_to_aifeyn(labels, basis) differs from (k ln n + sum ln|c|, k)",
                 input={"labels": c["tree"], "basis": c["bname"]}, observed=[r["value2"], r["k"]], expected=[repr(want), len(c["tree"])])
    # (iii) every line of the generated libraries; and the single-tree API on that line's labels
    for (b, n), d in sorted(getattr(ctx, "c08_libs", {}).items()):
        files = d["files"]
        if len(files["trees"]) != len(files["aifeyn"]):
            fail("C08:alignment:length", "trees_%d.txt and aifeyn_%d.txt have different numbers of lines" % (n, n),
                 input={"basis": b, "n": n}, observed=[len(files["trees"]), len(files["aifeyn"])], expected="equal")
            continue
        norig = sum(len(sh["all"]) for sh in d["shapes"])
        if files["trees"][:norig] != files["orig_trees"] or files["trees"][norig:] != files["extra_trees"] \
                or "STALE" in files["trees"] or "STALE" in files["aifeyn"]:
            fail("C08:alignment:parts", "trees_n.txt is not orig_trees ++ extra_trees (or stale lines survived)",
                 input={"basis": b, "n": n}, observed=len(files["trees"]), expected=norig + len(files["extra_trees"]))
        # the API values were taken shape by shape (originals, rewritten); bring them into file order
        apis, aorig, aextra, pos = d["api"] or [], [], [], 0
        for sh in d["shapes"]:
            aorig += apis[pos:pos + len(sh["all"])]
            pos += len(sh["all"])
            aextra += apis[pos:pos + len(sh["extra"])]
            pos += len(sh["extra"])
        apis = aorig + aextra
        for i, (tl, al) in enumerate(zip(files["trees"], files["aifeyn"])):
            labels = parse_tree_line(tl)
            want = formula(labels)
            try:
                got = float(al)
            except ValueError:
                got = float("nan")
            if not labels or not close(got, want):
                fail("C08:alignment:line", "line %d of aifeyn_%d.txt is not the code length of line %d of trees_%d.txt" % (i + 1, n, i + 1, n),
                     input={"basis": b, "n": n, "line": i + 1, "labels": labels}, observed=al, expected=repr(want))
        for (t, v, k, pl), al, tl in zip(apis, files["aifeyn"], files["trees"]):
            if t != parse_tree_line(tl):
                fail("C08:api-vs-library", "internal: API tree list and trees_%d.txt disagree" % n, input={"basis": b, "n": n, "labels": t},
                     observed=tl, expected=t)
                break
            if not (isinstance(v, str) and not v.startswith("EXC") and close(v, al) and k == len(t)):
                fail("C08:api-vs-library", "tree_to_aifeyn on a library tree differs from its line in aifeyn_%d.txt" % n,
                     input={"basis": b, "n": n, "labels": t, "api_param_list": pl}, observed=[v, k], expected=[al.strip(), len(t)])
    # observation (outside the property's domain; recorded, not a failure): parameters that skip a0
    gap = [(c["tree"], r.get("value2")) for c, r in zip(getattr(ctx, "c08_api", []), getattr(ctx, "c08_api_res", [])) if "exc" in r]
    rep.extra["api_exceptions"] = gap[:5]


LEVEL_TEXT = ("Machine-checked theorems (Coq) about a model of aifeyn_complexity, get_max_param, the param_list comprehension and the file write plan "
              "that a fail-closed translator regenerates from the source on every run: for EVERY label list and param_list the returned structure is "
              "(k, n, |c_j| with 0 read as 1) of the specification, hence the value k ln n + sum ln|c_j| over the reals; invariance under any renaming of "
              "parameters inside param_list; 0 costs as 1; a negative constant costs as its absolute value; get_max_param terminates and its bound covers "
              "a0..a(K-1); pipeline and single-tree API return the same structure; line i of aifeyn_n is the code length of line i of trees_n for every list "
              "of shapes and any prior file content. The 117 pinned tests touch none of this; upstream asserts one value.")
LEVEL_NOTE = ("Trusted: Coq kernel/vm_compute; the translator and the idiom models of Model/AifeynSpec.v (validated against CPython/numpy each run on exhaustive "
              "short inputs); the np-proxy observation of (k, nop, |n|). Not proved: np.log rounding (1e-12 relative comparison), numpy dtype inference "
              "beyond int64, the pprint text format and `cat` (exercised on every generated library line for all shipped bases). Reals axioms only under "
              "C08_aifeyn_value; all structural theorems are axiom-free.")
TECHNIQUE = ("Coq proof over a translator-generated model (structural induction, a pigeonhole argument for termination of the 'a%i' scan, invariant over the "
             "write loop) + vm_compute correspondence of structures observed inside the real function and of whole generated libraries")
