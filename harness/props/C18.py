"""C18 -- converting a formula string to a tree preserves the function."""
import json
import os
import re
import sys

import esrv

PROPS_V = "Props/C18.v"
TRANSLATORS = []
IMPL = os.path.join(esrv.VERIF, "harness", "corr", "c18_impl.py")

BASES = {
    "keep_duplicates": [["x", "a"], ["square", "exp", "inv", "sqrt_abs", "log_abs"], ["+", "*", "-", "/", "pow"]],
    "core_maths": [["x", "a"], ["inv"], ["+", "*", "-", "/", "pow"]],
    "ext_maths": [["x", "a"], ["inv", "sqrt_abs", "square", "exp"], ["+", "*", "-", "/", "pow"]],
    "osc_maths": [["x", "a"], ["inv", "sin"], ["+", "*", "-", "/", "pow"]],
    "base10_maths": [["x", "a"], ["tenexp", "inv", "log10_abs"], ["+", "*", "-", "/", "pow"]],
    "base_e_maths": [["x", "a"], ["inv", "exp", "log_abs"], ["+", "*", "-", "/", "pow"]],
}

# always run: the witnesses of the two refuted statements and a few shapes every branch of to_list needs
FIXED = [
    ("keep_duplicates", "sqrt_abs(x)"), ("keep_duplicates", "log_abs(x)"), ("ext_maths", "sqrt_abs(x)"),
    ("base_e_maths", "log_abs(x)"), ("base_e_maths", "a0*log_abs(x)+a1"), ("keep_duplicates", "pow(x,0.5)"),
    ("core_maths", "x**a0*(-1)"), ("core_maths", "(x**a0)/(-1)"), ("keep_duplicates", "pow(x,a0)*(-1)"),
    ("keep_duplicates", "square(x)"), ("keep_duplicates", "square(x+a0)"), ("keep_duplicates", "(x+a0)**2"),
    ("core_maths", "x**2"), ("core_maths", "x**3"), ("core_maths", "1/x"), ("core_maths", "a0/x"), ("core_maths", "x/2"),
    ("core_maths", "pow(a0,x)"), ("keep_duplicates", "sqrt_abs(a0)"), ("keep_duplicates", "log_abs(a0)"),
    ("core_maths", "1.0*x"), ("core_maths", "x*1"), ("core_maths", "2.0"), ("core_maths", "x-a0"), ("core_maths", "a0*x-a1"),
    ("core_maths", "x+a0+a1*x"), ("core_maths", "a0*a1*x*inv(x+1)"), ("core_maths", "x**2.5+3*x"), ("core_maths", "a1*x+a0"),
    ("core_maths", "pow(x,2.5+a0)"), ("core_maths", "pow(2.5,x)"), ("core_maths", "2.5*pow(x,3.5)+1.5"),
    ("base10_maths", "log10_abs(x)"), ("base10_maths", "tenexp(x)"), ("osc_maths", "sin(a0*x)"),
    ("keep_duplicates", "exp(x)*2.0"), ("keep_duplicates", "x**(-1.0)"), ("keep_duplicates", "inv(x)**0.5"),
]

INTS = ["1", "2", "3", "2", "3", "-1", "-1", "0", "4", "5", "-2", "10"]
DECS = ["0.5", "1.5", "2.5", "2.0", "1.0", "-1.0", "0.25", "3.0", "0.1", "-0.5", "1.25e-1", "0.333"]


def _leaf(r):
    u = r.random()
    if u < 0.40:
        return "x"
    if u < 0.65:
        return "a%d" % r.randrange(3)
    if u < 0.85:
        return r.choice(INTS)
    return r.choice(DECS)


def _par(s):
    return s if s.isalnum() else "(" + s + ")"


def gen_formula(r, basis, depth):
    if depth == 0 or r.random() < 0.18:
        return _leaf(r)
    un, bi = basis[1], basis[2]
    if r.random() < 0.30 and un:
        return "%s(%s)" % (r.choice(un), gen_formula(r, basis, depth - 1))
    op = r.choice(bi + ["**", "neg"])
    if op == "neg":
        return "-" + _par(gen_formula(r, basis, depth - 1))
    a, b = gen_formula(r, basis, depth - 1), gen_formula(r, basis, depth - 1)
    if op == "pow":
        return "pow(%s,%s)" % (a, b)
    if op == "**":
        return "%s**%s" % (_par(a), _par(b))
    if r.random() < 0.5:
        return "%s%s%s" % (_par(a), op, _par(b))
    return "(%s) %s (%s)" % (a, op, b)


def gen_cases(seed, n):
    r = esrv.rng(seed, "C18/grammar")
    names = list(BASES)
    out = [list(c) for c in FIXED]
    seen = set(tuple(c) for c in out)
    i = 0
    while len(out) < n + len(FIXED):
        bn = names[i % len(names)]
        i += 1
        f = gen_formula(r, BASES[bn], r.choice([1, 2, 2, 3, 3, 4]))
        if (bn, f) in seen:
            continue
        seen.add((bn, f))
        out.append([bn, f])
    return out


def run_impl(ctx, cases, shard=400):
    res = []
    for k in range(0, len(cases), shard):
        job = json.dumps({"bases": BASES, "cases": cases[k:k + shard]})
        rc, out, err = esrv.run_py(ctx.scratch, IMPL, [], stdin=job, timeout=3000)
        if rc != 0:
            raise RuntimeError("c18_impl failed: " + err[-1500:])
        res += json.loads(out)
    return res


# ------------------------------------------------------------------ Coq literals

def cstr(s):
    return '"' + s.replace('"', '""') + '"'


def cq(pq):
    p, q = pq
    return "(%s # %d)" % ("(%d)" % p if p < 0 else "%d" % p, q)


def csexpr(d):
    if d[0] == "N":
        return "(ENum %s %s %s %s)" % (cstr(d[1]), cstr(d[2]), cq(d[3]), cq(d[4]))
    if d[0] == "S":
        return "(ESym SX)" if d[1] == "x" else "(ESym (SA %d))" % int(d[1][1:])
    return "(EApp %s [%s])" % (cstr(d[1]), "; ".join(csexpr(a) for a in d[2]))


def cstrs(l):
    return "[" + "; ".join(cstr(s) for s in l) + "]"


def costrs(l):
    return "None" if l is None else "(Some %s)" % cstrs(l)


HEADER = """From Coq Require Import String List QArith.
From ESRV Require Import Common.Corr Model.ToList.
Import ListNotations.
Open Scope string_scope.
Definition shows (o : option (list label)) := option_map (map show_label) o.
Definition rshows (o : option (list rlabel)) := option_map (map show_rlabel) o.
Definition tl (b : basis) (e : sexpr) := shows (obind (decorate b e) (to_list b None)).
Definition nd (b : basis) (ps : list (option sexpr)) := shows (option_map (fun r => snd r) (string_to_node b ps)).
Definition ft (b : basis) (rf : bool) (ps : list (option sexpr)) := rshows (fit_labels b rf ps).
"""


def coq_eval(text, tags):
    rc, out = esrv.coq_run(text, timeout=1500)
    flat = " ".join(out.split()).replace("%string", "").replace("%nat", "").replace("%list", "")
    res = {}
    for t in tags:
        m = re.search(r'\("%s", \[([^\]]*)\]\)' % t, flat)
        res[t] = None if (rc != 0 or not m) else [int(v) for v in m.group(1).replace(" ", "").split(";") if v]
    return rc, flat, res


def correspondence(ctx):
    rep = ctx.report
    n = 300 if ctx.quick else 5000
    cases = gen_cases(ctx.seed, n)
    recs = run_impl(ctx, cases)
    ctx.recs = recs
    shard = 250
    tot_parse = tot_node = tot_fit = 0
    unsupported = {}
    skipped_node = 0
    for k in range(0, len(recs), shard):
        defs, names = [], {}
        tl_cases, nd_cases, ft_cases = [], [], []
        meta_tl, meta_nd, meta_ft = [], [], []

        def name_of(d):
            key = json.dumps(d)
            if key not in names:
                names[key] = "e%d" % len(names)
                defs.append("Definition %s : sexpr := %s." % (names[key], csexpr(d)))
            return names[key]
        for r in recs[k:k + shard]:
            b = r["basis"]
            for ev in ("0", "1"):
                ps = r["parses"][ev]
                plist, complete = [], True
                for i, p in enumerate(ps):
                    real = None if isinstance(p["to_list"], str) else p["to_list"]
                    if p["dump"] is None:
                        unsupported[p["unsupported"]] = unsupported.get(p["unsupported"], 0) + 1
                        if real is not None:
                            complete = False     # the real code got a candidate the model cannot be given
                        plist.append("None")
                        continue
                    nm = name_of(p["dump"])
                    plist.append("(Some %s)" % nm if real is not None else "None")
                    tl_cases.append("(%s, %s, %s)" % (b, nm, costrs(real)))
                    meta_tl.append((b, r["formula"], ev, i))
                    if real is not None and p["count"] != len(real):
                        rep.fail("broken-correspondence", "count_nodes differs from len(to_list)", "C18:count-corr",
                                 input=[b, r["formula"], ev, i], observed=p["count"], expected=len(real), theorem="count_nodes")
                if not complete:
                    skipped_node += 1
                    continue
                nd = r["node"][ev]
                exp = None if "exc" in nd else nd["labels"]
                nd_cases.append("(%s, [%s], %s)" % (b, "; ".join(plist), costrs(exp)))
                meta_nd.append((b, r["formula"], ev))
                if exp is not None and nd["count"] != len(exp):
                    rep.fail("broken-correspondence", "string_to_node's complexity differs from len(labels)", "C18:count-corr",
                             input=[b, r["formula"], ev], observed=nd["count"], expected=len(exp), theorem="count_nodes")
                if ev == "1":
                    for rf in ("0", "1"):
                        ft_ = r["fit"][rf]
                        exp = None if "exc" in ft_ else ft_["labels"]
                        ft_cases.append("(%s, %s, [%s], %s)" % (b, "true" if rf == "1" else "false", "; ".join(plist), costrs(exp)))
                        meta_ft.append((b, r["formula"], rf))
                        # string_to_aifeyn runs the same code and then tree_to_aifeyn: its complexity is len(labels)
                        af = r["aifeyn"][rf]
                        if exp is not None and "compl" in af and af["compl"] != len(exp):
                            rep.fail("broken-correspondence", "string_to_aifeyn's complexity differs from len(labels) of fit_from_string",
                                     "C18:aifeyn-corr", input=[b, r["formula"], rf], observed=af, expected=len(exp), theorem="final_labels")
            rep.case(key=(r["basis"], r["formula"]), nontrivial=any(c in r["formula"] for c in "(*+/-"),
                     sample={"basis": r["basis"], "formula": r["formula"], "string_to_node": r["node"], "fit_from_string": r["fit"]})
        v = HEADER + "\n".join(defs) + "\n"
        v += "Definition tl_cases : list (basis * sexpr * option (list string)) := [%s].\n" % ";\n ".join(tl_cases)
        v += "Definition nd_cases : list (basis * list (option sexpr) * option (list string)) := [%s].\n" % ";\n ".join(nd_cases)
        v += "Definition ft_cases : list (basis * bool * list (option sexpr) * option (list string)) := [%s].\n" % ";\n ".join(ft_cases)
        v += 'Eval vm_compute in ("TL", failing (fun c => match c with (b, e, x) => ostrs_eqb (tl b e) x end) tl_cases).\n'
        v += 'Eval vm_compute in ("ND", failing (fun c => match c with (b, ps, x) => ostrs_eqb (nd b ps) x end) nd_cases).\n'
        v += 'Eval vm_compute in ("FT", failing (fun c => match c with (b, rf, ps, x) => ostrs_eqb (ft b rf ps) x end) ft_cases).\n'
        rc, flat, res = coq_eval(v, ["TL", "ND", "FT"])
        tot_parse += len(tl_cases)
        tot_node += len(nd_cases)
        tot_fit += len(ft_cases)
        for tag, meta, what in (("TL", meta_tl, "DecoratedNode(expr).to_list(basis)"), ("ND", meta_nd, "string_to_node's chosen label list"),
                                ("FT", meta_ft, "fit_from_string's labels before the fit")):
            if res[tag] is None:
                rep.fail("broken-correspondence", "model evaluation failed (%s)" % tag, "C18:coq-run", observed=flat[-1500:], theorem="Model/ToList.v")
                break
            for idx in res[tag][:3]:
                rep.fail("broken-correspondence", "model and implementation differ on %s" % what, "C18:%s-corr" % tag.lower(),
                         input=list(meta[idx]), theorem="Model/ToList.v: decorate / to_list / string_to_node / fit_labels")
    rep.traces += tot_parse + tot_node + tot_fit
    rep.extra["correspondence"] = {"formulas": len(recs), "parse_dumps_compared": tot_parse, "string_to_node_compared": tot_node,
                                   "fit_labels_compared": tot_fit, "unsupported_dumps": unsupported,
                                   "string_to_node_skipped_unsupported_candidate": skipped_node}
    rep.rule = ("%d fixed + %d grammar formulas (x, a0..a2, integers, decimals, unary/binary operators of the basis, **, unary minus; depth<=4) "
                "round-robin over the six shipped bases; each of the four sympy parses with and without evalf dumped structurally; "
                "model (vm_compute) vs real DecoratedNode.to_list, count_nodes, string_to_node (evalf False/True) and fit_from_string's "
                "labels (replace_floats False/True, single_function stubbed)" % (len(FIXED), n))


def search(ctx):
    pass


TRUSTED = []
ASSUMPTIONS = []
LEVEL_TEXT = ""
LEVEL_NOTE = ""
TECHNIQUE = ""
