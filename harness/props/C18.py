"""C18 -- converting a formula string to a tree preserves the function."""
import json
import os
import re
import sys

import esrv

PROPS_V = "Props/C18.v"
# functions the hand-written model of this property was written against (normalised source stored under harness/corr/guards/;
# a difference is reported as broken-correspondence: the theorems then no longer speak about the current source)
SOURCE_GUARDS = [
    ("esr/generation/generator.py", "DecoratedNode.to_list"),
    ("esr/generation/generator.py", "DecoratedNode.__init__"),
    ("esr/generation/generator.py", "string_to_node"),
    ("esr/fitting/fit_single.py", "fit_from_string"),
    ("esr/fitting/fit_single.py", "string_to_aifeyn"),
]

TRANSLATORS = []
IMPL = os.path.join(esrv.VERIF, "harness", "corr", "c18_impl.py")

BASES = {
    "keep_duplicates": [["x", "a"], ["square", "exp", "inv", "sqrt_abs", "log_abs"], ["+", "*", "-", "/", "pow"]],
    "core_maths": [["x", "a"], ["inv"], ["+", "*", "-", "/", "pow"]],
    "ext_maths": [["x", "a"], ["inv", "sqrt_abs", "square", "exp"], ["+", "*", "-", "/", "pow"]],
    "osc_maths": [["x", "a"], ["inv", "sin"], ["+", "*", "-", "/", "pow"]],
    "base10_maths": [["x", "a"], ["tenexp", "inv", "log10_abs"], ["+", "*", "-", "/", "pow"]],
    "base_e_maths": [["x", "a"], ["inv", "exp", "log_abs"], ["+", "*", "-", "/", "pow"]],
}

# always run: the witnesses of the refuted statements, the corpus cases of repaired defects ('2.0', 'x-x', '1.5' with
# replace_floats: C18:replace-floats:root-number-raises, fixed in /repo 2dc0910) and a few shapes every branch of to_list needs
FIXED = [
    ("keep_duplicates", "sqrt_abs(x)"), ("keep_duplicates", "log_abs(x)"), ("ext_maths", "sqrt_abs(x)"),
    ("base_e_maths", "log_abs(x)"), ("base_e_maths", "a0*log_abs(x)+a1"), ("keep_duplicates", "pow(x,0.5)"),
    ("core_maths", "x**a0*(-1)"), ("core_maths", "(x**a0)/(-1)"), ("keep_duplicates", "pow(x,a0)*(-1)"),
    ("keep_duplicates", "square(x)"), ("keep_duplicates", "square(x+a0)"), ("keep_duplicates", "(x+a0)**2"),
    ("core_maths", "x**2"), ("core_maths", "x**3"), ("core_maths", "1/x"), ("core_maths", "a0/x"), ("core_maths", "x/2"),
    ("core_maths", "pow(a0,x)"), ("keep_duplicates", "sqrt_abs(a0)"), ("keep_duplicates", "log_abs(a0)"),
    ("core_maths", "1.0*x"), ("core_maths", "x*1"), ("core_maths", "2.0"), ("core_maths", "x-x"), ("osc_maths", "1.5"), ("core_maths", "x-a0"), ("core_maths", "a0*x-a1"),
    ("core_maths", "x+a0+a1*x"), ("core_maths", "a0*a1*x*inv(x+1)"), ("core_maths", "x**2.5+3*x"), ("core_maths", "a1*x+a0"),
    ("core_maths", "pow(x,2.5+a0)"), ("core_maths", "pow(2.5,x)"), ("core_maths", "2.5*pow(x,3.5)+1.5"),
    ("base10_maths", "log10_abs(x)"), ("base10_maths", "tenexp(x)"), ("osc_maths", "sin(a0*x)"),
    ("keep_duplicates", "exp(x)*2.0"), ("keep_duplicates", "x**(-1.0)"), ("keep_duplicates", "inv(x)**0.5"),
    ("core_maths", "inv(pow(a0-a2,-a0))"),
]

INTS = ["1", "2", "3", "2", "3", "-1", "-1", "0", "4", "5", "-2", "10"]
DECS = ["0.5", "1.5", "2.5", "2.0", "1.0", "-1.0", "0.25", "3.0", "0.1", "-0.5", "1.25e-1", "0.333"]


def _leaf(r):
    u = r.random()
    if u < 0.40:
        return "x"
    if u < 0.65:
        return "a%d" % r.randrange(3)
    if u < 0.85:
        return r.choice(INTS)
    return r.choice(DECS)


def _par(s):
    return s if s.isalnum() else "(" + s + ")"


def _tower(s):
    """a symbol-free subformula that itself contains a power: as an exponent it makes sympy compute astronomically
    large integers (10**(5**(4**3))) inside C code that no time limit can interrupt -- not generated"""
    return re.search(r'\b(x|a\d+)\b', s) is None and any(t in s for t in ("**", "pow(", "tenexp(", "exp(", "square(", "cube("))


def gen_formula(r, basis, depth):
    if depth == 0 or r.random() < 0.18:
        return _leaf(r)
    un, bi = basis[1], basis[2]
    if r.random() < 0.30 and un:
        f = r.choice(un)
        a = gen_formula(r, basis, depth - 1)
        if f in ("tenexp", "exp") and _tower(a):
            a = _leaf(r)
        return "%s(%s)" % (f, a)
    op = r.choice(bi + ["**", "neg"])
    if op == "neg":
        return "-" + _par(gen_formula(r, basis, depth - 1))
    a, b = gen_formula(r, basis, depth - 1), gen_formula(r, basis, depth - 1)
    if op in ("pow", "**") and _tower(b):
        b = _leaf(r)
    if op == "pow":
        return "pow(%s,%s)" % (a, b)
    if op == "**":
        return "%s**%s" % (_par(a), _par(b))
    if r.random() < 0.5:
        return "%s%s%s" % (_par(a), op, _par(b))
    return "(%s) %s (%s)" % (a, op, b)


def gen_cases(seed, n):
    r = esrv.rng(seed, "C18/grammar")
    names = list(BASES)
    out = [list(c) for c in FIXED]
    seen = set(tuple(c) for c in out)
    i = 0
    while len(out) < n + len(FIXED):
        bn = names[i % len(names)]
        i += 1
        f = gen_formula(r, BASES[bn], r.choice([1, 2, 2, 3, 3, 4]))
        if (bn, f) in seen:
            continue
        seen.add((bn, f))
        out.append([bn, f])
    return out


def run_impl(ctx, cases, shard=400):
    res = []
    for k in range(0, len(cases), shard):
        job = json.dumps({"bases": BASES, "cases": cases[k:k + shard]})
        rc, out, err = esrv.run_py(ctx.scratch, IMPL, [], stdin=job, timeout=3000)
        if rc != 0:
            raise RuntimeError("c18_impl failed: " + err[-1500:])
        res += json.loads(out)
    timed_out = [[r["basis"], r["formula"]] for r in res if r.get("timeout")]
    ctx.timed_out = getattr(ctx, "timed_out", []) + timed_out
    return [r for r in res if not r.get("timeout")]


# ------------------------------------------------------------------ Coq literals

def cstr(s):
    return '"' + s.replace('"', '""') + '"'


def cq(pq):
    p, q = pq
    return "(%s # %d)" % ("(%d)" % p if p < 0 else "%d" % p, q)


def csexpr(d):
    if d[0] == "N":
        return "(ENum %s %s %s %s)" % (cstr(d[1]), cstr(d[2]), cq(d[3]), cq(d[4]))
    if d[0] == "S":
        return "(ESym SX)" if d[1] == "x" else "(ESym (SA %d))" % int(d[1][1:])
    return "(EApp %s [%s])" % (cstr(d[1]), "; ".join(csexpr(a) for a in d[2]))


def cstrs(l):
    return "[" + "; ".join(cstr(s) for s in l) + "]"


def costrs(l):
    return "None" if l is None else "(Some %s)" % cstrs(l)


HEADER = """From Coq Require Import String List QArith.
From ESRV Require Import Common.Corr Model.ToList.
Import ListNotations.
Open Scope string_scope.
Definition shows (o : option (list label)) := option_map (map show_label) o.
Definition rshows (o : option (list rlabel)) := option_map (map show_rlabel) o.
Definition tl (b : basis) (e : sexpr) := shows (obind (decorate b e) (to_list b None)).
Definition nd (b : basis) (ps : list (option sexpr)) := shows (option_map (fun r => snd r) (string_to_node b ps)).
Definition ft (b : basis) (rf : bool) (ps : list (option sexpr)) := rshows (fit_labels b rf ps).
"""


def coq_eval(text, tags):
    rc, out = esrv.coq_run(text, timeout=1500)
    flat = " ".join(out.split()).replace("%string", "").replace("%nat", "").replace("%list", "")
    res = {}
    for t in tags:
        m = re.search(r'\("%s", \[([^\]]*)\]\)' % t, flat)
        res[t] = None if (rc != 0 or not m) else [int(v) for v in m.group(1).replace(" ", "").split(";") if v]
    return rc, flat, res


def correspondence(ctx):
    rep = ctx.report
    n = 300 if ctx.quick else 5000
    cases = gen_cases(ctx.seed, n)
    recs = run_impl(ctx, cases)
    ctx.recs = recs
    shard = 250
    tot_parse = tot_node = tot_fit = 0
    unsupported = {}
    skipped_node = 0
    dom = {}
    for k in range(0, len(recs), shard):
        defs, names = [], {}
        tl_cases, nd_cases, ft_cases = [], [], []
        meta_tl, meta_nd, meta_ft = [], [], []

        def name_of(d):
            key = json.dumps(d)
            if key not in names:
                names[key] = "e%d" % len(names)
                defs.append("Definition %s : sexpr := %s." % (names[key], csexpr(d)))
            return names[key]
        for r in recs[k:k + shard]:
            b = r["basis"]
            for ev in ("0", "1"):
                ps = r["parses"][ev]
                plist, complete = [], True
                for i, p in enumerate(ps):
                    real = None if isinstance(p["to_list"], str) else p["to_list"]
                    if p["dump"] is None:
                        unsupported[p["unsupported"]] = unsupported.get(p["unsupported"], 0) + 1
                        if real is not None:
                            complete = False     # the real code got a candidate the model cannot be given
                        plist.append("None")
                        continue
                    nm = name_of(p["dump"])
                    plist.append("(Some %s)" % nm if real is not None else "None")
                    tl_cases.append("(%s, %s, %s)" % (b, nm, costrs(real)))
                    meta_tl.append((b, r["formula"], ev, i))
                    if real is not None and p["count"] != len(real):
                        rep.fail("broken-correspondence", "count_nodes differs from len(to_list)", "C18:count-corr",
                                 input=[b, r["formula"], ev, i], observed=p["count"], expected=len(real), theorem="count_nodes")
                if not complete:
                    skipped_node += 1
                    continue
                nd = r["node"][ev]
                exp = None if "exc" in nd else nd["labels"]
                nd_cases.append("(%s, [%s], %s)" % (b, "; ".join(plist), costrs(exp)))
                meta_nd.append((b, r["formula"], ev))
                if exp is not None and nd["count"] != len(exp):
                    rep.fail("broken-correspondence", "string_to_node's complexity differs from len(labels)", "C18:count-corr",
                             input=[b, r["formula"], ev], observed=nd["count"], expected=len(exp), theorem="count_nodes")
                if ev == "1":
                    for rf in ("0", "1"):
                        ft_ = r["fit"][rf]
                        exp = None if "exc" in ft_ else ft_["labels"]
                        ft_cases.append("(%s, %s, [%s], %s)" % (b, "true" if rf == "1" else "false", "; ".join(plist), costrs(exp)))
                        meta_ft.append((b, r["formula"], rf))
                        # string_to_aifeyn runs the same code and then tree_to_aifeyn: its complexity is len(labels)
                        af = r["aifeyn"][rf]
                        if exp is not None and "compl" in af and af["compl"] != len(exp):
                            rep.fail("broken-correspondence", "string_to_aifeyn's complexity differs from len(labels) of fit_from_string",
                                     "C18:aifeyn-corr", input=[b, r["formula"], rf], observed=af, expected=len(exp), theorem="final_labels")
            rep.case(key=(r["basis"], r["formula"]), nontrivial=any(c in r["formula"] for c in "(*+/-"),
                     sample={"basis": r["basis"], "formula": r["formula"], "string_to_node": r["node"], "fit_from_string": r["fit"]})
        v = HEADER + "\n".join(defs) + "\n"
        v += "Definition tl_cases : list (basis * sexpr * option (list string)) := [%s].\n" % ";\n ".join(tl_cases)
        v += "Definition nd_cases : list (basis * list (option sexpr) * option (list string)) := [%s].\n" % ";\n ".join(nd_cases)
        v += "Definition ft_cases : list (basis * bool * list (option sexpr) * option (list string)) := [%s].\n" % ";\n ".join(ft_cases)
        v += 'Eval vm_compute in ("TL", failing (fun c => match c with (b, e, x) => ostrs_eqb (tl b e) x end) tl_cases).\n'
        v += 'Eval vm_compute in ("ND", failing (fun c => match c with (b, ps, x) => ostrs_eqb (nd b ps) x end) nd_cases).\n'
        v += 'Eval vm_compute in ("FT", failing (fun c => match c with (b, rf, ps, x) => ostrs_eqb (ft b rf ps) x end) ft_cases).\n'
        v += ('Eval vm_compute in ("DOM", [length (filter (fun c => match c with (b, e, _) => supportedb e end) tl_cases); '
              'length (filter (fun c => match c with (b, e, _) => supportedb e && exactb e end) tl_cases); '
              'length (filter (fun c => match c with (b, e, _) => supportedb e && match decorate b e with Some d => negb (no_bad b d) | None => false end end) tl_cases)]).\n')
        rc, flat, res = coq_eval(v, ["TL", "ND", "FT", "DOM"])
        if res.get("DOM") and len(res["DOM"]) == 3:
            for i_, k_ in enumerate(("in_fragment", "in_fragment_and_exact", "in_fragment_but_defective_branch")):
                dom[k_] = dom.get(k_, 0) + res["DOM"][i_]
        tot_parse += len(tl_cases)
        tot_node += len(nd_cases)
        tot_fit += len(ft_cases)
        for tag, meta, what in (("TL", meta_tl, "DecoratedNode(expr).to_list(basis)"), ("ND", meta_nd, "string_to_node's chosen label list"),
                                ("FT", meta_ft, "fit_from_string's labels before the fit")):
            if res[tag] is None:
                rep.fail("broken-correspondence", "model evaluation failed (%s)" % tag, "C18:coq-run", observed=flat[-1500:], theorem="Model/ToList.v")
                break
            for idx in res[tag][:3]:
                rep.fail("broken-correspondence", "model and implementation differ on %s" % what, "C18:%s-corr" % tag.lower(),
                         input=list(meta[idx]), theorem="Model/ToList.v: decorate / to_list / string_to_node / fit_labels")
    rep.traces += tot_parse + tot_node + tot_fit
    rep.extra["correspondence"] = {"formulas": len(recs), "parse_dumps_compared": tot_parse, "string_to_node_compared": tot_node,
                                   "fit_labels_compared": tot_fit, "unsupported_dumps": unsupported,
                                   "string_to_node_skipped_unsupported_candidate": skipped_node,
                                   "dumps_in_theorem_domain": dom,
                                   "formulas_set_aside_sympy_over_30s": getattr(ctx, "timed_out", [])[:10]}
    rep.rule = ("%d fixed + %d grammar formulas (x, a0..a2, integers, decimals, unary/binary operators of the basis, **, unary minus; depth<=4) "
                "round-robin over the six shipped bases; each of the four sympy parses with and without evalf dumped structurally; "
                "model (vm_compute) vs real DecoratedNode.to_list, count_nodes, string_to_node (evalf False/True) and fit_from_string's "
                "labels (replace_floats False/True, single_function stubbed)" % (len(FIXED), n))


# ------------------------------------------------------------------ spec side

def _spec_relab(l):
    return {"Mul": "*", "Add": "+", "Div": "/", "Sub": "-"}.get(l, l.lower())


def _is_num(l):
    return re.fullmatch(r'-?\d+(\.\d*)?(e[+-]?\d+)?|-?\d+/\d+', l) is not None


def _is_par(l):
    return re.fullmatch(r'a\d+', l) is not None


def _unknown(lo, l):
    return not (_is_num(l) or _is_par(l) or l == "x" or l in lo.ARITY or l in ("nan", "zoo", "oo", "-oo", "i", "e", "pi"))


def _formula_fn(lo, s):
    """the formula itself under ESR's reading (pow/sqrt/log through absolute values); a point where an infix `**`
    or a pow(.,.) has a non-positive base is outside the property's domain (Undefined => skipped)"""
    ns0 = dict(lo.esr_namespace('esr'))

    def strict_pow(a, b):
        if not (a > 0):
            raise lo.Undefined('non-positive power base')
        return lo.mp.power(a, b)
    ns0['__pow'] = strict_pow
    ns0['pow'] = strict_pow      # pow(a,b) is |a|**b for ESR but a**b for the kernS parses: they agree for a > 0 only
    code = lo.compile_expr(s)

    def f(x, th):
        ns = dict(ns0)
        ns['x'] = x
        for i, v in enumerate(th):
            ns['a%d' % i] = v
        try:
            return lo._fin(eval(code, {'__builtins__': {}}, ns))
        except lo.Undefined:
            raise
        except (ZeroDivisionError, OverflowError, ValueError, TypeError, NameError) as e:
            raise lo.Undefined('%s: %s' % (type(e).__name__, e))
    return f


def _labels_fn(lo, labels):
    tree, j = lo.parse_tree(labels, 0)

    def check_bases(t, x, th):
        # the domain of the property: every power base (and sqrt / log argument) of the returned tree is positive here.
        # sympy may have moved a sign into the base ((-1/a)**(-3) -> a**3), so the formula's own bases are not enough.
        if len(t) > 1:
            if t[0] in ('pow', 'sqrt', 'log') and not (lo.eval_tree(t[1], x, th) > 0):
                raise lo.Undefined('non-positive power base in the label tree')
            for c in t[1:]:
                check_bases(c, x, th)

    def g(x, th):
        try:
            check_bases(tree, x, th)
            return lo._fin(lo.eval_tree(tree, x, th))
        except lo.Undefined:
            raise
        except (ZeroDivisionError, OverflowError, ValueError, TypeError, IndexError) as e:
            raise lo.Undefined(str(e))
    return g


def _parents(lo, labels):
    """parent label of every position, from the independent prefix parser"""
    out = [None] * len(labels)

    def walk(i, par):
        out[i] = par
        a = lo.ARITY.get(labels[i], 0)
        j = i + 1
        for _ in range(a):
            j = walk(j, labels[i])
        return j
    walk(0, None)
    return out


def _in_exponent(lo, labels):
    """positions lying anywhere inside the second argument of a pow"""
    flag = [False] * len(labels)

    def walk(i, inside):
        flag[i] = inside
        a = lo.ARITY.get(labels[i], 0)
        j = i + 1
        for k in range(a):
            j = walk(j, inside or (labels[i] == 'pow' and k == 1))
        return j
    walk(0, False)
    return flag


def _direct_exponent(lo, labels):
    """positions that are the root of the second argument of a pow"""
    flag = [False] * len(labels)

    def walk(i, here):
        flag[i] = here
        a = lo.ARITY.get(labels[i], 0)
        j = i + 1
        for k in range(a):
            j = walk(j, labels[i] == 'pow' and k == 1)
        return j
    walk(0, False)
    return flag


def _same(lo, f, g, rng, npar):
    pts = lo.gen_points(rng, npar, 8)
    res, det = lo.same_function(f, g, pts)
    if res == 'undecided':
        res, det = lo.same_function(f, g, lo.gen_points(rng, npar, 40))
    if res == 'diff':
        # 15-digit printing of constants: only a difference that survives a looser comparison counts
        u, v = lo.mp.mpf(det['lhs']), lo.mp.mpf(det['rhs'])
        if abs(u - v) <= lo.mp.mpf(10) ** -9 * (1 + abs(u) + abs(v)):
            return 'ok', None
    return res, det


def search(ctx):
    rep = ctx.report
    sys.path.insert(0, os.path.join(esrv.VERIF, "harness", "lib"))
    import liboracle as lo
    recs = getattr(ctx, "recs", None)
    if ctx.replay and isinstance(ctx.replay.get("input"), dict) and "formula" in ctx.replay["input"]:
        recs = run_impl(ctx, [[ctx.replay["input"]["basis"], ctx.replay["input"]["formula"]]])
    if recs is None:
        recs = run_impl(ctx, gen_cases(ctx.seed, 300 if ctx.quick else 5000))
    rng = esrv.rng(ctx.seed, "C18/points")
    stats = {"checked_function": 0, "undecided": 0, "skipped_symbolic_leaf": 0, "nested_exponent_constant_replaced": 0,
             "raises": {}, "f5": 0, "abs": 0, "drops_operand": 0, "root_number": 0, "outside_fragment": 0}
    nested_example = None
    seen_keys = {}

    def fail(what, key, **kw):
        seen_keys[key] = seen_keys.get(key, 0) + 1
        if seen_keys[key] <= 3:
            rep.fail("failing-input", what, key, **kw)

    for r in recs:
        bname, s = r["basis"], r["formula"]
        basis = BASES[bname]
        flat = [x for sub in basis for x in sub]
        npar = max([int(m) + 1 for m in re.findall(r'\ba(\d+)\b', s)] + [1])
        try:
            f = _formula_fn(lo, s)
        except Exception:
            continue
        entries = []    # (entry point, evalf, rf, relabelled labels | None, reported complexity | None, exception | None)
        nd = r["node"]["0"]
        entries.append(("generator.string_to_node(s, basis)", None,
                        None if "exc" in nd else [_spec_relab(l) for l in nd["labels"]],
                        nd.get("count"), nd.get("exc")))
        for rf in ("0", "1"):
            ft = r["fit"][rf]
            af = r["aifeyn"][rf]
            entries.append(("fit_single.fit_from_string(s, basis, replace_floats=%s) [labels]" % (rf == "1"), rf,
                            ft.get("labels"), af.get("compl"), ft.get("exc")))
        base_labels = None
        for entry, rf, labels, compl, exc in entries:
            inp = {"basis": bname, "formula": s, "entry": entry}
            if exc is not None:
                # what the user observes is an exception: classify it
                nl = [_spec_relab(l) for l in r["node"]["1"].get("labels", [])]
                stats["raises"][exc] = stats["raises"].get(exc, 0) + 1
                if exc == "ValueError" and any(l in ("sqrt", "log") and l not in flat for l in nl):
                    stats["f5"] += 1
                    fail("a formula over the basis is converted to the labels %r: 'sqrt'/'log' are not basis labels (the basis spells them "
                         "sqrt_abs/log_abs) and labels_to_shape raises ValueError in fit_from_string / string_to_aifeyn" % (nl,),
                         "C18:to_list:sqrt-log-label-not-in-basis", input=dict(inp, labels=nl), observed="ValueError",
                         expected="labels over the basis")
                elif exc == "ValueError" and any(_unknown(lo, l) for l in nl):
                    stats["outside_fragment"] += 1   # sympy's rewriting introduced a class outside the fragment (re, sign, ...)
                    if stats.get("outside_fragment_example") is None:
                        stats["outside_fragment_example"] = dict(inp, labels=nl)
                elif exc == "ValueError" and "abs" in nl and "abs" not in flat:
                    stats["abs"] += 1
                    fail("a formula over the basis is converted to the labels %r: the Abs that the symbol table's pow/sqrt_abs/log_abs wrap around "
                         "their argument is kept as a label 'abs' (to_list's 'Don't keep abs after pow or sqrt' branch is unreachable: the "
                         "degree==1 branch precedes it) and labels_to_shape raises ValueError" % (nl,),
                         "C18:to_list:abs-label-not-in-basis", input=dict(inp, labels=nl), observed="ValueError", expected="labels over the basis")
                elif exc == "AttributeError" and rf == "1" and len(nl) >= 1 and _is_num(nl[0]):
                    stats["root_number"] += 1
                    fail("replace_floats=True on a formula whose tree is a single number %r raises AttributeError (parents[0] is None)" % (nl,),
                         "C18:replace-floats:root-number-raises", input=dict(inp, labels=nl), observed="AttributeError", expected="['a0']")
                elif exc == "ValueError" and any(l in ("nan", "zoo", "oo", "-oo", "i", "e", "pi") for l in nl):
                    pass    # the formula has no finite real value (0/0, 1/0, ...) or a symbolic constant: outside the property
                elif exc == "ValueError" and not nl:
                    pass    # no parse at all (sympy rejects the string)
                else:
                    fail("conversion raises %s" % exc, "C18:raises:%s" % exc, input=dict(inp, labels=nl), observed=exc, expected="a label list")
                continue
            if labels is None:
                continue
            inp["labels"] = labels
            # complexity == number of labels
            if compl is not None and compl != len(labels):
                fail("reported complexity differs from the number of labels", "C18:complexity-differs", input=inp, observed=compl, expected=len(labels))
            if any(l in ("nan", "zoo", "oo", "-oo", "i", "e", "pi") for l in labels):
                stats["skipped_symbolic_leaf"] += 1
                continue
            if any(_unknown(lo, l) for l in labels):
                stats["outside_fragment"] += 1
                if stats.get("outside_fragment_example") is None:
                    stats["outside_fragment_example"] = dict(inp)
                continue
            # well-formed prefix list
            if not lo.wellformed(labels):
                if any(labels[j] == "*" and labels[j + 1] == "-1" for j in range(len(labels) - 1)):
                    stats["drops_operand"] += 1
                    fail("labels %r are not a tree: to_list returns ['Mul'] + children[1].to_list() for Pow(..)*(-1) / Pow(..)/(-1), "
                         "dropping the power; the reported complexity is %d" % (labels, len(labels)),
                         "C18:to_list:pow-times-minus-one-drops-operand", input=inp, observed=labels, expected="a well-formed prefix list of the formula")
                else:
                    fail("labels are not a well-formed prefix list", "C18:malformed", input=inp, observed=labels, expected="well-formed")
                continue
            if rf is not None:
                for l in labels:
                    if l in lo.ARITY and l not in flat:
                        fail("label %r is not a basis label" % l, "C18:label-not-in-basis:%s" % l, input=inp, observed=labels, expected="labels over the basis")
            if rf != "1":
                # parameters come from the formula; the labels evaluate to the formula
                extra = [l for l in labels if _is_par(l) and not re.search(r'\b%s\b' % l, s)]
                if extra:
                    fail("labels contain parameters %r the formula does not have although no replacement was requested" % extra,
                         "C18:constant-became-parameter", input=inp, observed=labels, expected="constants kept")
                try:
                    g = _labels_fn(lo, labels)
                except Exception as e:
                    fail("labels cannot be evaluated: %s" % e, "C18:malformed", input=inp, observed=labels, expected="a tree")
                    continue
                res, det = _same(lo, g, f, rng, npar)
                if res == 'diff':
                    fail("labels evaluate to a different function than the formula (all power bases positive at this point)",
                         "C18:function-differs", input=dict(inp, point=det), observed=det["lhs"], expected=det["rhs"])
                elif res == 'undecided':
                    stats["undecided"] += 1
                else:
                    stats["checked_function"] += 1
                if rf == "0":
                    base_labels = labels
            else:
                # replacement requested: same shape as without; only numbers/parameters change; numbering by position;
                # a number directly under pow is kept
                if base_labels is None or len(base_labels) != len(labels):
                    fail("replace_floats changes the shape of the label list", "C18:replace-floats:shape", input=inp, observed=labels, expected=base_labels)
                    continue
                par = _parents(lo, base_labels)
                inexp = _in_exponent(lo, base_labels)
                dexp = _direct_exponent(lo, base_labels)
                # (a) the property itself: operators/x unchanged, a constant is kept or becomes a parameter, never the exponent of a
                #     pow, and the tree with free parameters can still express the formula: no parameter of the new tree has to
                #     take two different values (two constants, a constant and a parameter of the formula, two formula parameters)
                need = {}
                bad = None
                for j, (l0, l1) in enumerate(zip(base_labels, labels)):
                    tok = ("num", l0) if _is_num(l0) else ("par", l0) if _is_par(l0) else None
                    if tok is None:
                        if l1 != l0:
                            bad = ("position %d: %r became %r (not a constant or parameter)" % (j, l0, l1), "C18:replace-floats:shape")
                            break
                        continue
                    if _is_par(l1):
                        if tok[0] == "num" and dexp[j]:
                            bad = ("position %d: the constant exponent %r of a pow became the parameter %r" % (j, l0, l1), "C18:replace-floats:exponent")
                            break
                        if need.setdefault(l1, tok) != tok:
                            bad = ("parameter %r of the new tree stands for %r at one position and for %r at position %d: no value of it "
                                   "reproduces the formula" % (l1, need[l1][1], l0, j), "C18:replace-floats:parameter-collision")
                            break
                    elif l1 != l0:
                        bad = ("position %d: %r became %r" % (j, l0, l1), "C18:replace-floats:value-changed")
                        break
                if bad is not None:
                    fail("replace_floats: " + bad[0], bad[1], input=dict(inp, without_replacement=base_labels), observed=labels, expected="same function with the constants free")
                    continue
                # (b) ESR's own numbering (numbers not directly under pow and parameters become a0,a1,.. by position): stricter than the
                #     property, so a difference here is a broken correspondence with the model (ToList.replace_floats), not a failing input
                k = 0
                for j, (l0, l1) in enumerate(zip(base_labels, labels)):
                    want = l0
                    if _is_par(l0) or (_is_num(l0) and par[j] != 'pow'):
                        want = "a%d" % k
                        k += 1
                    if l1 != want:
                        rep.fail("broken-correspondence", "replace_floats: position %d is %r, the model (numbers not directly under pow and parameters become "
                                 "a0,a1,.. in order) has %r; formula %r basis %s labels %r" % (j, l1, want, s, bname, labels), "C18:replace-floats:numbering")
                        break
                    if _is_num(l0) and inexp[j] and l1 != l0:
                        stats["nested_exponent_constant_replaced"] += 1
                        if nested_example is None:
                            nested_example = {"basis": bname, "formula": s, "labels": base_labels, "replaced": labels}
        rep.case(key=("search", bname, s), nontrivial=any(c in s for c in "(*+/-"), sample=None)
    stats["nested_exponent_example"] = nested_example
    rep.extra["search"] = stats


TRUSTED = [
    "Coq 8.16.1 kernel + vm_compute (no native_compute)",
    "Print Assumptions: the list-level theorems (refutation witnesses, constants_kept, replace_floats_spec, no_param_in_exponent, "
    "param_order_by_position, string_to_node_minimal) are closed under the global context; the theorems that mention real numbers or are "
    "derived from the real-valued lemma (to_list_total, to_list_wellformed, to_list_sound, labels_in_basis_except_sqrt_log, choice_irrelevant) "
    "list the standard-library axioms ClassicalDedekindReals.sig_not_dec, ClassicalDedekindReals.sig_forall_dec, "
    "FunctionalExtensionality.functional_extensionality_dep and Classical_Prop.classic (all from Coq's Reals)",
    "hand-written model coq/Model/ToList.v of DecoratedNode.__init__/is_unity/count_nodes/to_list, string_to_node's nanargmin choice, "
    "the relabelling and replace-floats code of fit_from_string/string_to_aifeyn, labels_to_shape and check_tree's parents; tied to the source by "
    "the correspondence run (every parse of every generated formula, vm_compute vs the real objects) on every check",
    "sympy 1.14 (sympify, kernS, powsimp, factor, evalf, as_two_terms, str() of numbers, `Float == int/float` comparisons): an oracle, "
    "represented by its structural dump; harness/corr/c18_impl.py's dumper (class names, .args order, exact and printed values of number atoms)",
    "spec-side evaluators harness/lib/liboracle.py (mpmath, 30 digits)",
]
ASSUMPTIONS = [
    "parse-oracle contract: each of the four sympy parses denotes the formula (not proved; checked numerically by search() on the selected parse)",
    "a number atom's printed text (15 significant digits for Float) denotes its value: the soundness theorem assumes exactb (text value = exact value), "
    "which holds for integers, p/q and short decimals; otherwise the labels agree with the formula to 15 digits (search() compares with tolerance)",
    "the theorems' fragment (supportedb): Add/Mul of >= 2 arguments, Pow, one-argument classes exp/log/Abs/sin and the undefined functions kernS leaves "
    "(inv, square, cube, sqrt_abs, log_abs, tenexp, log10_abs); number atoms Integer/Rational/Float and the singletons; symbols x and a<k>. "
    "Other dumps (zoo, nan, I, E) are compared by the correspondence where the model is defined but are outside the theorems",
    "str() of a compound constant never reads as a float nor equals '2'/'3' (the dumper refuses such nodes; none occurred)",
    "soundness is stated where all power bases (except under a literal exponent -1 when inv is a basis operator) and log arguments are positive",
    "is_float's eval() sees module globals of generator.py (e.g. a label 'rank' or 'size' would count as a float): labels of that kind are not produced by the grammar",
    "check_ops=True and user-supplied locs of string_to_node are not modelled (no caller in the package uses them)",
    "parents computed by the stack model equal the parents in the parsed tree: validated by correspondence against check_tree and by the spec-side parser in search(), not proved",
]
LEVEL_TEXT = ("Machine-checked theorems (Coq) on a faithful model of ESR's string-to-tree conversion: for EVERY basis and every expression of the fragment, "
              "DecoratedNode/to_list produce a well-formed prefix list of the reported length whose tree evaluates (over the reals, ESR's |.|-reading) to "
              "the sympy expression wherever power bases are positive; relabelling keeps constants, replacement touches exactly parameters and numbers not "
              "directly under pow, numbering by position; the selected parse has the minimum count and any selection denotes the formula under the parse contract. "
              "Two statements are REFUTED by witness and replayed on the real code: labels 'sqrt'/'log' outside bases that spell sqrt_abs/log_abs (F5), and "
              "['Mul','-1'] for Pow(..)*(-1). Tests could only sample formulas; the case analysis of to_list (17 branches x renamings x bases) is covered for all inputs.")
LEVEL_NOTE = ("Trusted: Coq kernel/vm_compute; the hand-written model (tied by running it in Coq against the real objects on every parse of 300/5000 grammar "
              "formulas over the six shipped bases: to_list, count_nodes, string_to_node, fit_from_string labels); sympy's parses as an oracle; standard Reals axioms. "
              "Not proved: sympy's four parses denote the formula; Float printing to 15 digits; parent computation vs tree structure.")
TECHNIQUE = ("Coq proof by size induction over decorated nodes / nested induction over sympy dumps (string-exact model), real-valued semantics with Rpower/powerRZ; "
             "refutations by vm_compute witnesses; correspondence by vm_compute on structural dumps of the real sympy parses; spec-side mpmath evaluation of labels vs formula")
