"""C15 -- a timed-out simplification step is skipped cleanly."""
import ast
import json
import os
import shutil
import subprocess
import threading
from concurrent.futures import ThreadPoolExecutor

import esrv

PROPS_V = "Props/C15.v"
TRANSLATORS = []
IMPL = os.path.join(esrv.VERIF, "harness", "corr", "c15_impl.py")
NWORK = 8

TRUSTED = [
    "Coq 8.16.1 kernel + vm_compute",
    "Print Assumptions: every C15 theorem is closed under the global context (no axioms)",
    "hand-written model coq/Model/Timeouts.v; tied to /repo on every run by (a) an ast scan of simplifier.py: every `with time_limit` is "
    "lexically inside a try whose first matching clause receives TimeoutException, the per-block effect tables (which of str/sym/subs/"
    "paired lists each statement assigns, in source order, and in which try region) and the handler bodies equal the model's `table`/`handler_of`; "
    "(b) injected runs of the real duplicate_checker.main: per block (pre, executed lines, post-handler state), per sympy_simplify call "
    "(model run_call = real return value), per run (model rounds = per-round files and pre-check library; model check_results = final files)",
    "injection harness/lib/tinject.py (sys.settrace line events on the frame that entered the `with`; SIGALRM never armed)",
    "MPI stand-in harness/fakempi/single (one rank)",
    "C03 oracle harness/lib/liboracle.py (mpmath, independent of ESR)",
]
ASSUMPTIONS = [
    "what sympy computes inside a block is not modelled: a block is described by its trace (executed lines, effects, stored values); "
    "theorems quantify over all traces satisfying run_ok/stage_ok (checked on every real trace) and over ALL cut positions",
    "interrupt granularity: a cut falls between two executed source lines of the block body, or after the body before alarm(0); every "
    "append / assignment of the tracked state is a statement on its own line, so each is its own atomic step (bytecode-level delivery "
    "inside a C call, e.g. in the middle of list.append, is not modelled)",
    "CPython 3.12 cannot raise from a line-trace callback at a bare `try:` line or at a repeated event of the same line; those positions "
    "are covered by the theorems but not by injection",
    "one MPI rank for the traced model correspondence (rank-local copies made by gather/bcast under several ranks are the subject of C13); "
    "the search additionally runs whole generations under 2-5 stand-in ranks with every block of a kind interrupted and judges the result (C03)",
    "indices appended to change_indices/ref_indices come from list.index and are valid positions (in_range)",
    "the comparison in check_results is sound when it completes (oracle); ast.literal_eval('nan') raises (checked each run)",
]
LEVEL_TEXT = ("Machine-checked theorems (Coq) on a trace model of all seven time-limited blocks, their handlers, make_changes, the merge "
              "loops, the rounds of do_sympy and check_results: for EVERY subset of blocks cut at EVERY position the run completes; a cut "
              "block leaves exactly (old string, old object, old substitutions ++ what it appended); stale entries reach the global lists "
              "iff the string differs at make_changes time or the local list is the global list object; calls with at most one parameter "
              "(complexity <= 2) never return a stale entry; after check_results every function is verified, skipped for unequal parameter "
              "counts, or its own unique with an empty chain, and 'nan' never stays on an equal-count pair. Tied to /repo by an ast scan and "
              "by timeout injection into the real generation run.")
LEVEL_NOTE = ("Hand-written model (no translator): the ast scan compares effect tables and handler bodies, injected real runs are replayed "
              "through the model at block, call and run level. sympy's results are trace data, not modelled. Line-granular interrupts. "
              "One rank. No axioms.")
TECHNIQUE = ("Coq invariant proofs over a trace/cut model (all interrupt sets), ast cross-check of block tables, sys.settrace timeout "
             "injection into the real duplicate_checker.main with model replay, C03 numeric oracle on every injected library")

KINDS = ["KA", "KB", "KC", "KD", "KE", "KX", "KR"]
FUNC_KINDS = (("sympy_simplify", ["KA", "KB", "KC", "KD", "KE"]), ("expand_or_factor", ["KX"]), ("check_results", ["KR"]))
ARR = {"str_fun": "EStr", "sym_fun": "ESym", "inv_subs_fun": "ESub"}
APP = {"change_indices": "ECi", "ref_indices": "ERi", "new_inv_subs": "ENs", "change_idx": "EXi", "change_vals": "EXv"}
TRACK = {"f1": "F1", "expr": "EXPR"}
HANDLERS = {
    "HRestore": ["str_fun[i] = orig_fun", "sym_fun[i] = orig_sym"],
    "HRestoreTrunc3": ["str_fun[i] = orig_fun", "sym_fun[i] = orig_sym",
                       "nfilled = min(len(change_indices), len(ref_indices), len(new_inv_subs))",
                       "del change_indices[nfilled:], ref_indices[nfilled:], new_inv_subs[nfilled:]"],
    "HTrunc2": ["del change_idx[len(change_vals):]"],
    "HUnmerge": ["to_change.append([i + imin, all_fun[i]])"],
}


# ------------------------------------------------------------------ ast side

def _own_exprs(st):
    if isinstance(st, (ast.If, ast.While)):
        return [st.test]
    if isinstance(st, ast.For):
        return [st.iter]
    if isinstance(st, ast.With):
        return [i.context_expr for i in st.items]
    if isinstance(st, ast.Try):
        return []
    return [st]


def _loads(nodes):
    out = []
    for nd in nodes:
        for x in ast.walk(nd):
            if isinstance(x, ast.Name) and isinstance(x.ctx, ast.Load) and x.id in TRACK and TRACK[x.id] not in out:
                out.append(TRACK[x.id])
    return out


def _stmt_effects(st):
    effs = ["EUse " + v for v in _loads(_own_exprs(st))]
    if isinstance(st, ast.Assign) and len(st.targets) == 1:
        t = st.targets[0]
        if isinstance(t, ast.Subscript) and isinstance(t.value, ast.Name) and t.value.id in ARR and ast.unparse(t.slice) == "i":
            e = ARR[t.value.id]
            if e == "ESym" and ast.unparse(st.value) == "f0.copy()":
                e = "ERevert"
            effs.append(e)
        elif isinstance(t, ast.Name) and t.id == "f0":
            effs.append("ESave")
        elif isinstance(t, ast.Name) and t.id in TRACK:
            effs.append("EBind " + TRACK[t.id])
    elif isinstance(st, ast.For) and isinstance(st.target, ast.Name) and st.target.id in TRACK:
        effs.append("EBind " + TRACK[st.target.id])
    elif isinstance(st, ast.Expr) and isinstance(st.value, ast.Call) and isinstance(st.value.func, ast.Attribute) \
            and st.value.func.attr == "append":
        o = st.value.func.value
        if isinstance(o, ast.Name) and o.id in APP:
            effs.append(APP[o.id])
        elif isinstance(o, ast.Subscript) and isinstance(o.value, ast.Name) and o.value.id in ARR and ast.unparse(o.slice) == "i":
            effs.append(ARR[o.value.id])
    elif isinstance(st, ast.Raise):
        effs.append("EReraise" if st.exc is None else "ERaise")
    # any other write to the tracked state would be invisible to the model: refuse it
    for x in ast.walk(st) if not isinstance(st, (ast.If, ast.For, ast.While, ast.With, ast.Try)) else []:
        if isinstance(x, (ast.Subscript, ast.Name)) and isinstance(getattr(x, "ctx", None), (ast.Store, ast.Del)):
            nm = x.value.id if isinstance(x, ast.Subscript) and isinstance(x.value, ast.Name) else (x.id if isinstance(x, ast.Name) else None)
            if nm in ARR or nm in APP:
                if not any(e in ("EStr", "ESym", "ESub", "ERevert") for e in effs):
                    effs.append("UNMODELLED-WRITE:" + ast.unparse(st)[:60])
    return effs


def block_tables(path):
    """{kind: dict(rows=[(line, eff, region)], handler=[stmts], with_line, handler_lines)}, problems"""
    import tinject
    scan, bad = tinject.scan_blocks(path)
    scan.pop("try_lines", None)
    tree = ast.parse(open(path).read())
    withs = {w.lineno: w for w in ast.walk(tree) if isinstance(w, ast.With) and w.lineno in scan}
    byfunc = {}
    for ln, info in sorted(scan.items()):
        byfunc.setdefault(info["func"], []).append(ln)
    out = {}
    for fn, names in FUNC_KINDS:
        lns = byfunc.pop(fn, [])
        if len(lns) != len(names):
            bad.append("%s has %d time-limited blocks, the model has %d" % (fn, len(lns), len(names)))
        for ln, nm in zip(lns, names):
            rows = []

            def visit(stmts, region):
                for st in stmts:
                    for e in _stmt_effects(st):
                        rows.append((st.lineno, e, region))
                    if isinstance(st, ast.Try):
                        visit(st.body, "RTry")
                        for h in st.handlers:
                            ty = ast.unparse(h.type) if h.type is not None else "BaseException"
                            rows.append((h.lineno, "ECatchT" if ty == "TimeoutException" else "ECatch", "RHandler"))
                            visit(h.body, "RHandler")
                        visit(st.orelse, region)
                        visit(st.finalbody, region)
                    else:
                        for f in ("body", "orelse"):
                            if isinstance(getattr(st, f, None), list):
                                visit(getattr(st, f), region)
            visit(withs[ln].body, "ROuter")
            hs = [s for s in scan[ln]["handler_src"] if not s.startswith("print(")]
            out[nm] = dict(rows=rows, handler=hs, with_line=ln, handler_lines=scan[ln]["handler_lines"], func=fn,
                           catches=scan[ln]["handlers"])
    for fn, lns in byfunc.items():
        bad.append("time-limited block(s) in %s at %s are not in the model" % (fn, lns))
    return out, bad


def check_results_guards(path):
    """tests of the `if ...: continue` statements directly inside the loop over all_fun in check_results (before the timed block)"""
    tree = ast.parse(open(path).read())
    fn = [n for n in ast.walk(tree) if isinstance(n, ast.FunctionDef) and n.name == "check_results"][0]
    out = []
    for loop in ast.walk(fn):
        if isinstance(loop, ast.For) and "all_fun" in ast.unparse(loop.iter) and any(
                isinstance(w, ast.With) and "time_limit" in ast.unparse(w.items[0].context_expr) for w in ast.walk(loop)):
            for st in loop.body:
                if isinstance(st, ast.If) and any(isinstance(x, ast.Continue) for x in ast.walk(st)) \
                        and "rank" not in ast.unparse(st.test):
                    out.append(ast.unparse(st.test))
    return out


def coq_eff(e):
    return "(%s)" % e if " " in e else e


# ------------------------------------------------------------------ running the implementation

class Pool:
    """NWORK private copies of the scratch repo; each run is a fresh process of the real generation."""

    def __init__(self, ctx):
        self.dirs = []
        for w in range(NWORK):
            d = esrv.mkscratch("c15w%d" % w)
            dst = os.path.join(d, "repo")
            shutil.copytree(ctx.scratch, dst, ignore=shutil.ignore_patterns("function_library", "__pycache__"))
            os.makedirs(os.path.join(dst, "esr", "function_library"), exist_ok=True)
            self.dirs.append(dst)
        self.lock = threading.Lock()
        self.free = list(self.dirs)
        self.seed = ctx.seed

    def run(self, basis, n, mode, plan, timeout=900):
        with self.lock:
            d = self.free.pop()
        try:
            rc, out, err = esrv.run_py(d, IMPL, [basis, str(n), mode, json.dumps(plan)],
                                       extra={"C15_ORACLE_SEED": str(self.seed)}, timeout=timeout)
            line = [l for l in out.splitlines() if l.startswith("C15JSON ")]
            if not line:
                return dict(status="nojson", rc=rc, err=err[-1500:], plan=plan, runname=basis, n=n)
            x = json.loads(line[-1][8:])
            x["rc"] = rc
            return x
        except subprocess.TimeoutExpired:
            return dict(status="timeout", plan=plan, runname=basis, n=n)
        finally:
            with self.lock:
                self.free.append(d)

    def map(self, jobs):
        with ThreadPoolExecutor(NWORK) as ex:
            return list(ex.map(lambda j: self.run(*j), jobs))

    def close(self):
        for d in self.dirs:
            shutil.rmtree(os.path.dirname(d), ignore_errors=True)


# ------------------------------------------------------------------ run log -> model input

class Intern:
    def __init__(self):
        self.v = {}
        self.s = {"nan": 0}
        self.fresh = 10 ** 6

    def val(self, x):
        if x not in self.v:
            self.v[x] = len(self.v) + 1
        return self.v[x]

    def sub(self, x):
        if x not in self.s:
            self.s[x] = len(self.s)
        return self.s[x]

    def new(self):
        self.fresh += 1
        return self.fresh

    def subs(self, l):
        return "None" if l is None else "(Some [%s])" % "; ".join(str(self.sub(x)) for x in l)


def nl(l):
    return "[" + "; ".join(str(x) for x in l) + "]"


def cb(b):
    return "true" if b else "false"


class Mismatch(Exception):
    pass


DATA_EFFS = ("ESym", "EStr", "ESub", "ESave", "ERevert", "ECi", "ERi", "ENs", "EXi", "EXv", "ERaise")


def block_events(tab, b, I, reduced=False):
    """Model trace of one traced block: list of steps (one per executed line that has effects), the cut position
    counted in those steps, using the values seen in the snapshots.  Returns (coq_blk_text, info).
    reduced: keep only the effects that touch data (binding / reading of f1, expr and the catch markers change no data
    in the model -- exec_ev -- and are dropped to keep whole-run terms small)."""
    kind = b["kind"]
    rows = {}
    for ln, e, _ in tab[kind]["rows"]:
        rows.setdefault(ln, []).append(e)
    end = b["mid"] if b["fired"] else b["post"]
    pre = b["pre"]
    if pre is None or end is None or "snap_error" in pre or "snap_error" in end:
        raise Mismatch("snapshot missing for block %d" % b["k"])
    steps = []
    for ln in b["lines"]:
        if ln in rows:
            st = [[e, None] for e in rows[ln] if not reduced or e in DATA_EFFS]
            if st:
                steps.append(st)
    if b.get("exc") and not any(e[0] == "ERaise" for st in steps for e in st):
        steps.append([["ERaise", None]])        # the body raised from inside a call (e.g. ast.literal_eval)
    flat = [e for st in steps for e in st]
    if kind in ("KA", "KB", "KC", "KD", "KE"):
        cur_sym, cur_str, f0 = None, None, None       # None = value at block entry
        symvars, strvars = [], []
        for e in flat:
            if e[0] == "ESym":
                e[1] = ["symvar", len(symvars)]
                symvars.append(e)
                cur_sym = e
            elif e[0] == "EStr":
                e[1] = ["strvar", len(strvars)]
                strvars.append(e)
                cur_str = e
            elif e[0] == "ESave":
                f0 = cur_sym
            elif e[0] == "ERevert":
                cur_sym = f0
        for e in symvars:
            e[1] = I.val(("sym", end["sym"])) if e is cur_sym else I.new()
        for e in strvars:
            e[1] = I.val(end["str"]) if e is cur_str else I.new()
        app = (end["subs"] or [])[len(pre["subs"] or []):]
        se = [e for e in flat if e[0] == "ESub"]
        if len(se) != len(app) or (end["subs"] or [])[:len(pre["subs"] or [])] != (pre["subs"] or []):
            raise Mismatch("block %d (%s): %d ESub statements executed but the list grew by %r" % (b["k"], kind, len(se), app))
        for e, s in zip(se, app):
            e[1] = I.sub(s)
        for nm, key, conv in (("ECi", "ci", int), ("ERi", "ri", int), ("ENs", "ns", I.sub)):
            ev = [e for e in flat if e[0] == nm]
            got = (end.get(key) or [])[len(pre.get(key) or []):]
            if len(ev) != len(got):
                raise Mismatch("block %d (%s): %d %s statements executed but the list grew by %r" % (b["k"], kind, len(ev), nm, got))
            for e, s in zip(ev, got):
                e[1] = conv(s)
    elif kind == "KX":
        ev = [e for e in flat if e[0] == "EXi"]
        got = end["xi"][len(pre["xi"]):]
        if len(ev) != len(got) or sum(1 for e in flat if e[0] == "EXv") != end["nxv"] - pre["nxv"]:
            raise Mismatch("block %d (KX): appends executed do not match the lists" % b["k"])
        for e, s in zip(ev, got):
            e[1] = s
    for e in flat:
        if e[1] is None:
            e[1] = 0
    txt = "[" + "; ".join("[" + "; ".join("(%s, %d)" % (coq_eff(e[0]), e[1]) for e in st) + "]" for st in steps) + "]"
    cut = "Some %d" % len(steps) if b["fired"] else "None"
    return "(%s, %s)" % (txt, cut), dict(nsteps=len(steps), neff=len(flat))


def gent(I, s, y, subs):
    return "(mkG %d %d %s)" % (I.val(s), I.val(("sym", y)), I.subs(subs))


def block_case(tab, b, I):
    """(coq term of type bool) : the model's post-state of this block equals the observed one."""
    kind = b["kind"]
    blk, info = block_events(tab, b, I)
    pre, post = b["pre"], b["post"]
    if post is None or "snap_error" in post:
        raise Mismatch("no post-handler snapshot for block %d" % b["k"])
    if kind in ("KA", "KB", "KC", "KD", "KE"):
        fr = "(mkFr [%s] [mkE %d %d %s %s] 0 %s %s %s %s %s)" % (
            gent(I, pre["gstr"], pre["gsym"], pre["gsubs"]), I.val(pre["str"]), I.val(("sym", pre["sym"])), I.subs(pre["subs"]),
            cb(pre["alias"]), cb(pre["f1_bound"]), cb(pre["expr_bound"]),
            nl(pre.get("ci", [])), nl(pre.get("ri", [])), nl([I.sub(x) for x in pre.get("ns", [])]))
        exp = "(%d, %d, %s, %s, (%d, %s), (%s, %s, %s), (%s, %s))" % (
            I.val(post["str"]), I.val(("sym", post["sym"])), I.subs(post["subs"]), cb(post["alias"]),
            I.val(post["gstr"]), I.subs(post["gsubs"]),
            nl(post.get("ci", [])), nl(post.get("ri", [])), nl([I.sub(x) for x in post.get("ns", [])]),
            cb(post["f1_bound"]), cb(post["expr_bound"]))
        return "blk_case %s %s %s %s" % (kind, blk, fr, exp), info
    if kind == "KX":
        prem = "" if b["fired"] else " && conforms KX (fst (%s : blk)) && aligned (fst (%s : blk))" % (blk, blk)    # premise of C15_expand_completes
        return "(x_case %s %s %d %s %d%s)" % (blk, nl(pre["xi"]), pre["nxv"], nl(post["xi"]), post["nxv"], prem), info
    unm = len(post["to_change"]) == len(pre["to_change"]) + 1
    if not unm and post["to_change"] != pre["to_change"]:
        raise Mismatch("block %d (KR): to_change changed unexpectedly" % b["k"])
    return "r_case %s %s" % (blk, cb(unm)), info


PRELUDE = """From Coq Require Import List Bool Arith String.
From ESRV Require Import Model.Timeouts.
Import ListNotations.
Open Scope nat_scope.
Fixpoint leqb {A} (e : A -> A -> bool) (a b : list A) : bool :=
  match a, b with [], [] => true | x :: r, y :: s => e x y && leqb e r s | _, _ => false end.
Definition oeqb (a b : option (list nat)) : bool :=
  match a, b with None, None => true | Some x, Some y => leqb Nat.eqb x y | _, _ => false end.
Definition geqb (a b : gent) : bool := (g_str a =? g_str b) && (g_sym a =? g_sym b) && oeqb (g_subs a) (g_subs b).
Definition blk_case (k : kind) (b : blk) (fr : frame)
   (e : nat * nat * option (list nat) * bool * (nat * option (list nat)) * (list nat * list nat * list nat) * (bool * bool)) : bool :=
  match run_block_at k 0 b fr with
  | None => false
  | Some fr' =>
    match fL fr', fG fr', e with
    | [le], [g], (s, y, su, al, (gs, gsu), (ci, ri, ns), (b1, bx)) =>
        (e_str le =? s) && (e_sym le =? y) && oeqb (e_subs le) su && Bool.eqb (e_alias le) al &&
        (g_str g =? gs) && oeqb (g_subs g) gsu &&
        leqb Nat.eqb (f_ci fr') ci && leqb Nat.eqb (f_ri fr') ri && leqb Nat.eqb (f_ns fr') ns &&
        Bool.eqb (f_f1 fr') b1 && Bool.eqb (f_expr fr') bx
    | _, _, _ => false
    end
  end.
Definition x_case (b : blk) (xi : list nat) (nxv : nat) (xi' : list nat) (nxv' : nat) : bool :=
  match run_block KX b (xloc xi (repeat 0 nxv)) with
  | Some l => leqb Nat.eqb (l_xi l) xi' && (List.length (l_xv l) =? nxv')
  | None => false
  end.
Definition r_case (b : blk) (unm : bool) : bool := Bool.eqb (chk_unmerges (mkChk false b)) unm.
Fixpoint failing_from {A} (chk : A -> bool) (i : nat) (l : list A) : list nat :=
  match l with [] => [] | x :: r => if chk x then failing_from chk (S i) r else i :: failing_from chk (S i) r end.
Definition failing (l : list bool) : list nat := failing_from (fun b => b) 0 l.
Definition call_case (ss : list stage) (G Gexp : list gent) : bool * bool :=
  (forallb (stage_ok (List.length G)) ss,
   match run_call ss G with Some G' => leqb geqb G' Gexp | None => false end).
Definition lib_case (rounds : list (list call)) (funs : list nat) (exp_funs : list nat) (exp_chains : list (list nat)) : bool * bool :=
  match run_rounds rounds (mkLib funs (map (fun _ => []) funs)) with
  | Some lb => (leqb Nat.eqb (lb_fun lb) exp_funs, leqb (leqb Nat.eqb) (lb_chain lb) exp_chains)
  | None => (false, false)
  end.
Definition chk_case (np : list nat) (y : library) (order : list nat) (cs : list chk) (e : library) : bool :=
  let y' := check_results (fun v => nth v np 0) y order cs in
  leqb Nat.eqb (y_uniq y') (y_uniq e) && leqb Nat.eqb (y_match y') (y_match e) && leqb (leqb Nat.eqb) (y_chain y') (y_chain e).
"""


def count_params_py(s):
    """simplifier.count_params on one string: highest j with 'a<j>' as a substring, plus one (0 when none)."""
    k = 0
    for j in range(0, 10):
        if "a%d" % j in s:
            k = j + 1
    return k


def run_model_inputs(tab, x, I):
    """Model inputs for one traced run: per-block cases, per-call cases, rounds case, check_results case.
    Returns dict of coq snippets + python-side bookkeeping; raises Mismatch."""
    out = dict(blocks=[], calls=[], lib=None, chk=None, notes=[])
    byk = {b["k"]: b for b in x["blocks"]}
    census = x["mode"] == "census"
    full, red = {}, {}

    def txt(k, reduced):
        d = red if reduced else full
        if k not in d:
            d[k] = block_events(tab, byk[k], I, reduced)[0]
        return d[k]
    for b in x["blocks"]:
        if b["lines"] is None:
            continue
        if b["fired"] or census or b["kind"] in ("KX", "KR"):
            term, info = block_case(tab, b, I)
            out["blocks"].append((b["k"], b["kind"], b["fired"], term))
        else:
            txt(b["k"], True)          # still validates that the appends executed match the lists (Mismatch otherwise)
    # calls
    callscripts = {}
    for c in x["calls"]:
        if c["status"] != "done":
            continue
        nf = len(c["in_fun"])
        if c["max_param"] == 0 or nf == 0:
            callscripts[c["c"]] = "[]"
            continue
        ks = [byk[k] for k in range(c["k0"], c["k1"])]
        bykind = {}
        for b in ks:
            bykind.setdefault(b["kind"], []).append(b)
        if any(t is not None for t in c["in_subs"]):
            raise Mismatch("call %d: all_inv_subs is not all None at entry (do_sympy resets it every round)" % c["c"])
        if x["n"] <= 2 and c["max_param"] > 1:
            raise Mismatch("call %d: complexity %d has a function with %d parameters (C15_small_calls_no_stale assumes <= 1)"
                           % (c["c"], x["n"], c["max_param"]))
        if c["max_param"] <= 1:
            eff_lines = {ln for ln, e, _ in tab["KE"]["rows"]}
            if any(ln in eff_lines for b in bykind.get("KE", []) for ln in b["lines"]):
                raise Mismatch("call %d: block KE has an effect although there is a single parameter name" % c["c"])
        perm = c["max_param"] > 1 and c["check_perm"]
        ncomb = c["max_param"] * (c["max_param"] - 1) // 2
        shape = dict(KA=ncomb * nf, KB=nf, KC=nf if perm else 0, KD=nf, KE=nf)
        got = {k: len(bykind.get(k, [])) for k in shape}
        if got != shape:
            raise Mismatch("call %d: blocks entered %r, the model's call_script expects %r" % (c["c"], got, shape))
        for k, lst in bykind.items():
            if [b["pre"]["i"] for b in lst] != list(range(nf)) * (len(lst) // nf):
                raise Mismatch("call %d: block order of %s is not 'for each function in order'" % (c["c"], k))
        zs = []
        for i, b in enumerate(bykind["KE"]):
            st = b["post"]["str"]
            if c["out_fun"][i] != st:
                # after block KE only the zoo -> NaN rewrite (not time-limited) can change a string; its result is taken
                # from the call's return value
                zs.append("Some (%d, %d)" % (I.val(c["out_fun"][i]), I.val(("sym", c["out_sym"][i]))))
            else:
                zs.append("None")
        A = bykind.get("KA", [])

        def script(reduced):
            def bl(lst):
                return "[" + "; ".join(txt(b["k"], reduced) for b in lst) + "]"
            As = "[" + "; ".join(bl(A[j * nf:(j + 1) * nf]) for j in range(ncomb)) + "]"
            return "(call_script %s %s %s %s %s %s [%s])" % (As, bl(bykind["KB"]), cb(perm), bl(bykind.get("KC", [])),
                                                             bl(bykind["KD"]), bl(bykind["KE"]), "; ".join(zs))
        callscripts[c["c"]] = script(True)
        if census or any(b["fired"] for b in ks):
            Gin = "[" + "; ".join(gent(I, f, y, s_) for f, y, s_ in zip(c["in_fun"], c["in_sym"], c["in_subs"])) + "]"
            Gout = "[" + "; ".join(gent(I, f, y, s_) for f, y, s_ in zip(c["out_fun"], c["out_sym"], c["out_subs"])) + "]"
            out["calls"].append((c["c"], "call_case %s %s %s" % (script(False), Gin, Gout)))
    # rounds (only when the run reached the end of do_sympy)
    if x["status"] == "ok" and x.get("do_sympy_in") is not None:
        mp = max([c["max_param"] for c in x["calls"]] + [0])
        per = mp + 1
        cs = x["calls"]
        if len(cs) % per != 0:
            raise Mismatch("number of sympy_simplify calls %d is not a multiple of max_param+1 = %d" % (len(cs), per))
        funs = list(x["do_sympy_in"])
        rounds_txt = []
        for r0 in range(0, len(cs), per):
            U = list(dict.fromkeys(funs))
            pos = {u: i for i, u in enumerate(U)}
            new = dict((u, u) for u in U)
            calls_txt = []
            for c in cs[r0:r0 + per]:
                grp = [pos[f] for f in c["in_fun"]]
                calls_txt.append("mkCall %s %s %s" % (nl(grp), nl([I.val(("sym", y)) for y in c["in_sym"]]), callscripts[c["c"]]))
                for f, o in zip(c["in_fun"], c["out_fun"]):
                    new[f] = o
            rounds_txt.append("[" + "; ".join(calls_txt) + "]")
            funs = [new[f] for f in funs]
        N = len(x["do_sympy_in"])
        chains = [[] for _ in range(N)]
        for rd in x["rounds"]:
            for i, row in zip(rd["idx"], rd["subs"]):
                chains[i] = chains[i] + row
        lib = x["pre_check"] or x["final"]
        exp_funs = [lib["uniq"][m] for m in lib["matches"]]
        out["lib"] = "lib_case [%s] %s %s [%s]" % ("; ".join(rounds_txt), nl([I.val(f) for f in x["do_sympy_in"]]),
                                                     nl([I.val(f) for f in exp_funs]),
                                                     "; ".join(nl([I.sub(s) for s in ch]) for ch in chains))
        if len(x["rounds"]) * per != len(cs):
            raise Mismatch("%d round files but %d calls / %d per round" % (len(x["rounds"]), len(cs), per))
    # check_results
    if x["status"] == "ok" and x.get("pre_check") and x.get("final"):
        pc, fin = x["pre_check"], x["final"]
        kr = [b for b in x["blocks"] if b["kind"] == "KR"]
        shuf = None
        for b in kr:
            if "shufidx" in (b["pre"] or {}):
                shuf = b["pre"]["shufidx"]
        if kr and shuf is None:
            raise Mismatch("check_results blocks without the shuffled order")
        order = shuf or []
        cs_txt = [txt(b["k"], True) for b in kr]
        if [shuf[b["pre"]["i"]] for b in kr] != [i for i in order if pc["subs"][i] and
                                                 count_params_py(pc["all"][i]) == count_params_py(pc["uniq"][pc["matches"][i]])]:
            raise Mismatch("functions visited by check_results are not the model's `checked` ones in shuffled order")
        strs = sorted(set(pc["all"] + pc["uniq"] + fin["uniq"]))
        for s in strs:
            I.val(s)
        np_tab = [0] * (max(I.v.values()) + 1)
        for s in strs:
            np_tab[I.val(s)] = count_params_py(s)

        def libtxt(l):
            return "(mkLibrary %s %s %s [%s])" % (nl([I.val(s) for s in l["all"]]), nl([I.val(s) for s in l["uniq"]]), nl(l["matches"]),
                                                   "; ".join(nl([I.sub(s) for s in row]) for row in l["subs"]))
        out["chk"] = "chk_case %s %s %s [%s] %s" % (nl(np_tab), libtxt(pc), nl(order),
                                                     "; ".join("mkChk false %s" % t for t in cs_txt), libtxt(fin))
    return out


def eval_cases(tagged_terms, what):
    """tagged_terms: list of (tag, coq bool term or pair term).  Evaluates in Coq (sharded); returns list of failing tags."""
    failing = []
    SH = 150
    jobs = []
    for s0 in range(0, len(tagged_terms), SH):
        chunk = tagged_terms[s0:s0 + SH]
        v = PRELUDE + "Definition cases : list bool := [\n%s\n].\nEval vm_compute in (\"RES\"%%string, failing cases).\n" % (
            ";\n".join(t for _, t in chunk))
        jobs.append((s0, chunk, v))

    def one(job):
        s0, chunk, v = job
        rc, out = esrv.coq_run(v, name="C15case", timeout=900)
        flat = " ".join(out.split())
        if rc != 0 or '("RES"' not in flat.replace("%string", ""):
            return [("coq-error", flat[-600:])] + [(t, None) for t, _ in chunk[:3]]
        body = flat.replace("%string", "").split('("RES",', 1)[1]
        lst = body[body.index("[") + 1:body.index("]")].strip()
        idx = [int(v) for v in lst.split(";") if v.strip()] if lst else []
        return [(chunk[i][0], chunk[i][1][:300]) for i in idx]
    with ThreadPoolExecutor(8) as ex:
        for r in ex.map(one, jobs):
            failing += r
    return failing


# ------------------------------------------------------------------ correspondence

def census(pool, basis, n):
    return pool.run(basis, n, "census", [])


def positions(cen):
    """all (k, j) interrupt positions of a census run"""
    out = []
    for b in cen["blocks"]:
        for j in list(range(len(b["lines"]))) + [-1]:
            out.append((b["k"], j))
    return out


def interesting_positions(tab, cen):
    """positions right after a line that has a state effect (where the three fields can diverge)"""
    out = []
    for b in cen["blocks"]:
        eff_lines = {ln for ln, e, _ in tab[b["kind"]]["rows"] if not e.startswith("EUse") and not e.startswith("EBind")}
        for j, ln in enumerate(b["lines"]):
            if ln in eff_lines:
                out.append((b["k"], j + 1 if j + 1 < len(b["lines"]) else -1))
    return out


def corpus_plans(tab, censuses):
    """The four crash classes found by this check (all fixed in /repo): replays resolved against the current source."""
    plans = []
    c4 = censuses.get(("core_maths", 4))
    if c4:
        def first(kind, eff, after):
            for b in c4["blocks"]:
                if b["kind"] != kind:
                    continue
                lines_eff = {ln for ln, e, _ in tab[kind]["rows"] if e == eff}
                for j, ln in enumerate(b["lines"]):
                    if ln in lines_eff:
                        return [[b["k"], j + 1 if after else j]]
            return None
        p = None
        for b in c4["blocks"]:         # a line inside KB's inner try, before the append
            if b["kind"] == "KB":
                tl = [ln for ln, e, rg in tab["KB"]["rows"] if rg == "RTry" and e == "ESub"]
                js = [j for j, ln in enumerate(b["lines"]) if ln in tl]
                if js:
                    p = [[b["k"], js[0]]]
                    break
        plans.append(("C15:completes:B-inner-except-unbound-f1", "core_maths", 4, p))
        plans.append(("C15:completes:merge-lists-misaligned", "core_maths", 4, first("KD", "ECi", True)))
        plans.append(("C15:completes:merge-lists-misaligned", "core_maths", 4, first("KD", "ERi", True)))
        plans.append(("C15:completes:expand-lists-misaligned", "core_maths", 4, first("KX", "EXi", True)))
    return plans


def correspondence(ctx):
    rep = ctx.report
    import sys
    sys.path.insert(0, os.path.join(esrv.VERIF, "harness", "lib"))
    src = os.path.join(ctx.scratch, "esr", "generation", "simplifier.py")
    ctx.c15 = dict(runs=[], tab=None)
    # ---- (a) ast scan
    try:
        tab, bad = block_tables(src)
    except Exception as e:
        rep.fail("broken-correspondence", "ast scan of simplifier.py failed: %s: %s" % (type(e).__name__, e), "C15:ast:scan",
                 theorem="Model/Timeouts.v table / handler_of")
        return
    ctx.c15["tab"] = tab
    for b in bad:
        rep.fail("broken-correspondence", "time-limited block not covered by a handler / by the model: " + b, "C15:ast:handler",
                 observed=b, theorem="C15_timeout_reaches_block_handler, C15_completes")
    unm = [(k, r) for k in tab for r in tab[k]["rows"] if r[1].startswith("UNMODELLED")]
    if unm:
        rep.fail("broken-correspondence", "a block writes tracked state in a way the model has no effect for: %r" % (unm[:3],),
                 "C15:ast:unmodelled-write", observed=unm[:5], theorem="Model/Timeouts.v eff")
    hk = {}
    for k in KINDS:
        if k not in tab:
            continue
        m = [h for h, body in HANDLERS.items() if body == tab[k]["handler"]]
        hk[k] = m[0] if m else "UNKNOWN"
        if not m:
            rep.fail("broken-correspondence", "handler of block %s is not one the model knows: %r" % (k, tab[k]["handler"]),
                     "C15:ast:handler-body", observed=tab[k]["handler"], expected=HANDLERS, theorem="Model/Timeouts.v handler_of")
    reg_eqb = "match a, b with ROuter, ROuter | RTry, RTry | RHandler, RHandler => true | _, _ => false end"
    v = PRELUDE + "Definition reqb (a b : region) : bool := %s.\n" % reg_eqb
    v += "Definition teqb (a b : list (eff * region)) := leqb (fun x y => eff_eqb (fst x) (fst y) && reqb (snd x) (snd y)) a b.\n"
    v += "Definition heqb (a b : hnd) : bool := match a, b with HRestore, HRestore | HRestoreTrunc3, HRestoreTrunc3 | HTrunc2, HTrunc2 | HUnmerge, HUnmerge => true | _, _ => false end.\n"
    terms = []
    for k in KINDS:
        if k in tab and hk.get(k) != "UNKNOWN" and not any(r[1].startswith("UNMODELLED") for r in tab[k]["rows"]):
            lit = "[" + "; ".join("(%s, %s)" % (coq_eff(e), rg) for _, e, rg in tab[k]["rows"]) + "]"
            terms.append("teqb (table %s) %s && heqb (handler_of %s) %s && transparent %s" % (k, lit, k, hk[k], lit))
        else:
            terms.append("false")
    v += "Eval vm_compute in (\"TAB\"%%string, failing [%s]).\n" % "; ".join(terms)
    rc, out = esrv.coq_run(v, name="C15tab")
    flat = " ".join(out.split()).replace("%string", "")
    rep.case(key="ast-tables", sample={k: [[e, rg] for _, e, rg in tab[k]["rows"]][:12] for k in tab})
    if rc != 0 or '("TAB", [])' not in flat:
        rep.fail("broken-correspondence", "the effect tables / handlers extracted from simplifier.py differ from the model's (kinds by index in %r): %s"
                 % (KINDS, flat[-300:]), "C15:ast:tables", observed={k: tab[k]["rows"] for k in tab}, theorem="Model/Timeouts.v table, handler_of, transparent")
    # the model's `checked nparam y i` is the negation of the first `continue` guard of check_results' loop over the functions
    try:
        guards = check_results_guards(src)
    except Exception as e:
        guards = ["<scan failed: %s>" % e]
    if guards != ["all_nparam[i] != uniq_nparam[matches[i]]"]:
        rep.fail("broken-correspondence", "check_results skips functions under %r; the model's `checked` is `all_nparam[i] == uniq_nparam[matches[i]]` only"
                 % (guards,), "C15:ast:checked-guard", observed=guards, expected=["all_nparam[i] != uniq_nparam[matches[i]]"],
                 theorem="Model/Timeouts.v checked; C15_check_results_sound, C15_no_nan_on_equal_counts")
    try:
        ast.literal_eval("nan")
        rep.fail("broken-correspondence", "ast.literal_eval('nan') does not raise", "C15:nan-literal", theorem="C15_no_nan_on_equal_counts premise")
    except ValueError:
        pass
    # ---- (b) injected runs
    pool = Pool(ctx)
    ctx.c15["pool"] = pool
    rng = esrv.rng(ctx.seed, "c15")
    libs = [("core_maths", 3), ("core_maths", 2), ("core_maths", 4)] if ctx.quick else \
           [("core_maths", 3), ("core_maths", 2), ("core_maths", 4), ("keep_duplicates", 3), ("core_maths", 1), ("keep_duplicates", 2)]
    cens = {}
    for (bs, n), c in zip(libs, pool.map([(bs, n, "census", []) for bs, n in libs])):
        cens[(bs, n)] = c
        if c.get("status") != "ok":
            rep.fail("failing-input", "generation without any injection fails for %s n=%d: %s" % (bs, n, c.get("exc") or c.get("err")),
                     "C15:gen:plain-run", input={"basis": bs, "n": n, "plan": []}, observed=c.get("where"))
    ctx.c15["cens"] = cens
    jobs = []
    for key, bs, n, plan in corpus_plans(tab, cens):
        if plan:
            jobs.append((bs, n, "inject", plan, key))
    jobs.append(("core_maths", 5, "inject", {"call": {"max_param": 3, "check_perm": True, "expand_fun": False}, "nth": 0,
                                              "kinds": ["KA", "KB", "KC", "KD"], "j": 0}, "C15:completes:E-reads-unbound-expr"))

    # directed multi-interrupt family: EVERY block of one kind is interrupted right after it executed a statement with a given
    # state effect (append to the substitution list, store of the sympy object, store of the string), 8 times or every time --
    # the "same step is slow in every round" scenario, in which a stale entry can survive all rounds and only check_results
    # stands between it and the library (C15_cut_is_not_skip_refuted / C15_final_library_sound)
    def after_effect_family(bs, n, budget):
        for kind in ("KA", "KB", "KC", "KD", "KE"):
            for eff in ("ESub", "ESym", "EStr"):
                lines = sorted({ln for ln, e, _ in tab[kind]["rows"] if e == eff})
                if lines:
                    jobs.append((bs, n, "inject", {"after_lines": lines, "kinds": [kind], "max": budget}, None))
    after_effect_family("core_maths", 3, 8)
    after_effect_family("core_maths", 3, 1000)       # in every round, until the rounds end
    # every result check (KR) / every expansion (KX) of a run interrupted: all checked functions are un-merged at once, among them
    # textually equal ones followed by different ones (the bookkeeping that renumbers the appended uniques)
    for bs, n in ([("core_maths", 3), ("core_maths", 4)] if ctx.quick else [("core_maths", 3), ("core_maths", 4), ("keep_duplicates", 3)]):
        for kinds, j in ((["KR"], 0), (["KR"], 1), (["KX"], 0), (["KR", "KX"], 0)):
            jobs.append((bs, n, "inject", {"all_kinds": kinds, "j": j, "max": 1000}, None))
    if not ctx.quick:
        after_effect_family("core_maths", 4, 8)
        after_effect_family("core_maths", 4, 1000)
        after_effect_family("keep_duplicates", 3, 12)

    def sample(bs, n, k_all, k_int):
        c = cens.get((bs, n))
        if not c or c.get("status") != "ok":
            return
        allp = positions(c)
        intp = interesting_positions(tab, c)
        chosen = set(rng.sample(allp, min(k_all, len(allp)))) if k_all is not None else set(allp)
        chosen |= set(rng.sample(intp, min(k_int, len(intp)))) if k_int is not None else set(intp)
        for k, j in sorted(chosen):
            jobs.append((bs, n, "inject", [[k, j]], None))
    if ctx.quick:
        sample("core_maths", 3, 40, 30)
        sample("core_maths", 2, 20, 10)
        sample("core_maths", 4, 10, 15)
    else:
        sample("core_maths", 3, None, None)
        sample("core_maths", 2, None, None)
        sample("core_maths", 1, None, None)
        sample("core_maths", 4, 500, None)
        sample("keep_duplicates", 3, 400, 150)
        sample("keep_duplicates", 2, 100, None)
        for bs, n in (("core_maths", 3), ("core_maths", 4), ("keep_duplicates", 3)):     # multi-interrupt sets
            c = cens.get((bs, n))
            if c and c.get("status") == "ok":
                intp = interesting_positions(tab, c)
                allp = positions(c)
                for _ in range(70):
                    m = rng.choice([2, 2, 3, 5])
                    ks = {}
                    for k, j in rng.sample(intp, min(m, len(intp))) + rng.sample(allp, 1):
                        ks[k] = j
                    jobs.append((bs, n, "inject", sorted([k, j] for k, j in ks.items()), None))
    import time as _t
    _t0 = _t.time()
    res = pool.map([j[:4] for j in jobs])
    rep.extra["t_runs_s"] = round(_t.time() - _t0, 1)
    runs = []
    for jb, x in zip(jobs, res):
        x["corpus_key"] = jb[4]
        runs.append(x)
    ctx.c15["runs"] = runs
    # model replay
    blk_terms, call_terms, lib_terms, chk_terms = [], [], [], []
    nfired = 0
    for ri, x in enumerate(runs + [c for c in cens.values() if c.get("status") == "ok"]):
        if x.get("status") not in ("ok", "crash"):
            rep.fail("broken-correspondence", "driver produced no result for %s n=%s plan=%r: %s" % (x.get("runname"), x.get("n"), x.get("plan"), x.get("err", x.get("status"))),
                     "C15:driver", theorem="injection")
            continue
        tagbase = (x["runname"], x["n"], json.dumps(x["plan"])[:80])
        I = Intern()
        try:
            mi = run_model_inputs(tab, x, I)
        except Mismatch as e:
            rep.fail("broken-correspondence", "real run does not fit the model's trace language: %s (%s n=%d plan=%s)" % (e, x["runname"], x["n"], json.dumps(x["plan"])[:120]),
                     "C15:trace-shape", observed=str(e), theorem="Model/Timeouts.v (block traces / call_script)")
            continue
        fired = [b for b in x["blocks"] if b.get("fired")]
        nfired += len(fired)
        for k, kind, fr, term in mi["blocks"]:
            if fr or x["mode"] == "census":
                blk_terms.append((tagbase + ("block", k, kind), term))
        # the premises of the theorems (stage_ok) speak about complete traces: checked on the uninterrupted runs only
        prem = "fst p && snd p" if x["mode"] == "census" else "snd p"
        for cidx, term in mi["calls"]:
            call_terms.append((tagbase + ("call", cidx), "(let p := %s in %s)" % (term, prem)))
        # whole-run replays are the expensive ones: always in quick; in thorough for every run whose interrupted block
        # had already changed data (where stale state can exist), for the multi-interrupt sets, and for a sample of the rest
        data_cut = any(any(e in DATA_EFFS for ln in b["lines"] for l2, e, _ in tab[b["kind"]]["rows"] if l2 == ln) for b in fired)
        whole = ctx.quick or x["mode"] == "census" or x.get("corpus_key") or data_cut or len(fired) > 1 or rng.random() < 0.1
        if mi["lib"] and whole:
            lib_terms.append((tagbase + ("rounds",), "(let p := %s in fst p && snd p)" % mi["lib"]))
        if mi["chk"] and (whole or any(b["kind"] == "KR" for b in fired)):
            chk_terms.append((tagbase + ("check_results",), mi["chk"]))
        rep.case(key=tagbase, nontrivial=bool(fired),
                 sample={"basis": x["runname"], "n": x["n"], "plan": x["plan"] if len(json.dumps(x["plan"])) < 200 else "…", "status": x["status"],
                         "interrupted": [{"k": b["k"], "kind": b["kind"], "at_line": b["at_line"], "pre": b["pre"], "post": b["post"]} for b in fired[:1]]})
    rep.traces += len(blk_terms) + len(call_terms) + len(lib_terms) + len(chk_terms)
    # block cases are plain bools; call / lib cases are pairs (premises hold, outputs equal)
    rep.extra["t_build_s"] = round(_t.time() - _t0, 1)
    bad = eval_cases(blk_terms, "blocks")
    bad += eval_cases(call_terms, "calls")
    bad += eval_cases(lib_terms, "rounds")
    bad += eval_cases(chk_terms, "check_results")
    rep.extra["t_coq_s"] = round(_t.time() - _t0, 1)
    for tag, term in bad[:6]:
        rep.fail("broken-correspondence", "model and implementation disagree on %r" % (tag,), "C15:replay:%s" % (tag[3] if isinstance(tag, tuple) and len(tag) > 3 else "coq"),
                 observed=term, theorem="run_block_at / run_call / run_rounds / check_results (Model/Timeouts.v)")
    rep.extra["model_replays"] = dict(blocks=len(blk_terms), calls=len(call_terms), rounds=len(lib_terms), check_results=len(chk_terms),
                                      injected_blocks=nfired, disagreeing=len(bad))
    rep.rule = ("injected runs of the real duplicate_checker.main: quick = corpus replays + sampled single interrupts (uniform over all counted line "
                "positions, plus positions right after a state-changing statement) on core_maths n=2,3,4; thorough = every position for n<=3, "
                "sampled for core_maths 4 / keep_duplicates 2,3, plus multi-interrupt sets; each run replayed through the model at block, call, "
                "round and check_results level; non-trivial = a block was actually interrupted")


# ------------------------------------------------------------------ search (spec side)


def multi_rank(ctx):
    """Interrupted simplification steps on ranks OTHER than 0: the same generation under several stand-in ranks, every block of one
    kind interrupted on every rank.  Each rank works on its own slice of the function list, so whatever an interrupt handler puts
    back must be the rank's own function.  Stated on the result: every rank completes, and the library satisfies C03 (every function
    matched to a unique it equals under its recorded map) -- liboracle.check_c03, independent code."""
    import liboracle
    rep = ctx.report
    big = 10 ** 6
    plans = [("core_maths", 4, 3, {"all_kinds": ["KA"], "j": 0, "max": big}), ("core_maths", 4, 2, {"all_kinds": ["KD"], "j": 0, "max": big})]
    if not ctx.quick:
        plans += [("core_maths", 4, 5, {"all_kinds": ["KA", "KD"], "j": 0, "max": big}), ("ext_maths", 3, 3, {"all_kinds": ["KA"], "j": 0, "max": big}),
                  ("core_maths", 4, 3, {"all_kinds": ["KB", "KC"], "j": 0, "max": big}), ("core_maths", 4, 4, {"all_kinds": ["KA"], "j": 2, "max": big})]
    # ... and ONE interrupt on rank 1 while everything else runs undisturbed (the functions around it reach their final form, so a
    # handler that puts back another rank's function leaves a wrong match behind): the k-th block rank 1 enters, k = 0 .. K
    K = 24 if ctx.quick else 60
    plans += [("core_maths", 4, 2, {"list": [[k, j]], "rank": 1}) for k in range(K) for j in ((0,) if ctx.quick else (0, 2))]

    def one(job):
        runname, n, P, plan = job
        return job, _multi_rank_one(ctx, runname, n, P, plan)
    with ThreadPoolExecutor(max_workers=6) as ex:
        results = list(ex.map(one, plans))
    for (runname, n, P, plan), (kind, payload) in results:
        inp = {"basis": runname, "n": n, "ranks": P, "plan": plan}
        what = "/".join(plan["all_kinds"]) if "all_kinds" in plan else "block %d of rank %d" % (plan["list"][0][0], plan["rank"])
        if kind == "case":
            rep.case(key=("multi-rank", runname, n, P, json.dumps(plan, sort_keys=True)), nontrivial=any(f > 0 for f in payload["fired"][1:]),
                     sample={"basis": runname, "n": n, "ranks": P, "plan": plan, "interrupts_per_rank": payload["fired"]})
            rep.evaluations += payload["checked"]
            if payload["viol"]:
                v = payload["viol"]
                rep.fail("failing-input", "library generated under %d ranks with %s interrupted is unsound: %s" % (P, what, json.dumps(v[0])[:300]),
                         "C15:multi-rank:library:%s" % v[0]["kind"], input=inp, observed=v[:3],
                         expected="every function equals its unique under the recorded map (C03)")
        elif kind == "crash":
            rep.fail("failing-input", "generation under %d ranks does not complete when %s is interrupted: %s" % (P, what, payload["what"]),
                     "C15:multi-rank:completes", input=inp, observed=payload, expected="every rank returns")
        else:
            rep.fail("broken-correspondence", "multi-rank interrupt run failed: %s" % payload, "C15:multi-rank:driver", theorem="C15 multi-rank search")


def _multi_rank_one(ctx, runname, n, P, plan):
    import liboracle
    if True:
        work = esrv.mkscratch("c15m")
        dst = os.path.join(work, "repo")
        shutil.copytree(ctx.scratch, dst, ignore=shutil.ignore_patterns("function_library", "__pycache__"))
        try:
            res = esrv.run_mpi(dst, IMPL, [runname, str(n), "inject", json.dumps(plan)], P, extra={"FAKE_MPI_TIMEOUT": "240"}, timeout=900)
            outs = []
            for rc, out, err in res:
                line = [l for l in out.splitlines() if l.startswith("C15JSON ")]
                outs.append((rc, json.loads(line[-1][8:]) if line else None, err))
            fired = [sum(1 for b in (o or {}).get("blocks", []) if b.get("fired")) for _, o, _ in outs]
            bad = [r for r, (rc, o, _) in enumerate(outs) if rc != 0 or o is None or o.get("status") != "ok"]
            if bad:
                rc, o, err = outs[bad[0]]
                return "crash", {"what": "rank %d: %s" % (bad[0], (o or {}).get("exc") or err.strip().splitlines()[-1:]),
                                 "exit": [x[0] for x in outs], "stderr": err[-800:]}
            lib = liboracle.load_library(os.path.join(dst, "esr", "function_library", runname, "compl_%d" % n), n)
            viol, stats = liboracle.check_c03(lib, ctx.seed)
            return "case", {"fired": fired, "checked": stats.get("checked", 0), "viol": viol[:3]}
        except Exception as e:
            return "driver", "%s: %s" % (type(e).__name__, e)
        finally:
            shutil.rmtree(work, ignore_errors=True)

def search(ctx):
    rep = ctx.report
    multi_rank(ctx)
    st = getattr(ctx, "c15", None)
    if not st:
        return
    runs = st.get("runs", [])
    seen = set()
    tab = st.get("tab")
    for x in runs:
        key = x.get("corpus_key")
        plan = x.get("plan")
        inp = {"basis": x.get("runname"), "n": x.get("n"), "plan": plan}
        if x.get("status") == "crash":
            where = x.get("where") or []
            cls = key
            if cls is None:
                top = where[-1] if where else ["?", 0, "?"]
                cls = "C15:completes:%s:%s" % (x.get("exc", "").split(":")[0], top[2])
            if cls in seen:
                continue
            seen.add(cls)
            rep.fail("failing-input", "generation does not complete when time-limited steps are interrupted: %s at %s" % (x.get("exc"), where[-1:] or "?"),
                     cls, input=inp, observed={"exception": x.get("exc"), "traceback": where,
                                              "interrupted": [[b["k"], b["kind"], b["at_line"]] for b in x.get("blocks", []) if b.get("fired")][:8]},
                     expected="duplicate_checker.main returns (exit 0) for every interrupt set")
        elif x.get("status") == "ok":
            o = x.get("oracle") or {}
            if o.get("error"):
                cls = "C15:library:unreadable"
                if cls not in seen:
                    seen.add(cls)
                    rep.fail("failing-input", "the library written under injection cannot be read back: %s" % o["error"], cls, input=inp, observed=o["error"])
            elif o.get("nviol"):
                v0 = o["violations"][0]
                cls = key or "C15:c03:%s" % v0.get("kind")
                if cls not in seen:
                    seen.add(cls)
                    rep.fail("failing-input", "library produced under injection violates C03: %s" % json.dumps(v0)[:300], cls, input=inp,
                             observed=o["violations"][:3], expected="f_i(sigma_i theta) = u_{m_i}(theta); nan only with fewer parameters")
        elif x.get("status") == "timeout":
            rep.fail("failing-input", "generation hangs under injection", "C15:completes:hang", input=inp)
    pool = st.get("pool")
    if pool:
        pool.close()
    ok = sum(1 for x in runs if x.get("status") == "ok")
    rep.extra["search"] = dict(runs=len(runs), completed=ok, crashed=sum(1 for x in runs if x.get("status") == "crash"),
                               oracle_checked=sum(1 for x in runs if (x.get("oracle") or {}).get("stats")),
                               corpus=[[x.get("corpus_key"), x.get("status")] for x in runs if x.get("corpus_key")])
