"""C06 -- final ranking: minimum over variants, ascending order, normalised probabilities."""
import json
import math
import os
import re
import shutil

import esrv

PROPS_V = "Props/C06.v"
# functions the hand-written model of this property was written against (normalised source stored under harness/corr/guards/;
# a difference is reported as broken-correspondence: the theorems then no longer speak about the current source)
SOURCE_GUARDS = [
    ("esr/fitting/combine_DL.py", "main"),
]

TRANSLATORS = ["partition"]
TRUSTED = [
    "Coq 8.16.1 kernel + vm_compute (no native_compute)",
    "Print Assumptions: order/min/sort/appearance theorems closed under the global context; the Prel theorems use Coq's "
    "classical real numbers (ClassicalDedekindReals.sig_forall_dec, sig_not_dec, FunctionalExtensionality.functional_extensionality_dep)",
    "hand-written model coq/Model/Combine.v of combine_DL.main, tied on every run by running the real main() on generated tables "
    "(1 rank and 2-4 stand-in ranks) and comparing every output column with the model evaluated by vm_compute",
    "generated model Gen/GenPartition.v of get_functions (translator partition.py) for the per-rank slices",
    "MPI stand-in harness/fakempi; coreutils cat/sort -V/rm/touch as called through os.system",
]
ASSUMPTIONS = [
    "finite table entries are exact (dyadic values scaled to integers): float rounding of nll+codelen+aifeyn, of DL_i-DL_0, "
    "of exp and of the pairwise np.sum is not modelled; Prel is over the reals",
    "text round trip np.savetxt('%.16e') / np.genfromtxt / csv is exact (exercised by the correspondence, not proved)",
    "codelen_matches_comp<n>.dat, aifeyn_<n>.txt and all_equations_<n>.txt have the same number of lines and the table is rectangular",
    "the table has at least two lines and there are at least two unique functions (otherwise numpy reads a 1-D array and main raises: "
    "modelled as None, theorem C06_crash_iff)",
    "Prel statements are under 'the smallest description length is finite' (= 'some description length is finite and none is -inf'); "
    "for a -inf minimum every Prel is NaN (C06_prel_neg_inf_refuted)",
]
IMPL = os.path.join(esrv.VERIF, "harness", "corr", "c06_impl.py")
MARK = "@@C06JSON@@"

# ------------------------------------------------------------------ table generation

INF, NINF, NAN = "inf", "-inf", "nan"


def gen_table(R, allow_crash=False, more_ninf=False):
    """A table in model units: finite entries are integers z standing for the float z/s."""
    while True:
        s = R.choice([1, 1, 2, 4, 8])
        U = R.randint(2, 12)
        npar = R.choice([0, 1, 2, 2, 3])
        tie_mode = R.random() < 0.25
        rep_mode = R.random() < 0.25
        ninf_ok = R.random() < (0.5 if more_ninf else 0.12)
        span = 3 if tie_mode else 40
        pool = [R.randint(-20, 40) for _ in range(3)]
        rows = []
        for u in range(U):
            nv = R.choice([0, 1, 1, 2, 2, 3, 3, 4, 5])
            allnan = R.random() < 0.08
            allinf = R.random() < 0.05
            for _ in range(nv):
                x = R.random()
                if allnan or x < 0.08:
                    nll = NAN
                elif allinf or x < 0.14:
                    nll = INF
                elif ninf_ok and x < 0.20:
                    nll = NINF
                elif rep_mode and R.random() < 0.7:
                    nll = R.choice(pool)
                else:
                    nll = R.randint(-span, span)
                x = R.random()
                codelen = NAN if x < 0.04 else INF if x < 0.14 else R.randint(0, span)
                x = R.random()
                aif = NAN if x < 0.03 else INF if x < 0.05 else R.randint(0, span)
                rows.append([nll, codelen, u, aif, None])
        if R.random() < 0.06:       # rows pointing at no unique of this complexity
            for _ in range(R.randint(1, 2)):
                rows.append([R.randint(-5, 5), R.randint(0, 5), U + R.randint(0, 2), R.randint(0, 5), None])
        if R.random() < 0.5:
            R.shuffle(rows)
        for j, r in enumerate(rows):
            r[4] = [(j if k == 0 else (NAN if R.random() < 0.05 else R.randint(-8, 8))) for k in range(npar)]
        if len(rows) >= 2 or allow_crash:
            return {"U": U, "npar": npar, "s": s, "rows": rows}


EDGE_TABLES = [   # only run under one rank (rank 0 alone raises for U < 2 and the others would wait at the last barrier)
    {"U": 1, "npar": 1, "s": 1, "rows": [[1, 2, 0, 3, [0]], [0, 2, 0, 3, [1]]]},
    {"U": 0, "npar": 1, "s": 1, "rows": [[1, 2, 0, 3, [0]], [0, 2, 0, 3, [1]]]},
    {"U": 2, "npar": 1, "s": 1, "rows": [[1, 2, 0, 3, [0]]]},
    {"U": 3, "npar": 2, "s": 1, "rows": []},
    {"U": 2, "npar": 0, "s": 2, "rows": [[NAN, 2, 0, 3, []], [NAN, 2, 1, 3, []]]},       # every unique NaN: empty final table
    {"U": 2, "npar": 2, "s": 1, "rows": [[INF, 2, 0, 3, [0, 1]], [INF, 2, 1, 3, [1, 1]]]},  # every DL +inf: Prel NaN
    {"U": 3, "npar": 1, "s": 1, "rows": [[NAN, 2, 0, 3, [0]], [INF, 2, 0, 3, [1]], [0, 2, 1, 3, [2]]]},  # nanargmin quirk
]


def to_float(v, s):
    if isinstance(v, str):
        return v
    return v / float(s)


def impl_table(tab):
    s = tab["s"]
    return {"U": tab["U"], "npar": tab["npar"],
            "rows": [[to_float(r[0], s), to_float(r[1], s), float(r[2]), to_float(r[3], s), [to_float(p, s) for p in r[4]]]
                     for r in tab["rows"]]}


def run_impl(ctx, tabs, nranks):
    """Run the real combine_DL.main on every table under nranks ranks; returns the list of outputs."""
    if not tabs:
        return []
    wd = esrv.mkscratch("c06")
    tj = os.path.join(wd, "tables.json")
    with open(tj, "w") as f:
        json.dump([impl_table(t) for t in tabs], f)
    work = os.path.join(wd, "work")
    os.makedirs(work)
    try:
        if nranks == 1:
            rc, out, err = esrv.run_py(ctx.scratch, IMPL, ["run", tj, work], timeout=3000)
            bad = rc != 0
        else:
            res = esrv.run_mpi(ctx.scratch, IMPL, ["run", tj, work], nranks, timeout=3000)
            bad = any(r[0] != 0 for r in res)
            out, err = res[0][1], "\n".join(r[2][-600:] for r in res)
        if bad or MARK not in out:
            raise RuntimeError("c06_impl failed under %d ranks: %s" % (nranks, err[-1500:]))
        return json.loads(out.split(MARK, 1)[1])
    finally:
        shutil.rmtree(wd, ignore_errors=True)


def run_impl_parallel(ctx, jobs, workers=6, chunk=120):
    """jobs: list of (tabs, nranks).  Runs them in chunks, several at a time; returns one output list per job."""
    from concurrent.futures import ThreadPoolExecutor
    pieces = []
    for ji, (tabs, nranks) in enumerate(jobs):
        for a in range(0, len(tabs), chunk):
            pieces.append((ji, a, tabs[a:a + chunk], nranks))
    with ThreadPoolExecutor(max_workers=workers) as ex:
        res = list(ex.map(lambda pc: run_impl(ctx, pc[2], pc[3]), pieces))
    outs = [[] for _ in jobs]
    for (ji, a, _, _), r in zip(pieces, res):      # pieces are in order within a job
        outs[ji].extend(r)
    return outs


# ------------------------------------------------------------------ literals for Coq

def xz_lit(v):
    if v == INF:
        return "PInf"
    if v == NINF:
        return "NInf"
    if v == NAN:
        return "NaN"
    return "Fin %d" % v if v >= 0 else "Fin (%d)" % v


def parse_num(text, s):
    """Text from an output file -> model unit (int) or 'inf'/'-inf'/'nan'. Raises if not on the 1/s grid."""
    v = float(text)
    if math.isnan(v):
        return NAN
    if math.isinf(v):
        return INF if v > 0 else NINF
    z = v * s
    if z != int(z):
        raise ValueError("value %r is not a multiple of 1/%d" % (text, s))
    return int(z)


def lst(items):
    return "[" + "; ".join(items) + "]"


def vrow_lit(r):
    return "mkV (%s) (%s) (Fin %d) (%s) %s" % (xz_lit(r[0]), xz_lit(r[1]), r[2], xz_lit(r[3]), lst("(%s)" % xz_lit(p) for p in r[4]))


def fcn_lit(name):
    if name == "None":
        return "None"
    if not re.fullmatch(r"v\d+", name):
        raise ValueError("unexpected function string %r" % name)
    return "(Some %s%%nat)" % name[1:]


def expected_lit(tab, res):
    """The implementation's files as a Coq literal of type option (list urow * list frow)."""
    if res["exc"] is not None:
        return "None"
    s = tab["s"]
    comb = []
    for row, fn in zip(res["comb"], res["fcn"]):
        comb.append("mkU (%s) %s %s (%s) (%s) (%s)" % (
            xz_lit(parse_num(row[0], s)), lst("(%s)" % xz_lit(parse_num(p, s)) for p in row[1]), fcn_lit(fn),
            xz_lit(parse_num(row[2], s)), xz_lit(parse_num(row[3], s)), xz_lit(parse_num(row[4], s))))
    if len(res["comb"]) != len(res["fcn"]):
        raise ValueError("combine_DL_comp and combine_DL_fcn_comp have different numbers of lines")
    fin = []
    for row in res["final"]:
        fin.append("mkF %d%%nat %s (%s) (%s) (%s) (%s) %s 0%%nat" % (
            int(row[0]), fcn_lit(row[1]), xz_lit(parse_num(row[2], s)), xz_lit(parse_num(row[4], s)),
            xz_lit(parse_num(row[5], s)), xz_lit(parse_num(row[6], s)),
            lst("(%s)" % xz_lit(parse_num(p, s)) for p in row[7])))
    return "Some (%s, %s)" % (lst(comb), lst(fin))


TOK = re.compile(r"\[|\]|;|Fin|PInf|NInf|NaN|\(|\)|-?\d+")


def parse_exps(text):
    """Parse Coq's printing of a list (list xz)."""
    toks = TOK.findall(text)
    pos = 0

    def lst_():
        nonlocal pos
        assert toks[pos] == "["
        pos += 1
        out = []
        while toks[pos] != "]":
            if toks[pos] == ";":
                pos += 1
                continue
            out.append(item())
        pos += 1
        return out

    def item():
        nonlocal pos
        t = toks[pos]
        if t == "[":
            return lst_()
        pos += 1
        if t == "PInf":
            return INF
        if t == "NInf":
            return NINF
        if t == "NaN":
            return NAN
        if t == "Fin":
            if toks[pos] == "(":
                v = int(toks[pos + 1])
                pos += 3
            else:
                v = int(toks[pos])
                pos += 1
            return v
        raise ValueError("unexpected token %r" % t)
    return lst_()


def coq_compare(cases):
    """cases: list of (P, tab, res).  Returns (failing indices, exps per case) from the model."""
    lits = []
    for P, tab, res in cases:
        lits.append("(%d, %d%%nat, %s, %s)" % (P, tab["U"], lst(vrow_lit(r) for r in tab["rows"]), expected_lit(tab, res)))
    v = """From Coq Require Import ZArith List String.
From ESRV Require Import Common.Py Common.XZ Common.Corr Model.Combine.
Import ListNotations.
Open Scope Z_scope.
Definition cases : list (Z * nat * list vrow * option (list urow * list frow)) := [
%s].
Eval vm_compute in ("AGREE"%%string, failing (fun c => match c with (P,U,t,e) => main_agrees P U t e end) cases).
Eval vm_compute in ("EXPS"%%string, map (fun c => match c with (P,U,t,e) => main_exps P U t end) cases).
""" % ";\n".join(lits)
    rc, out = esrv.coq_run(v, timeout=1500)
    flat = " ".join(out.split()).replace("%string", "").replace("%nat", "")
    m = re.search(r'\("AGREE", (\[[^\]]*\])\)', flat)
    m2 = re.search(r'\("EXPS", (\[.*\])\) :', flat)
    if rc != 0 or not m or not m2:
        raise RuntimeError("coq evaluation failed: " + out[-1500:])
    failing = [int(x) for x in re.findall(r"\d+", m.group(1))]
    return failing, parse_exps(m2.group(1))


def prel_closed_form(exps, s):
    w = [math.exp(-(d / float(s))) if not isinstance(d, str) else 0.0 for d in exps]
    tot = sum(w)
    if tot == 0.0:
        return [float("nan")] * len(w)
    return [x / tot for x in w]


# ------------------------------------------------------------------ distribution statistics

def fl(v):
    return float(v)


def dl_float(r):
    return fl(r[0]) + fl(r[1]) + fl(r[3])


def table_stats(tabs, outs):
    nrows = nan_rows = inf_rows = ninf_rows = 0
    nun = un_novar = un_allnan = 0
    vhist = {}
    tie_tabs = dup_tabs = nanprel_tabs = ntab = 0
    for tab, res in zip(tabs, outs):
        per = {}
        for r in tab["rows"]:
            d = dl_float(r)
            nrows += 1
            nan_rows += math.isnan(d)
            inf_rows += d == float("inf")
            ninf_rows += d == float("-inf")
            per.setdefault(r[2], []).append(d)
        for u in range(tab["U"]):
            nun += 1
            ds = per.get(u, [])
            vhist[len(ds)] = vhist.get(len(ds), 0) + 1
            un_novar += not ds
            un_allnan += bool(ds) and all(math.isnan(d) for d in ds)
        if res and res.get("final") is not None:
            ntab += 1
            dls = [row[2] for row in res["final"]]
            tie_tabs += len(set(dls)) < len(dls)
            nl = [float(row[4]) for row in res["final"]]
            dup_tabs += any(nl[i] == nl[j] for i in range(len(nl)) for j in range(i))
            nanprel_tabs += any(row[3] == "nan" for row in res["final"])
    return {
        "tables": len(tabs), "variant_rows": nrows,
        "share_rows_DL_nan": round(nan_rows / max(1, nrows), 4),
        "share_rows_DL_plus_inf": round(inf_rows / max(1, nrows), 4),
        "share_rows_DL_minus_inf": round(ninf_rows / max(1, nrows), 4),
        "uniques": nun, "share_uniques_without_variants": round(un_novar / max(1, nun), 4),
        "share_uniques_all_nan": round(un_allnan / max(1, nun), 4),
        "variants_per_unique_histogram": {str(k): v for k, v in sorted(vhist.items())},
        "share_tables_with_exact_DL_tie_in_final": round(tie_tabs / max(1, ntab), 4),
        "share_tables_with_repeated_nll_in_final": round(dup_tabs / max(1, ntab), 4),
        "share_tables_with_nan_Prel": round(nanprel_tabs / max(1, ntab), 4),
    }


# ------------------------------------------------------------------ correspondence

def correspondence(ctx):
    rep = ctx.report
    n = 300 if ctx.quick else 5000
    R = esrv.rng(ctx.seed, "C06/tables")
    tabs = [gen_table(R) for _ in range(n)]
    ranks = [R.choice([2, 3, 4]) for _ in range(n)]
    ctx.c06 = []          # (tab, P, res) for the search phase
    try:
        idxs = {P: [i for i in range(n) if ranks[i] == P] for P in (2, 3, 4)}
        res = run_impl_parallel(ctx, [(tabs + EDGE_TABLES, 1)] + [([tabs[i] for i in idxs[P]], P) for P in (2, 3, 4)])
        out1 = res[0]
        outs = {1: out1[:n]}
        edge_out = out1[n:]
        multi = {}
        for P, o in zip((2, 3, 4), res[1:]):
            for i, r in zip(idxs[P], o):
                multi[i] = r
    except Exception as e:
        rep.fail("broken-correspondence", "implementation driver failed: %s" % e, "C06:impl-driver", theorem="combine_main tie")
        return
    cases = []
    for i in range(n):
        cases.append((1, tabs[i], outs[1][i]))
        cases.append((ranks[i], tabs[i], multi[i]))
    for t, r in zip(EDGE_TABLES, edge_out):
        cases.append((1, t, r))
    for P, tab, res in cases:
        ctx.c06.append((tab, P, res))
    # leftovers in the temp dir and rank-count independence of the files
    for i in range(n):
        a, b = outs[1][i], multi[i]
        if (a["final"], a["comb"], a["fcn"]) != (b["final"], b["comb"], b["fcn"]):
            rep.fail("broken-correspondence", "output files differ between 1 and %d ranks" % ranks[i], "C06:rank-dependence",
                     input=tabs[i], observed=b, expected=a, theorem="combined_rank_independent")
            break
    for P, tab, res in cases:
        if res.get("leftover_temp"):
            rep.fail("broken-correspondence", "per-rank temp files left behind: %r" % res["leftover_temp"], "C06:temp-leftover",
                     input=tab, theorem="join of per-rank files")
            break
    # model vs implementation, sharded
    shard = 700
    nbad = 0
    from concurrent.futures import ThreadPoolExecutor
    starts = list(range(0, len(cases), shard))
    try:
        with ThreadPoolExecutor(max_workers=5) as ex:
            shard_res = list(ex.map(lambda a: coq_compare(cases[a:a + shard]), starts))
    except Exception as e:
        rep.fail("broken-correspondence", "model evaluation / literal conversion failed: %s" % str(e)[-1200:], "C06:coq-eval",
                 theorem="combine_main tie")
        return
    for a, (failing, exps) in zip(starts, shard_res):
        chunk = cases[a:a + shard]
        for k in failing:
            nbad += 1
            if nbad <= 3:
                P, tab, res = chunk[k]
                rep.fail("broken-correspondence", "Coq model combine_main and combine_DL.main differ (P=%d)" % P, "C06:model-vs-impl",
                         input=tab, observed=res, theorem="Model/Combine.v combine_main vs esr/fitting/combine_DL.py main")
        for k, (P, tab, res) in enumerate(chunk):
            if res["exc"] is not None:
                rep.case(key=("crash", len(tab["rows"]), tab["U"]), nontrivial=True,
                         sample=None)
                continue
            got = [float(row[3]) for row in res["final"]]
            want = prel_closed_form(exps[k], tab["s"])
            okp = len(got) == len(want) and all(
                (math.isnan(g) and math.isnan(w)) or abs(g - w) <= 1e-12 for g, w in zip(got, want))
            if not okp:
                nbad += 1
                if nbad <= 3:
                    rep.fail("broken-correspondence", "Prel differs from exp(-d_i/s)/sum over the model's exponent list", "C06:prel-vs-model",
                             input=tab, observed=got, expected={"exps": exps[k], "prel": want},
                             theorem="Model/Combine.v prel (prel_exps ...)")
            rep.case(key=(a + k), nontrivial=len(res["final"]) >= 2,
                     sample={"ranks": P, "U": tab["U"], "scale": tab["s"], "rows": tab["rows"][:6], "final": res["final"][:4],
                             "model_exponents": exps[k][:6]} if (a + k) < 4 else None)
            rep.traces += 1
    rep.extra["input_distribution"] = table_stats(tabs, outs[1])
    rep.extra["input_distribution"]["rank_counts"] = {str(P): sum(1 for x in ranks if x == P) for P in (2, 3, 4)}
    rep.extra["input_distribution"]["edge_tables_one_rank"] = len(EDGE_TABLES)
    rep.rule = ("%d generated tables (2-12 uniques, 0-5 variants each, entries integer/dyadic, +inf, NaN, occasionally -inf, forced ties and "
                "repeated nll in ~1/4 of the tables each) through the real combine_DL.main under 1 rank and under 2-4 stand-in ranks, plus %d "
                "edge tables (crash guards, all-NaN, all-inf) under 1 rank; every column of combine_DL_comp/combine_DL_fcn_comp/final compared "
                "inside Coq with combine_main (vm_compute); Prel compared within 1e-12 with the closed form over the model's exponent list; "
                "non-trivial = final table with >= 2 rows" % (n, len(EDGE_TABLES)))


# ------------------------------------------------------------------ search: the property stated directly on final_<n>.dat

def isnan(x):
    return x != x


def spec_check(tab, res):
    """Returns a list of (key, message, observed, expected).  Independent of the Coq model: the property's
    sentences evaluated on the input table and the parsed final_<n>.dat (floats)."""
    s = float(tab["s"])
    rows = [[fl(r[0]) / s if not isinstance(r[0], str) else fl(r[0]),
             fl(r[1]) / s if not isinstance(r[1], str) else fl(r[1]), r[2],
             fl(r[3]) / s if not isinstance(r[3], str) else fl(r[3]),
             [fl(p) / s if not isinstance(p, str) else fl(p) for p in r[4]]] for r in tab["rows"]]
    U = tab["U"]
    if res["exc"] is not None or res["final"] is None:
        if U >= 2:
            return [("C06:crash:fewer-than-two-rows" if len(rows) < 2 else "C06:crash",
                     "combine_DL.main raised %s on a table with %d unique functions and %d variant rows: no final table is written"
                     % (res["exc"], U, len(rows)), res["exc"], "a final table")]
        return []
    if U < 2:
        return []
    bad = []
    fin = []
    for row in res["final"]:
        fin.append(dict(rank=int(row[0]), fcn=row[1], dl=float(row[2]), prel=float(row[3]), nll=float(row[4]),
                        codelen=float(row[5]), aifeyn=float(row[6]), params=[float(p) for p in row[7]]))
    dls = [r[0] + r[1] + r[3] for r in rows]
    byu = {}
    for j, r in enumerate(rows):
        byu.setdefault(r[2], []).append(j)
    # consecutive ranks, order
    if [f["rank"] for f in fin] != list(range(len(fin))):
        bad.append(("C06:ranks", "ranks are not 0,1,2,...", [f["rank"] for f in fin], list(range(len(fin)))))
    if any(isnan(f["dl"]) for f in fin) or any(not (fin[i]["dl"] <= fin[i + 1]["dl"]) for i in range(len(fin) - 1)):
        bad.append(("C06:order", "description lengths are not in non-decreasing order", [f["dl"] for f in fin], "sorted, NaN-free"))
    # appears exactly once iff a non-NaN variant exists; minimum; attaining variant
    seen = {}
    for f in fin:
        m = re.fullmatch(r"v(\d+)", f["fcn"])
        j = int(m.group(1)) if m else None
        if j is None or j >= len(rows):
            bad.append(("C06:function", "function column is not a variant of the table", f["fcn"], "v<j>"))
            continue
        u = rows[j][2]
        seen[u] = seen.get(u, 0) + 1
        nn = [dls[k] for k in byu.get(u, []) if not isnan(dls[k])]
        if not nn:
            continue
        if f["dl"] != min(nn):
            bad.append(("C06:min-variant", "row of unique %d does not carry the smallest description length of its variants" % u,
                        f["dl"], min(nn)))
        elif math.isfinite(f["dl"]):
            same = (dls[j] == f["dl"] and rows[j][0] == f["nll"] and rows[j][1] == f["codelen"] and rows[j][3] == f["aifeyn"]
                    and len(rows[j][4]) == len(f["params"])
                    and all(a == b or (isnan(a) and isnan(b)) for a, b in zip(rows[j][4], f["params"])))
            if not same:
                bad.append(("C06:min-variant", "row of unique %d: function/terms/parameters are not those of a variant attaining the minimum" % u,
                            f, rows[j]))
    for u in range(U):
        want = 1 if any(not isnan(dls[k]) for k in byu.get(u, [])) else 0
        if seen.get(u, 0) != want:
            bad.append(("C06:appears-once", "unique %d appears %d times, expected %d" % (u, seen.get(u, 0), want), seen.get(u, 0), want))
    # relative probabilities
    if any(math.isfinite(f["dl"]) for f in fin):
        pre = [f["prel"] for f in fin]
        dmin = min(f["dl"] for f in fin)
        if any(isnan(p) or p < 0 for p in pre) or abs(sum(pre) - 1.0) > 1e-9:
            key = "C06:prel:neg-inf-min" if dmin == float("-inf") else "C06:prel:normalisation"
            bad.append((key, "some description length is finite but the relative probabilities are not non-negative numbers summing to one "
                        "(smallest description length %r)" % dmin, pre, "non-negative, sum 1"))
        else:
            w = []
            for f in fin:
                try:
                    w.append(math.exp(-(f["dl"] - dmin)))
                except OverflowError:
                    w.append(float("inf"))
            nodup = []
            for i, f in enumerate(fin):
                if any(fin[k]["nll"] == f["nll"] for k in range(i)):
                    if f["prel"] != 0.0:
                        bad.append(("C06:prel:duplicate", "row %d repeats an earlier likelihood but has Prel %r" % (i, f["prel"]), f["prel"], 0.0))
                else:
                    nodup.append(i)
            if 0 not in nodup and fin:
                bad.append(("C06:prel:duplicate", "row 0 was treated as a duplicate", nodup[:1], 0))
            ref = [i for i in nodup if 0.0 < w[i] < float("inf")]
            c = fin[ref[0]]["prel"] / w[ref[0]] if ref else 0.0
            for i in nodup:
                want = c * w[i] if w[i] == w[i] and w[i] != float("inf") else float("nan")
                if not abs(fin[i]["prel"] - want) <= 1e-12:
                    bad.append(("C06:prel:proportional", "row %d: Prel is not proportional to exp(-(DL-DLmin))" % i, fin[i]["prel"], want))
                    break
    return bad


HAND_TABLES = [   # smallest witnesses of the two refuted statements (Props/C06.v: C06_prel_neg_inf_refuted, C06_single_line_table_refuted)
    {"U": 3, "npar": 1, "s": 1, "rows": [[NINF, 2, 0, 3, [0]], [1, 2, 1, 3, [1]], [2, 2, 2, 3, [2]]]},
    {"U": 2, "npar": 1, "s": 1, "rows": [[1, 2, 0, 3, [0]]]},
]
# a final table with more than 1000 ranked functions whose description lengths lie within 2.2 nats of the best one (complexity >= 7
# in the shipped bases): every row has a non-negligible relative probability, also those far down the table
# likelihoods that differ in the ninth significant digit (exactly representable): different values are NOT repeats of each other,
# however close; only an exactly equal likelihood is a duplicate
_S = 2 ** 20
NEAR_TIE_TABLE = {"U": 5, "npar": 1, "s": _S,
                  "rows": [[1234 * _S, 2 * _S, 0, 3 * _S, [0]], [1234 * _S + 1, 2 * _S, 1, 3 * _S + 7, [1]], [1234 * _S + 4096, 2 * _S, 2, 3 * _S, [2]],
                           [1234 * _S, 2 * _S, 3, 3 * _S + _S, [3]], [1236 * _S, 2 * _S, 4, 3 * _S, [4]]]}
LONG_TABLE = {"U": 1100, "npar": 1, "s": 512,
              "rows": [[(u * 7919) % 1100, 5 * 512, u, 3 * 512, [u]] for u in range(1100)]}


def from_impl_table(t, s):
    def back(v):
        return v if isinstance(v, str) else int(round(v * s))
    return {"U": t["U"], "npar": t["npar"], "s": s,
            "rows": [[back(r[0]), back(r[1]), int(r[2]), back(r[3]), [back(p) for p in r[4]]] for r in t["rows"]]}


def search(ctx):
    rep = ctx.report
    done = []
    replay = getattr(ctx, "replay", None)
    if replay and isinstance(replay.get("input"), dict) and "table" in replay["input"]:
        tab = from_impl_table(replay["input"]["table"], replay["input"].get("model_units_scale", 1))
        P = int(replay["input"].get("ranks", 1))
        done.append((tab, P, run_impl(ctx, [tab], P)[0]))
    # an extra batch with its own stream: more -inf, tables that may have < 2 rows
    n = 150 if ctx.quick else 3000
    R = esrv.rng(ctx.seed, "C06/search")
    tabs = HAND_TABLES + [LONG_TABLE, NEAR_TIE_TABLE] + [gen_table(R, allow_crash=True, more_ninf=True) for _ in range(n)]
    outs = []
    try:
        outs = run_impl_parallel(ctx, [(tabs, 1)])[0]
        done += [(t, 1, o) for t, o in zip(tabs, outs)]
    except Exception as e:
        rep.fail("broken-correspondence", "search driver failed: %s" % e, "C06:search-driver", theorem="search")
    done += list(getattr(ctx, "c06", []))      # every output gathered by the correspondence (1-4 ranks)
    reported = set()
    counts = {}
    for tab, P, res in done:
        rep.case(key=None, nontrivial=False)
        for key, msg, obs, exp in spec_check(tab, res):
            counts[key] = counts.get(key, 0) + 1
            if key in reported:
                continue
            reported.add(key)
            rep.fail("failing-input", msg, key, input={"ranks": P, "table": impl_table(tab), "model_units_scale": tab["s"]},
                     observed={"final": res.get("final"), "exc": res.get("exc"), "detail": obs}, expected=exp)
    rep.extra["search_tables"] = len(done)
    rep.extra["search_violation_counts"] = counts
    rep.extra["search_distribution_extra_batch"] = table_stats(tabs, outs) if len(outs) == len(tabs) else {}


LEVEL_TEXT = ("Machine-checked theorems (Coq) on a model of combine_DL.main, for EVERY table (any number of uniques and variants, any mix of finite, "
              "+inf, -inf, NaN, ties) and every rank count: a unique appears exactly once iff it has a non-NaN variant, with the minimum "
              "description length and (unless that is +inf) the terms/parameters/function of the FIRST variant attaining it; ranks 0,1,2,...; rows "
              "sorted, a permutation of the per-unique minima, ties in unique-index order; per-rank computation equals the one-rank result; "
              "Prel over the reals non-negative, proportional to exp(-(DL-DL0)), 0 for repeated likelihoods, summing to 1 when the smallest "
              "description length is finite. A test run sees one table; the theorems quantify over all of them.")
LEVEL_NOTE = ("Trusted: Coq kernel/vm_compute; hand-written model Combine.v tied by running the real main() on generated tables under 1-4 ranks "
              "each run; float rounding and text I/O not modelled; Prel theorems rely on Coq's classical reals axioms. The property fails on "
              "tables whose smallest description length is -inf (all Prel NaN) and main raises on tables with < 2 rows: both proved as "
              "refutation witnesses and reported by the search.")
TECHNIQUE = ("Coq proof over a hand-written Gallina model (insertion-sort stability, nanmin/nanargmin invariants, Reals for Prel) + "
             "vm_compute correspondence against the real combine_DL.main under 1-4 stand-in ranks + direct spec checker on final_<n>.dat")
