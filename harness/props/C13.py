"""C13 -- the number of MPI ranks changes neither what is enumerated nor its soundness."""
import ast
import filecmp
import glob
import json
import os
import shutil
import sys

import esrv

PROPS_V = "Props/C13.v"
TRANSLATORS = ["partition", "dist"]
GEN = os.path.join(esrv.VERIF, "harness", "corr", "gen_run.py")
TRUSTED = [
    "Coq 8.16.1 kernel + vm_compute",
    "Print Assumptions: C13 theorems closed under the global context",
    "translator partition.py (split_idx regenerated from source each run)",
    "hand-written BSP model coq/Model/Bsp.v; tie = (a) ast scan: the generation modules use only gather/bcast/scatter/Barrier on comm, "
    "(b) traced collective sequences of real multi-process runs are identical on every rank, (c) the MPI stand-in implements deposit/pick-up semantics",
    "distribution skeletons coq/Model/Dist.v are hand-written models of the scatter/compute/gather index arithmetic; tie = (a) translator dist.py: the bounds/guard "
    "arithmetic of shape_to_functions, make_changes and check_results is regenerated (Gen/GenDist.v) and proved equal to the model's (C13_*_is_code), together with "
    "structural checks (pos counts the innermost iterations from 0, extras only inside the guarded block), (b) a fingerprint of every statement that mentions the "
    "communicator, split_idx/array_split or the derived slice variables, (c) byte comparison of the real outputs across rank counts",
    "per-item sympy work is a function of its arguments (same result in different processes; PYTHONHASHSEED fixed)",
]
ASSUMPTIONS = [
    "real MPI libraries are replaced by a file-based multi-process stand-in with the same collective semantics",
    "sympy computes the same result for the same input in every process (cache history may differ)",
    "timeouts firing differently on slower ranks are the subject of C15, not C13",
]
LEVEL_TEXT = ("Coq theorems: (1) schedule independence for every SPMD program of local steps and blocking collectives, every P and every interleaving "
              "(invariant over an append-only deposit board); (2) the translated split_idx tiles for every (N,P); (3) distribution skeletons "
              "(extras gathering, make_changes offsets, initial_sympify blocks, load_subs rows, check_results un-shuffling) equal the one-rank result for every P. "
              "Tied to the code by tracing real multi-process runs (collective sequences, exit status, byte-identical outputs) and checked for soundness with the C03 oracle.")
LEVEL_NOTE = ("Partial: the per-item sympy computations are oracles assumed deterministic across processes; real MPI replaced by a stand-in with the modelled semantics; "
              "skeleton models are hand-written (tie: traced collectives + byte comparison of outputs over rank counts incl. P > N). No axioms.")
TECHNIQUE = "Coq invariant proof (BSP schedule independence) + tiling lemmas on translator-generated split_idx; multi-process stand-in runs with traced collectives, randomised delays, byte comparison and C03 oracle"

BYTE_FILES = ["trees_%d.txt", "orig_trees_%d.txt", "extra_trees_%d.txt", "all_equations_%d.txt", "aifeyn_%d.txt",
              "orig_aifeyn_%d.txt", "extra_aifeyn_%d.txt"]
ALLOWED_COMM = {"Get_rank", "Get_size", "gather", "bcast", "scatter", "Barrier"}
SUBBASES = [
    ("verif_a", [["x", "a"], ["inv", "exp"], ["+", "*"]]),
    ("verif_b", [["x", "a"], ["square", "sqrt_abs", "log_abs"], ["+", "*", "-"]]),
    ("verif_c", [["x", "a"], ["inv"], ["+", "*", "/", "pow"]]),
]


def comm_scan(scratch):
    bad = []
    n = 0
    for f in sorted(glob.glob(os.path.join(scratch, "esr", "generation", "*.py"))):
        tree = ast.parse(open(f).read())
        for node in ast.walk(tree):
            if isinstance(node, ast.Attribute) and isinstance(node.value, ast.Name) and node.value.id == "comm":
                n += 1
                if node.attr not in ALLOWED_COMM:
                    bad.append("%s:%d comm.%s" % (os.path.basename(f), node.lineno, node.attr))
            if isinstance(node, ast.keyword) and node.arg == "root":
                if not (isinstance(node.value, ast.Constant) or isinstance(node.value, ast.Name)):
                    bad.append("%s: non-trivial root expression" % os.path.basename(f))
    return n, bad


def run_gen(ctx, runname, n, P, basis=None, delay=None, tag="", prior=()):
    """Fresh scratch copy of the scratch copy (so libraries of different P do not mix). Returns dict."""
    work = esrv.mkscratch("c13")
    dst = os.path.join(work, "repo")
    shutil.copytree(ctx.scratch, dst, ignore=shutil.ignore_patterns("function_library", "__pycache__"))
    tr = os.path.join(work, "trace")
    os.makedirs(tr)
    extra = {"FAKE_MPI_TRACE": tr, "FAKE_MPI_TIMEOUT": "240"}
    if basis is not None:
        extra["ESR_VERIF_BASIS"] = json.dumps(basis)
    if delay is not None:
        extra["FAKE_MPI_DELAY"] = str(delay)
    # `prior`: complexities generated before n in the SAME process of every rank (the usual `for n: main(run, n)` loop)
    res = esrv.run_mpi(dst, GEN, [runname] + [str(k) for k in prior] + [str(n)], P, extra=extra, timeout=900)
    colls = []
    for r in range(P):
        p = os.path.join(tr, "coll.%d" % r)
        colls.append([l.split()[1:] for l in open(p)] if os.path.exists(p) else [])
    return {"work": work, "lib": os.path.join(dst, "esr", "function_library", runname, "compl_%d" % n),
            "rc": [x[0] for x in res], "err": [x[2][-600:] for x in res], "colls": colls}


def cases(ctx):
    if ctx.quick:
        libs = [("core_maths", 3, None), ("core_maths", 4, None), ("keep_duplicates", 3, None), ("verif_a", 4, SUBBASES[0][1]), ("core_maths", 5, None)]
        ranks = [2, 3, 5, 16]
        delays = {3: [ctx.seed]}
    else:
        # (the full grid -- five shipped bases x n=1..4 x every P in 2..16 -- took more than an hour; this selection keeps every
        #  basis, every complexity and small/prime/large rank counts, incl. more ranks than functions)
        libs = [("core_maths", n, None) for n in (1, 2, 3, 4)] + [(b, n, None) for b in ("ext_maths", "osc_maths", "base10_maths") for n in (2, 3)]
        libs += [("base_e_maths", 3, None), ("base_e_maths", 4, None), ("ext_maths", 4, None)]
        libs += [("core_maths", 5, None), ("keep_duplicates", 1, None), ("keep_duplicates", 2, None), ("keep_duplicates", 3, None)]
        libs += [(nm, n, b) for nm, b in SUBBASES for n in (3, 4)]
        ranks = [2, 3, 4, 5, 7, 11, 16]
        delays = {2: [ctx.seed, ctx.seed + 1], 3: [ctx.seed, ctx.seed + 1], 7: [ctx.seed]}
    # directed cases: (run name, n, basis, rank counts, complexities generated earlier in the same process)
    #  - a tiny basis: more ranks than labelled trees of a shape (ranks without work in shape_to_functions and later stages)
    #  - two generations in one process per rank (state that survives a generation, e.g. numpy's global random state
    #    advanced on rank 0 only, must not influence the next one)
    tiny = [["x", "a"], ["inv"], ["+", "*"]]
    directed = [("verif_tiny", 3, tiny, [9, 12, 16], ()), ("verif_tiny", 4, tiny, [16], ()),
                ("core_maths", 4, None, [2, 3], (3,))]
    if not ctx.quick:
        directed += [("verif_tiny", 2, tiny, [7, 16], ()), ("verif_tiny", 5, tiny, [13, 16], ()), ("core_maths", 5, None, [2, 5], (3, 4)),
                     ("keep_duplicates", 3, None, [2, 4], (1, 2))]
    ctx.c13_directed = directed
    return libs, ranks, delays


def correspondence(ctx):
    rep = ctx.report
    sys.path.insert(0, os.path.join(esrv.VERIF, "harness", "lib"))
    import liboracle
    ncomm, bad = comm_scan(ctx.scratch)
    rep.extra["comm_call_sites"] = ncomm
    if bad:
        rep.fail("broken-correspondence", "generation modules use communication outside the modelled collectives: %s" % bad[:5],
                 "C13:comm-scan", observed=bad, theorem="C13_schedule_independent (Model/Bsp.v covers gather/bcast/scatter/Barrier only)")
    # tie of the hand-written distribution skeletons (Model/Dist.v): the statements they were written against are unchanged
    sys.path.insert(0, os.path.join(esrv.VERIF, "harness", "corr"))
    import c13_skeleton
    want = json.load(open(os.path.join(esrv.VERIF, "harness", "corr", "c13_skeleton.json")))
    got = c13_skeleton.fingerprint(ctx.scratch)
    for k in sorted(set(want) | set(got)):
        if want.get(k) != got.get(k):
            a, b = want.get(k) or [], got.get(k) or []
            diff = [x for x in a if x not in b][:4], [x for x in b if x not in a][:4]
            rep.fail("broken-correspondence", "communication skeleton of %s changed; Model/Dist.v was written against the previous one (removed %r, added %r)" % (k, diff[0], diff[1]),
                     "C13:skeleton:%s" % k.split("::")[1], observed={"removed": diff[0], "added": diff[1]}, theorem="C13 distribution-skeleton theorems (Model/Dist.v)")
    libs, ranks, delays = cases(ctx)
    ctx.oracle_jobs = []
    stats = {"runs": 0, "ranks": sorted(set([1] + ranks)), "libs": [l[:2] for l in libs]}
    jobs = [(runname, n, basis, None, ()) for runname, n, basis in libs] + list(ctx.c13_directed)
    for runname, n, basis, own_ranks, prior in jobs:
        ref = run_gen(ctx, runname, n, 1, basis, prior=prior)
        stats["runs"] += 1
        if ref["rc"] != [0]:
            rep.fail("failing-input", "generation fails on one rank for %s n=%d: %s" % (runname, n, ref["err"][0][-300:]),
                     "C13:gen:single-rank-crash", input={"basis": runname, "n": n, "P": 1}, observed=ref["err"])
            shutil.rmtree(ref["work"], ignore_errors=True)
            continue
        ctx.oracle_jobs.append((runname, n, 1, liboracle.load_library(ref["lib"], n)))
        todo = [(P, None) for P in ranks] + [(P, d) for P, ds in delays.items() for d in ds]
        if n >= 5:
            todo = [(2, None), (3, None)] + ([] if ctx.quick else [(7, None)])
        if own_ranks is not None:
            todo = [(P, None) for P in own_ranks]
        for P, delay in todo:
            out = run_gen(ctx, runname, n, P, basis, delay, prior=prior)
            stats["runs"] += 1
            key = (runname, n, P, delay, tuple(prior))
            rep.case(key=key, nontrivial=True,
                     sample={"basis": runname, "n": n, "P": P, "delay_seed": delay, "generated_before_in_same_process": list(prior), "exit": out["rc"], "collectives_rank0": len(out["colls"][0])})
            if any(rc != 0 for rc in out["rc"]):
                badr = [r for r, rc in enumerate(out["rc"]) if rc != 0]
                rep.fail("failing-input", "generation does not terminate cleanly on all ranks: %s n=%d P=%d ranks %s: %s" % (
                    runname, n, P, badr, out["err"][badr[0]].strip().splitlines()[-1:] ),
                    "C13:gen:rank-crash", input={"basis": runname, "basis_functions": basis, "n": n, "P": P, "delay_seed": delay, "generated_before_in_same_process": list(prior)},
                    observed={"exit": out["rc"], "stderr": out["err"][badr[0]]}, expected="exit 0 on every rank")
                shutil.rmtree(out["work"], ignore_errors=True)
                continue
            # model hypothesis: every rank issues the same sequence of collectives
            rep.traces += P
            if any(c != out["colls"][0] for c in out["colls"]):
                k = next(r for r, c in enumerate(out["colls"]) if c != out["colls"][0])
                rep.fail("broken-correspondence", "ranks issue different collective sequences (%s n=%d P=%d, rank %d vs rank 0)" % (runname, n, P, k),
                         "C13:collective-sequence", observed={"rank0": out["colls"][0][:40], "rank%d" % k: out["colls"][k][:40]},
                         theorem="C13_schedule_independent hypothesis: same program on every rank")
            # byte comparison with the one-rank run
            for pat in BYTE_FILES:
                fn = pat % n
                a, b = os.path.join(ref["lib"], fn), os.path.join(out["lib"], fn)
                if not (os.path.exists(a) and os.path.exists(b) and filecmp.cmp(a, b, shallow=False)):
                    rep.fail("failing-input", "%s differs between 1 and %d ranks (%s n=%d)" % (fn, P, runname, n),
                             "C13:bytes:%s" % pat.split("_%d")[0], input={"basis": runname, "basis_functions": basis, "n": n, "P": P, "delay_seed": delay, "generated_before_in_same_process": list(prior)},
                             observed="file differs or is missing", expected="byte-identical to the one-rank output")
                    break
            try:
                ctx.oracle_jobs.append((runname, n, P, liboracle.load_library(out["lib"], n)))
            except Exception as e:
                rep.fail("failing-input", "library files unreadable after %d-rank run: %s" % (P, e), "C13:library-unreadable",
                         input={"basis": runname, "n": n, "P": P})
            shutil.rmtree(out["work"], ignore_errors=True)
        shutil.rmtree(ref["work"], ignore_errors=True)
    rep.extra["distribution"] = stats
    rep.rule = ("real generation (duplicate_checker.main) under the multi-process MPI stand-in for each (basis, n, P[, delay seed]); "
                "non-trivial = P>1; compared: exit status of every rank, per-rank collective sequences, byte identity of tree/function/code-length files with the 1-rank run, C03 soundness of the unique/match/map triple")


def search(ctx):
    rep = ctx.report
    import liboracle
    tot = {"functions": 0, "checked": 0, "undecided": 0, "nan": 0}
    for runname, n, P, lib in getattr(ctx, "oracle_jobs", []):
        viol, st = liboracle.check_c03(lib, ctx.seed)
        for k in tot:
            tot[k] += st.get(k, 0)
        for v in viol[:2]:
            rep.fail("failing-input", "library produced with %d ranks is unsound (%s n=%d): %s" % (P, runname, n, json.dumps(v)[:300]),
                     "C13:c03:%s" % v["kind"], input={"basis": runname, "n": n, "P": P, "detail": v}, expected="C03 soundness")
    rep.extra["c03_oracle"] = tot
