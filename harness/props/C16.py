"""C16 -- results do not depend on earlier runs."""
import concurrent.futures
import fnmatch
import json
import os
import re
import shutil
import subprocess

import esrv

PROPS_V = "Props/C16.v"
TRANSLATORS = []
TRUSTED = [
    "Coq 8.16.1 kernel + vm_compute (no native_compute)",
    "Print Assumptions: every C16 theorem is closed under the global context (no axioms)",
    "hand-written model coq/Model/History.v (file/dictionary operation programs of the five stages); tied on every run by "
    "traces of builtins.open, os.system, os.remove, os.path.exists, np.savetxt/loadtxt/genfromtxt and of every read/write of "
    "sympy_locs while the REAL stages run (harness/lib/iotrace.py); the traced program itself is fed to the Coq checkers",
    "harness/lib/iotrace.py: logging dict subclass installed in sympy_symbols/simplifier/generator; shell commands parsed by regular "
    "expressions (an unparsed command or dictionary mutation fails the correspondence)",
    "MPI stand-in harness/fakempi (single and multi-process)",
]
ASSUMPTIONS = [
    "a written value is a function of the call's arguments/seed and of the values the call has read (files, sympy_locs lookups): "
    "sympy's internal caches, numpy's global RNG beyond the explicit seeds and wall-clock timeouts are outside the model "
    "(exercised by the byte comparison, not proved)",
    "ranks are barrier-synchronised: a multi-rank stage program is the ranks' segments superstep by superstep; segments of "
    "different ranks touch distinct files (per-rank traces are compared with the per-rank model programs)",
    "shell globs are modelled structurally (kind, complexity, rank); checked by fnmatch of every stage's file names against every "
    "stage's glob for complexities/ranks up to 30",
    "the statement quantifies over COMPLETED earlier runs: a run killed between its savetxt and the cat/rm leaves a per-rank temp "
    "file that a later run with fewer ranks picks up (modelled: C16_ex_crashed_run_leaves_state; reproduced on the real code and "
    "recorded in the evidence as information, not as a violation)",
    "block_ok (a sympify call with max_param=K only looks up parameter names below K) is data dependent: checked on every traced "
    "run, not proved from update_sums/update_tree",
]
IMPL = os.path.join(esrv.VERIF, "harness", "corr", "c16_impl.py")

BASES = ["core_maths", "ext_maths", "keep_duplicates", "osc_maths"]
RUNS = ["r1", "r2"]
DATAS = ["data.txt", "data2.txt"]
BASE_KEYS = ["inv", "square", "cube", "pow", "Abs", "x", "sqrt_abs", "log_abs", "log10_abs", "tenexp"]
LIBKINDS = [("orig_trees_%d.txt", "OrigTrees"), ("extra_trees_%d.txt", "ExtraTrees"), ("orig_aifeyn_%d.txt", "OrigAifeyn"),
            ("extra_aifeyn_%d.txt", "ExtraAifeyn"), ("trees_%d.txt", "Trees"), ("aifeyn_%d.txt", "Aifeyn"),
            ("all_equations_%d.txt", "AllEq"), ("unique_equations_%d.txt", "UniqEq"), ("matches_%d.txt", "Matches"),
            ("inv_subs_%d.txt", "InvSubs"), ("temp_%d.txt", "TempTxt"), ("previous_eqns_%d.txt", "PrevEqns")]
TMPKINDS = [("chi2_comp%dweights_", "TChi2"), ("codelen_deriv_%d_", "TCodelenDeriv"), ("derivs_%d_", "TDerivs"),
            ("codelen_matches_%d_", "TCodelenMatches"), ("combine_DL_%d_", "TCombine"), ("combine_DL_fcn_%d_", "TCombineFcn")]
OUTKINDS = [("negloglike_comp%d.dat", "ONegloglike"), ("codelen_comp%d_deriv.dat", "OCodelenDeriv"), ("derivs_comp%d.dat", "ODerivs"),
            ("codelen_matches_comp%d.dat", "OCodelenMatches"), ("combine_DL_comp%d.dat", "OCombine"),
            ("combine_DL_fcn_comp%d.dat", "OCombineFcn"), ("final_%d.dat", "OFinal"), ("results_pretty_%d.txt", "OPretty")]

DATA1 = [(0.5, 1.36), (0.75, 1.74), (1.0, 2.25), (1.25, 2.69), (1.5, 3.39), (1.75, 3.57), (2.0, 4.47), (2.25, 4.72),
         (2.5, 5.33), (2.75, 5.78), (3.0, 6.45), (3.25, 6.59)]
DATA2 = [(0.5, 0.9), (1.0, 1.1), (1.5, 2.4), (2.0, 3.9), (2.5, 6.4), (3.0, 9.2), (3.5, 12.1), (4.0, 16.3)]


# ------------------------------------------------------------------ trace -> Coq terms

class Unknown(Exception):
    pass


def classify(p):
    """relative path (L/..., D/...) -> Coq fname term, or None for directories / unrelated paths."""
    p = re.sub(r"/+", "/", p)
    m = re.fullmatch(r"L/([A-Za-z0-9_]+)/compl_(\d+)/([^/]+)", p)
    if m:
        basis, n, name = m.group(1), int(m.group(2)), m.group(3)
        if basis not in BASES:
            raise Unknown("basis " + basis)
        b = BASES.index(basis)
        for pat, kind in LIBKINDS:
            if name == pat % n:
                return "(LibF %d %d %s 0)" % (b, n, kind)
        m2 = re.fullmatch(r"inv_(subs|idx)_(\d+)_round_(\d+)\.txt", name)
        if m2 and int(m2.group(2)) == n:
            return "(LibF %d %d %s %d)" % (b, n, "InvSubsRound" if m2.group(1) == "subs" else "InvIdxRound", int(m2.group(3)))
        raise Unknown("library file " + p)
    m = re.fullmatch(r"D/fitting/output/partial_([A-Za-z0-9]+)/([^/]+)", p)
    if m:
        run, name = m.group(1), m.group(2)
        m2 = re.fullmatch(r"(.*?_?)(\d+)(weights_|_)(\d+)\.dat", name)
        for n in range(0, 40):
            for pat, kind in TMPKINDS:
                pre = pat % n
                if name.startswith(pre) and re.fullmatch(r"\d+\.dat", name[len(pre):]):
                    return "(TmpF %d %s %d %d)" % (RUNS.index(run), kind, n, int(name[len(pre):-4]))
        raise Unknown("temp file " + p)
    m = re.fullmatch(r"D/fitting/output/output_([A-Za-z0-9]+)/([^/]+)", p)
    if m:
        run, name = m.group(1), m.group(2)
        for n in range(0, 40):
            for pat, kind in OUTKINDS:
                if name == pat % n:
                    return "(OutF %d %s %d)" % (RUNS.index(run), kind, n)
        raise Unknown("output file " + p)
    m = re.fullmatch(r"D/([^/]+)", p)
    if m and m.group(1) in DATAS:
        return "(DataF %d)" % DATAS.index(m.group(1))
    return None


def classify_glob(d, pat):
    """temp directory + glob -> Coq pat term."""
    d = re.sub(r"/+", "/", d).rstrip("/")
    m = re.fullmatch(r"D/fitting/output/partial_([A-Za-z0-9]+)", d)
    if not m:
        raise Unknown("glob dir " + d)
    for n in range(0, 40):
        for pre, kind in TMPKINDS:
            if pat == (pre % n) + "*.dat":
                return "(PTmp %d %s %d)" % (RUNS.index(m.group(1)), kind, n)
    raise Unknown("glob " + pat)


class KeyTable:
    def __init__(self):
        self.other = {"": 0, "Integer": 1}

    def term(self, k, hit):
        m = re.fullmatch(r"a(\d+)", k)
        if m:
            if not hit:
                raise Unknown("lookup of parameter name %s missed: the name was not inserted by this call" % k)
            return "KParam %d" % int(m.group(1))
        if k in BASE_KEYS:
            if not hit:
                raise Unknown("base key %s missing" % k)
            return "KBase %d" % BASE_KEYS.index(k)
        if hit:
            raise Unknown("unexpected key %r bound in sympy_locs" % k)
        if k not in self.other:
            self.other[k] = len(self.other)
        return "KOther %d" % self.other[k]


def keysort(t):
    kind, i = t.split()
    return ({"KOther": 0, "KParam": 1, "KBase": 2}[kind], int(i))


def normalise(ops, keys=None):
    """raw trace -> list of Coq op terms (strings).  Raises Unknown on anything not understood (fail closed)."""
    keys = keys or KeyTable()
    out = []
    look = None
    i = 0

    def flush():
        nonlocal look
        if look is not None:
            for t in sorted(look, key=keysort):
                out.append("LocsLookup (%s)" % t)
            look = None
    while i < len(ops):
        o = ops[i]
        k = o[0]
        if k == "locs_get":
            if look is None:
                look = set()
            look.add(keys.term(o[1], o[2]))
            i += 1
            continue
        flush()
        if k == "locs_set":
            m = re.fullmatch(r"a(\d+)", o[1])
            if not m or o[2] != "Symbol(%s,real=True,positive=None)" % o[1]:
                raise Unknown("sympy_locs[%r] = %s" % (o[1], o[2]))
            out.append("LocsInsert %d" % int(m.group(1)))
        elif k == "open":
            f = classify(o[2])
            if f is None:
                raise Unknown("open of " + o[2])
            mode = o[1]
            if mode == "w":
                out.append("Write %s 0" % f)
            elif mode == "a":
                out.append("Append %s 0" % f)
            elif mode == "r":
                out.append("Read %s" % f)
            else:
                raise Unknown("open mode " + mode)
        elif k in ("loadtxt", "genfromtxt"):
            out.append("Read %s" % classify(o[1]))
        elif k == "savetxt":
            out.append("Write %s 0" % classify(o[1]))
        elif k == "exists":
            f = classify(o[1])
            if f is not None:
                if i + 1 < len(ops) and ops[i + 1][0] == "remove" and ops[i + 1][1] == o[1]:
                    i += 1
                out.append("Remove %s" % f)
        elif k == "remove":
            raise Unknown("os.remove without an existence test: " + o[1])
        elif k == "cat":
            out.append("Cat [%s] %s" % ("; ".join(classify(s) for s in o[1]), classify(o[2])))
        elif k == "catglob":
            out.append("CatGlob %s %s" % (classify_glob(o[1], o[2]), classify(o[3])))
        elif k == "rmglob":
            d, pat = os.path.split(o[1])
            out.append("RemoveGlob %s" % classify_glob(d, pat))
        elif k == "sed":
            out.append("Filter %s %s 0" % (classify(o[1]), classify(o[2])))
        elif k == "mv":
            out.append("Move %s %s" % (classify(o[1]), classify(o[2])))
        elif k == "touch":
            out.append("Touch %s" % classify(o[1]))
        else:
            raise Unknown("%s %r" % (k, o[1:]))
        i += 1
    flush()
    if any("None" in t for t in out):
        raise Unknown("operation on an unclassified path")
    return out


def is_locs(t):
    return t.startswith("LocsInsert") or t.startswith("LocsLookup")


def blocks_of(run):
    """a maximal run of sympy_locs operations -> list of (K, [key terms])."""
    blocks = []
    cur = None
    for t in run:
        if t.startswith("LocsInsert"):
            i = int(t.split()[1])
            if i == 0 or cur is None or cur[1]:
                cur = [0, []]
                blocks.append(cur)
            cur[0] = max(cur[0], i + 1)
        else:
            if cur is None:
                cur = [0, []]
                blocks.append(cur)
            cur[1].append(t[len("LocsLookup "):])
    return blocks


def coq_block(b):
    return "(%d, [%s])" % (b[0], "; ".join(b[1]))


def parse_gen(nops, n):
    """Recover the shape parameters of generation_prog from the normalised trace.  Lenient: the verdict is
    Coq's first_diff between the trace and generation_prog applied to these parameters."""
    i = 4                                   # the four truncations
    N = len(nops)

    def locs_run():
        nonlocal i
        j = i
        while j < N and is_locs(nops[j]):
            j += 1
        r = nops[i:j]
        i = j
        return r
    shapes = []
    while i < N and not nops[i].startswith("Cat"):
        bl = blocks_of(locs_run())
        k = 0
        while i < N and nops[i].startswith("Append") and k < 4:
            i += 1
            k += 1
        if k == 0 and not bl:
            break
        shapes.append(bl)
    while i < N and nops[i].startswith("Cat"):
        i += 1
    initb = blocks_of(locs_run())
    while i < N and not nops[i].startswith("Read"):
        i += 1
    rounds = []
    while i < N and nops[i].startswith("Read") and "InvSubsRound" in nops[i]:
        i += 1
        bl = blocks_of(locs_run())
        rd = False
        if i < N and nops[i].startswith("Read") and "InvIdxRound" in nops[i]:
            rd = True
            i += 1
        rounds.append((bl[0] if bl else [0, []], rd))
    chk = blocks_of([t for t in nops[i:] if is_locs(t)])
    chk = chk[0] if chk else [0, []]
    G = "mkGen [%s] [%s] [%s] %s" % (
        "; ".join("[" + "; ".join(coq_block(b) for b in bs) + "]" for bs in shapes),
        "; ".join(coq_block(b) for b in initb),
        "; ".join("(%s, %s)" % (coq_block(b), "true" if rd else "false") for b, rd in rounds),
        coq_block(chk))
    return G, len(shapes), len(rounds)


def coq_prog(nops):
    return "[" + ";\n ".join(nops) + "]"


CHECKS = "def_before_use {inp} {p}, inserted_before_lookup {p}, tmp_balanced {p}, prefix_inserts {p}"


def coq_eval(tag, trace_name, model, inp, extra=""):
    return ('Eval vm_compute in ("%s", first_diff 0 %s (%s), (%s%s)).\n'
            % (tag, trace_name, model, CHECKS.format(inp=inp, p=trace_name), extra))


def run_coq(defs, evals):
    v = ("From Coq Require Import List Bool Arith String.\nFrom ESRV Require Import Model.History.\nImport ListNotations.\n"
         "Open Scope string_scope.\n" + defs + evals)
    rc, out = esrv.coq_run(v, timeout=900)
    flat = " ".join(out.split()).replace("%string", "")
    res = {}
    for m in re.finditer(r'= \("([A-Za-z0-9_:-]+)", (.*?)\) : ', flat):
        res[m.group(1)] = m.group(2)
    return rc, res, flat


def write_data(d):
    with open(os.path.join(d, "data.txt"), "w") as f:
        for x, y in DATA1:
            f.write("%.4f %.4f 0.1\n" % (x, y))
    with open(os.path.join(d, "data2.txt"), "w") as f:
        for x, y in DATA2:
            f.write("%.4f %.4f 0.25\n" % (x, y))
    # a data file with one missing measurement: every likelihood is inf, every description length NaN, the final table is empty
    with open(os.path.join(d, "nan.txt"), "w") as f:
        for k, (x, y) in enumerate(DATA1):
            f.write(("%.4f nan 0.1\n" % x) if k == 3 else ("%.4f %.4f 0.1\n" % (x, y)))


# ------------------------------------------------------------------ correspondence

def glob_separation():
    """Every stage's temp-file name against every stage's glob: the structural matching of the model
    (same kind, same complexity, any rank) must be what fnmatch says."""
    bad = []
    names = []
    for n in range(1, 31):
        for pre, kind in TMPKINDS:
            for r in (0, 1, 7, 10, 23):
                names.append((kind, n, (pre % n) + "%d.dat" % r))
    for n in range(1, 31):
        for pre, kind in TMPKINDS:
            g = (pre % n) + "*.dat"
            for k2, n2, nm in names:
                want = (k2 == kind and n2 == n)
                if fnmatch.fnmatchcase(nm, g) != want:
                    bad.append((g, nm))
    return bad, len(names) * 30 * len(TMPKINDS)


def correspondence(ctx):
    rep = ctx.report
    bad, ncmp = glob_separation()
    rep.case(key="glob-separation", sample={"glob_vs_name_pairs": ncmp, "mismatches": bad[:3]})
    if bad:
        rep.fail("broken-correspondence", "a stage's glob matches another stage's / complexity's temp file: %r" % (bad[:3],),
                 "C16:glob-separation", observed=bad[:5], theorem="pat_match (Model/History.v)")

    # ---- generation traces
    gens = [("core_maths", 3), ("core_maths", 4), ("ext_maths", 3), ("keep_duplicates", 3), ("osc_maths", 3), ("core_maths", 2)]
    if not ctx.quick:
        gens += [("core_maths", 5), ("ext_maths", 4), ("osc_maths", 4), ("keep_duplicates", 4), ("core_maths", 1)]
    defs, evals, meta = "", "", {}

    def one_gen(bn):
        s = esrv.scratch_copy()
        return bn, esrv.run_py(s, IMPL, ["trace_gen", bn[0], str(bn[1])], timeout=1500)
    with concurrent.futures.ThreadPoolExecutor(max_workers=6) as ex:
        results = list(ex.map(one_gen, gens))
    for (basis, n), (rc, out, err) in results:
        tag = "GEN-%s-%d" % (basis, n)
        if rc != 0:
            rep.fail("broken-correspondence", "trace_gen %s %d failed" % (basis, n), "C16:trace-driver", observed=err[-1500:],
                     theorem="generation_prog tie")
            continue
        tr = json.loads(out)
        try:
            nops = normalise(tr["ops"])
        except Unknown as e:
            rep.fail("broken-correspondence", "generation %s n=%d performs an operation outside the model: %s" % (basis, n, e),
                     "C16:gen-unknown-op", observed=str(e), theorem="generation_prog / inserted_before_lookup tie")
            continue
        G, nsh, nr = parse_gen(nops, n)
        name = "tr_" + re.sub(r"\W", "_", tag)
        b = BASES.index(basis)
        defs += "Definition %s : prog := %s.\nDefinition G_%s : genparams := %s.\n" % (name, coq_prog(nops), name, G)
        evals += coq_eval(tag, name, "generation_prog %d %d G_%s" % (b, n, name), "generation_inputs",
                          ", forallb block_ok (gen_blocks G_%s), List.length (g_shapes G_%s), List.length (g_rounds G_%s)" % (name, name, name))
        meta[tag] = dict(kind="gen", nops=len(nops), nshapes=tr["nshapes"], nround=tr["nround"], basis=basis, n=n,
                         expect="None, (true, true, true, true, true, %d, %d)" % (tr["nshapes"], tr["nround"]))
        rep.case(key=tag, sample={"stage": "generation", "basis": basis, "n": n, "trace_ops": len(nops),
                                  "shapes": tr["nshapes"], "rounds": tr["nround"], "first_ops": nops[:6]})

    # ---- fitting-stage traces: 1 rank (prev off / on) and 3 ranks
    fits = [("core_maths", 3, 1, 0), ("core_maths", 3, 1, 1), ("core_maths", 3, 3, 0)]
    if not ctx.quick:
        fits += [("ext_maths", 3, 1, 0), ("core_maths", 4, 3, 1), ("core_maths", 2, 5, 0), ("core_maths", 1, 1, 1)]

    def one_fit(spec):
        basis, n, P, prev = spec
        s = esrv.scratch_copy()
        d = esrv.mkscratch("c16d")
        write_data(d)
        need = sorted(set([n] + (list(range(1, n)) if prev else [])))
        rc, out, err = esrv.run_py(s, os.path.join(esrv.VERIF, "harness", "corr", "gen_run.py"), [basis] + [str(i) for i in need], timeout=900)
        if rc != 0:
            return spec, None, err
        args = ["trace_fit", d, "data.txt", "r1", basis, str(n), str(prev)]
        if P == 1:
            rs = [esrv.run_py(s, IMPL, args, timeout=900)]
        else:
            rs = esrv.run_mpi(s, IMPL, args, P, timeout=900)
        left = sorted(os.listdir(os.path.join(d, "fitting", "output", "partial_r1"))) if os.path.isdir(os.path.join(d, "fitting", "output", "partial_r1")) else None
        shutil.rmtree(d, ignore_errors=True)
        return spec, rs, left
    with concurrent.futures.ThreadPoolExecutor(max_workers=4) as ex:
        fresults = list(ex.map(one_fit, fits))
    for spec, rs, left in fresults:
        basis, n, P, prev = spec
        b = BASES.index(basis)
        if rs is None or any(r[0] != 0 for r in rs):
            rep.fail("broken-correspondence", "trace_fit %r failed" % (spec,), "C16:trace-driver",
                     observed=(left if rs is None else "\n".join(r[2][-600:] for r in rs if r[0] != 0)), theorem="fitting stage tie")
            continue
        if left:
            rep.fail("failing-input", "completed fitting stages left temp files behind: %r" % (left,), "C16:temp-files-left",
                     input={"basis": basis, "n": n, "ranks": P}, observed=left, expected="partial_<run>/ empty after a completed run")
        prevb = "true" if prev else "false"
        per_rank = {}
        ok_all = True
        for rc, out, err in rs:
            tr = json.loads(out)
            r, m = tr["rank"], tr["nfun"]
            try:
                st = {k: normalise(v) for k, v in tr["stages"].items()}
            except Unknown as e:
                rep.fail("broken-correspondence", "fitting stages %r perform an operation outside the model: %s" % (spec, e),
                         "C16:fit-unknown-op", observed=str(e), theorem="fitting stage tie")
                ok_all = False
                break
            mblk = blocks_of([t for t in st["match"] if is_locs(t)])
            mblk = mblk[0] if mblk else [0, []]
            nfinal = sum(1 for t in st["combine"] if t.startswith("Append"))
            per_rank[r] = dict(st=st, m=m, mblk=mblk, nfinal=nfinal)
            models = {
                "ctor": "ctor_prog 0",
                "fit": "fit_rank 0 %d %d %s %d %d" % (b, n, prevb, r, m),
                "fisher": "fisher_rank 0 %d %d %d" % (b, n, r),
                "match": "match_rank 0 %d %d %d %s" % (b, n, r, coq_block(mblk)),
                "combine": "combine_rank 0 %d %d %d %d" % (b, n, r, nfinal),
            }
            # (a) every rank's own operations are the model's per-rank program, and its dictionary accesses are disciplined
            for stg, model in models.items():
                tag = "RANK-%s-%d-P%d-prev%d-r%d-%s" % (basis, n, P, prev, r, stg)
                name = "tr_" + re.sub(r"\W", "_", tag)
                defs += "Definition %s : prog := %s.\n" % (name, coq_prog(st[stg]))
                evals += ('Eval vm_compute in ("%s", first_diff 0 %s (%s), (inserted_before_lookup %s, prefix_inserts %s, block_ok %s)).\n'
                          % (tag, name, model, name, name, coq_block(mblk)))
                meta[tag] = dict(kind="rank", expect="None, (true, true, true)")
            rep.case(key=("fit", basis, n, P, prev, r), sample={"stage": "fit,fisher,match,combine", "basis": basis, "n": n,
                     "ranks": P, "rank": r, "ignore_previous_eqns": bool(prev), "functions_of_rank": m,
                     "match_block": coq_block(mblk), "final_rows": nfinal})
        if not ok_all or sorted(per_rank) != list(range(P)):
            continue
        # (b) the whole stage: the ranks' traced segments, superstep by superstep (split at the barriers), are the model's
        #     stage program, and THAT traced program passes def_before_use / inserted_before_lookup / tmp_balanced
        def split_post(ops):
            k = next((i for i, t in enumerate(ops) if t.startswith("CatGlob")), len(ops))
            return ops[:k], ops[k:]
        ser = {}
        s1len = lambda r: 1 + ((n - 1) + 1 if (r == 0 and prev) else 0)
        fit_s1 = [t for r in range(P) for t in per_rank[r]["st"]["fit"][:s1len(r)]]
        fit_s2 = [t for r in range(P) for t in split_post(per_rank[r]["st"]["fit"][s1len(r):])[0]]
        ser["fit"] = (fit_s1 + fit_s2 + split_post(per_rank[0]["st"]["fit"])[1],
                      "fit_prog 0 %d %d %s [%s]" % (b, n, prevb, "; ".join(str(per_rank[r]["m"]) for r in range(P))),
                      "(fit_inputs %d %d %s)" % (b, n, prevb))
        for stg, model, inp in (("fisher", "fisher_prog 0 %d %d %d" % (b, n, P), "(fisher_inputs 0 %d %d)" % (b, n)),
                                ("match", "match_prog 0 %d %d [%s]" % (b, n, "; ".join(coq_block(per_rank[r]["mblk"]) for r in range(P))),
                                 "(match_inputs 0 %d %d)" % (b, n)),
                                ("combine", "combine_prog 0 %d %d %d %d" % (b, n, P, per_rank[0]["nfinal"]), "(combine_inputs 0 %d %d)" % (b, n))):
            pre = [t for r in range(P) for t in split_post(per_rank[r]["st"][stg])[0]]
            ser[stg] = (pre + split_post(per_rank[0]["st"][stg])[1], model, inp)
        for stg, (ops, model, inp) in ser.items():
            tag = "STAGE-%s-%d-P%d-prev%d-%s" % (basis, n, P, prev, stg)
            name = "tr_" + re.sub(r"\W", "_", tag)
            defs += "Definition %s : prog := %s.\n" % (name, coq_prog(ops))
            evals += coq_eval(tag, name, model, inp)
            meta[tag] = dict(kind="stage", expect="None, (true, true, true, true)")
        # the serialised stage programs of the model for this rank count pass the checks (instances of the theorems)
    rc, res, flat = run_coq(defs, evals)
    rep.traces += len(meta)
    if rc != 0:
        rep.fail("broken-correspondence", "the traced programs could not be evaluated in Coq", "C16:coq-eval", observed=flat[-2500:],
                 theorem="trace tie")
        return
    for tag, mt in sorted(meta.items()):
        got = res.get(tag)
        if got != mt["expect"]:
            legend = {"rank": "(inserted_before_lookup, prefix_inserts, block_ok)",
                      "stage": "(def_before_use, inserted_before_lookup, tmp_balanced, prefix_inserts)",
                      "gen": "(def_before_use, inserted_before_lookup, tmp_balanced, prefix_inserts, block_ok of every sympify block, "
                             "number of tree shapes, number of do_sympy rounds)"}[mt["kind"]]
            what = ("traced operations of the real stage differ from the model program, or the traced program fails a check "
                    "(tag %s): Coq says (first differing op index, %s) = %s, expected %s" % (tag, legend, got, mt["expect"]))
            rep.fail("broken-correspondence", what, "C16:trace-vs-model:" + tag.split("-")[0], observed=got, expected=mt["expect"],
                     theorem="generation_prog / *_rank programs of Model/History.v; def_before_use, inserted_before_lookup")
    rep.rule = ("traces of the real generation (%d basis/complexity pairs) and of the real fit/fisher/match/combine stages "
                "(1 and 3+ ranks, ignore_previous_eqns off/on) -> Coq: op-by-op equality with the instance programs and the "
                "checkable predicates evaluated on the traced programs themselves; search: byte comparison fresh vs after history"
                % len(gens))


# ------------------------------------------------------------------ search

def call_key(c):
    return json.dumps(c, sort_keys=True)


def gen_call(b, n, gseed=None):
    c = {"k": "gen", "basis": b, "n": n}
    if gseed is not None:
        c["gseed"] = gseed          # the `seed` argument of duplicate_checker.main (default 1234)
    return c


def fit_call(run, b, n, stages=None, data="data.txt", prev=False, seed=1234, niter=None, nconv=None):
    c = {"k": "fit", "run": run, "basis": b, "n": n, "data": data, "seed": seed, "prev": prev}
    if stages:
        c["stages"] = stages
    if niter:
        c["niter"], c["nconv"] = niter, nconv
    return c


def needs_libs(c):
    if c["k"] == "gen":
        return []
    ns = [c["n"]] + (list(range(1, c["n"])) if c.get("prev") else [])
    return [(c["basis"], n) for n in ns]


def random_history(rng, observed, quick):
    nmax = 4
    k = rng.randint(3, 10)
    have = set(needs_libs(observed))
    hist = []
    while len(hist) < k:
        r = rng.random()
        if r < 0.15:
            c = dict(observed)                                   # repeated identical call
        elif r < 0.27 and observed["k"] == "fit" and observed["n"] <= (3 if quick else 4):
            # the same stage(s) for ANOTHER basis at the SAME complexity, ignore_previous_eqns on, same or other run directory
            b = rng.choice([x for x in ["core_maths", "ext_maths", "osc_maths"] if x != observed["basis"]])
            stages = ["fit", "fisher", "match", "combine"][:rng.choice([1, 1, 3, 4])]
            c = fit_call(rng.choice(RUNS), b, observed["n"], stages=stages, data=rng.choice(DATAS), prev=True)
        elif r < 0.37:
            c = gen_call(rng.choice(BASES), rng.randint(1, 2))   # registers a0 only: before a later match stage / bigger generation
        elif r < 0.55:
            b = rng.choice(BASES)
            n = rng.randint(1, nmax)
            if b == "keep_duplicates" and n == 4 and (quick or rng.random() < 0.7):
                n = 3
            if b == "ext_maths" and n == 4 and quick and rng.random() < 0.5:
                n = 3
            c = gen_call(b, n)
        else:
            b = rng.choice(["core_maths", "core_maths", "ext_maths", "osc_maths"])
            n = rng.randint(1, 3)
            run = rng.choice(RUNS)
            stages = ["fit", "fisher", "match", "combine"][:rng.choice([1, 2, 3, 4, 4, 4])]
            c = fit_call(run, b, n, stages=stages, data=rng.choice(DATAS), prev=(rng.random() < 0.25), seed=rng.choice([1234, 7]))
        for lib in needs_libs(c):
            if lib not in have and len(hist) < 12:
                hist.append(gen_call(*lib))
                have.add(lib)
        if c["k"] == "gen":
            have.add((c["basis"], c["n"]))
        hist.append(c)
    return hist


class Worker:
    """One scratch copy of the repository + one data directory; scenarios run one after the other."""

    def __init__(self, cache):
        self.scratch = esrv.scratch_copy()
        self.data = esrv.mkscratch("c16d")
        self.cache = cache
        self.lib = os.path.join(self.scratch, "esr", "function_library")

    def reset(self, libs):
        shutil.rmtree(self.lib, ignore_errors=True)
        shutil.rmtree(os.path.join(self.data, "fitting"), ignore_errors=True)
        write_data(self.data)
        for b, n in libs:
            src = os.path.join(self.cache, b, "compl_%d" % n)
            dst = os.path.join(self.lib, b, "compl_%d" % n)
            os.makedirs(os.path.dirname(dst), exist_ok=True)
            shutil.copytree(src, dst)

    def run(self, history, observed, pre_mpi=None, extra_libs=()):
        """Returns (files: {relname: bytes}, info) or raises RuntimeError.
        extra_libs: pristine libraries put in place beforehand (identically in every scenario) besides the observed call's own."""
        self.reset(sorted(set(needs_libs(observed)) | set(tuple(l) for l in extra_libs)))
        if pre_mpi:
            # an earlier, completed, multi-rank run from ANOTHER process into the same directories
            c, P = pre_mpi
            for lib in needs_libs(c):
                if not os.path.isdir(os.path.join(self.lib, lib[0], "compl_%d" % lib[1])):
                    shutil.copytree(os.path.join(self.cache, lib[0], "compl_%d" % lib[1]), os.path.join(self.lib, lib[0], "compl_%d" % lib[1]))
            rs = esrv.run_mpi(self.scratch, os.path.join(esrv.VERIF, "harness", "corr", "fit_run.py"),
                              ["gauss", self.data, c.get("data", "data.txt"), c["run"], c["basis"], str(c["n"]), "fit,fisher,match,combine"],
                              P, timeout=900)
            if any(r[0] != 0 for r in rs):
                raise RuntimeError("multi-rank pre-history failed: " + rs[0][2][-800:])
        col = esrv.mkscratch("c16c")
        spec = os.path.join(col, "spec.json")
        with open(spec, "w") as f:
            json.dump({"data_dir": self.data, "history": history, "observed": observed, "collect": os.path.join(col, "out")}, f)
        rc, out, err = esrv.run_py(self.scratch, IMPL, ["exec", spec], timeout=1700)
        if rc != 0:
            shutil.rmtree(col, ignore_errors=True)
            raise RuntimeError("driver failed (rc=%d): %s" % (rc, err[-1500:]))
        info = json.loads(out)
        files = {}
        for relname in info["files"]:
            with open(os.path.join(col, "out", relname.replace("/", "__")), "rb") as f:
                files[relname] = f.read()
        shutil.rmtree(col, ignore_errors=True)
        return files, info


def build_cache(ctx, libs):
    """Pristine libraries, each generated in its own fresh process."""
    cache = esrv.mkscratch("c16lib")

    def one(lib):
        s = esrv.scratch_copy()
        rc, out, err = esrv.run_py(s, os.path.join(esrv.VERIF, "harness", "corr", "gen_run.py"), [lib[0], str(lib[1])], timeout=900)
        if rc != 0:
            raise RuntimeError("pristine generation of %r failed: %s" % (lib, err[-800:]))
        dst = os.path.join(cache, lib[0], "compl_%d" % lib[1])
        os.makedirs(os.path.dirname(dst), exist_ok=True)
        shutil.copytree(os.path.join(s, "esr", "function_library", lib[0], "compl_%d" % lib[1]), dst)
        shutil.rmtree(os.path.dirname(s), ignore_errors=True)
    with concurrent.futures.ThreadPoolExecutor(max_workers=6) as ex:
        list(ex.map(one, libs))
    return cache


def first_diff(a, b):
    la, lb = a.splitlines(), b.splitlines()
    for i in range(max(len(la), len(lb))):
        x = la[i] if i < len(la) else None
        y = lb[i] if i < len(lb) else None
        if x != y:
            return {"line": i + 1, "fresh": None if x is None else x.decode("utf8", "replace")[:200],
                    "after_history": None if y is None else y.decode("utf8", "replace")[:200]}
    return None


def compare(base, got):
    diffs = []
    for k in sorted(set(base) | set(got)):
        if base.get(k) != got.get(k):
            diffs.append(k)
    return diffs


def stale_demo(ctx, worker):
    """Boundary of the statement on the real code: a KILLED rank-5 fit leaves chi2_comp3weights_5.dat; a later one-rank
    fit of the same (run, n) then concatenates it.  Information only (the property quantifies over completed runs)."""
    obs = fit_call("r1", "core_maths", 3, stages=["fit"])
    worker.reset(needs_libs(obs))
    rc, out, err = esrv.run_py(worker.scratch, IMPL, ["stale", worker.data, "data.txt", "r1", "core_maths", "3", "5"], timeout=600)
    left = sorted(os.listdir(os.path.join(worker.data, "fitting", "output", "partial_r1")))
    col = esrv.mkscratch("c16c")
    spec = os.path.join(col, "spec.json")
    with open(spec, "w") as f:
        json.dump({"data_dir": worker.data, "history": [], "observed": obs, "collect": os.path.join(col, "out")}, f)
    rc2, out2, err2 = esrv.run_py(worker.scratch, IMPL, ["exec", spec], timeout=600)
    nl = None
    p = os.path.join(col, "out", "D__output_r1__negloglike_comp3.dat")
    if os.path.exists(p):
        nl = len(open(p).read().splitlines())
    shutil.rmtree(col, ignore_errors=True)
    return {"killed_run_left": left, "killed_driver": out.strip()[-40:], "rows_in_negloglike_after_later_1rank_fit": nl,
            "unique_functions": 14}


def directed_corpus():
    """Histories aimed at the known ways for state to survive a call; they run first in both tiers.
    Entries: (observed, history, pre_mpi, extra_libs) -- extra_libs are pristine libraries put in place beforehand,
    identically in the fresh and in the history scenario."""
    small = dict(niter=[8, 4], nconv=[2, 1])       # call arguments (same in both scenarios): keeps the n=5 chain short
    ext123 = [("ext_maths", 1), ("ext_maths", 2), ("ext_maths", 3)]
    return [
        # D1: the same fit call (ignore_previous_eqns on) for ANOTHER basis at the SAME complexity earlier in the process
        (fit_call("r1", "core_maths", 3, stages=["fit"], prev=True),
         [fit_call("r1", "ext_maths", 3, stages=["fit"], prev=True)], None, ext123),
        # D2: generation at a complexity with ONE parameter, then the whole chain at a complexity with two-parameter
        #     functions (match: load_subs registers a0..a3 in sympy_locs)
        (fit_call("r1", "core_maths", 5, **small), [gen_call("core_maths", 2)], None, []),
        # D3: D1 with the whole chain into the same run directory (truncation of every stage output, final_ removal)
        (fit_call("r1", "core_maths", 3, prev=True), [fit_call("r1", "ext_maths", 3, prev=True)], None, ext123),
        # D4: generation at complexity 1 and a match stage of another basis before generation with three parameters
        (gen_call("core_maths", 5), [gen_call("osc_maths", 1), fit_call("r2", "core_maths", 3), gen_call("core_maths", 5)], None,
         [("core_maths", 3)]),
        # D5: a run whose final table is EMPTY (all description lengths NaN) over the outputs of an earlier completed run of the same
        #     analysis on good data: every stage output must be reset also on the fallback paths (touch does not truncate)
        (fit_call("r1", "core_maths", 3, data="nan.txt"), [fit_call("r1", "core_maths", 3, data="data.txt")], None, []),
        (fit_call("r1", "core_maths", 1, data="nan.txt"), [fit_call("r1", "core_maths", 1, data="data.txt")], None, []),
        # D6: generation with an explicit shuffle seed that is falsy / unusual (0, 1): the seed is an argument of the call, so the
        #     library is a function of it whatever numpy's global generator was left as by earlier calls
        (gen_call("core_maths", 4, gseed=0), [gen_call("core_maths", 3)], None, []),
        (gen_call("core_maths", 3, gseed=0), [fit_call("r2", "core_maths", 2, stages=["fit"]), gen_call("core_maths", 3, gseed=1)], None,
         [("core_maths", 2)]),
    ]


def search(ctx):
    rep = ctx.report
    rng = esrv.rng(ctx.seed, "C16-histories")
    nhist = 10 if ctx.quick else 100
    small = dict(niter=[8, 4], nconv=[2, 1])
    observed_pool = [gen_call("core_maths", 4), gen_call("ext_maths", 3), fit_call("r1", "core_maths", 3),
                     gen_call("keep_duplicates", 3), fit_call("r1", "core_maths", 3, prev=True), gen_call("osc_maths", 4),
                     fit_call("r1", "ext_maths", 3), gen_call("core_maths", 3)]
    if not ctx.quick:
        observed_pool += [fit_call("r1", "core_maths", 5, **small), fit_call("r2", "ext_maths", 3, prev=True)]
    if ctx.replay and ctx.replay.get("input", {}).get("observed"):
        ri = ctx.replay["input"]
        scen = [(ri["observed"], ri["history"], ri.get("pre_mpi"), [tuple(l) for l in ri.get("extra_libs", [])])]
    else:
        dc = directed_corpus()
        scen = dc if not ctx.quick else dc[:2] + dc[4:]
        ndir = len(scen)
        for i in range(nhist):
            obs = observed_pool[i % len(observed_pool)] if i < len(observed_pool) else rng.choice(observed_pool)
            hist = random_history(rng, obs, ctx.quick)
            pre = None
            if obs["k"] == "fit" and obs["n"] <= 3 and (i % 3 == 2):
                pre = (fit_call(obs["run"], rng.choice(["core_maths", "ext_maths"]), obs["n"]), 3)
            scen.append((obs, hist, pre, []))
    libs = set()
    for obs, hist, pre, extra in scen:
        libs.update(needs_libs(obs))
        libs.update(tuple(l) for l in extra)
        if pre:
            libs.update(needs_libs(pre[0]))
    cache = build_cache(ctx, sorted(libs))
    nwork = 6 if ctx.quick else 8
    workers = [Worker(cache) for _ in range(nwork)]

    def bkey(obs, extra):
        return call_key(obs) + "|" + json.dumps(sorted(list(l) for l in extra))
    # baselines: fresh process, empty output directories
    base_jobs = []
    for obs, _, _, extra in scen:
        if bkey(obs, extra) not in [bkey(o, e) for o, e in base_jobs]:
            base_jobs.append((obs, extra))
    base = {}

    # one worker handles one scenario at a time: chunk the jobs per worker
    def run_jobs(jobs, fn):
        out = []
        per = [[] for _ in range(nwork)]
        for i, j in enumerate(jobs):
            per[i % nwork].append(j)

        def runner(w):
            return [fn(workers[w], j) for j in per[w]]
        with concurrent.futures.ThreadPoolExecutor(max_workers=nwork) as ex:
            for lst in ex.map(runner, range(nwork)):
                out += lst
        return out

    def job_base(w, job):
        obs, extra = job
        try:
            return bkey(obs, extra), w.run([], obs, extra_libs=extra), None
        except RuntimeError as e:
            return bkey(obs, extra), None, str(e)
    for key, r, e in run_jobs(base_jobs, job_base):
        if r is None:
            rep.fail("broken-correspondence", "baseline (fresh process) run failed: " + e[:600], "C16:search-driver", observed=e[-1500:],
                     theorem="search")
        else:
            base[key] = r

    def job_scen(w, sc):
        obs, hist, pre, extra = sc
        try:
            return sc, w.run(hist, obs, pre_mpi=pre, extra_libs=extra), None
        except RuntimeError as e:
            return sc, None, str(e)
    results = run_jobs(scen, job_scen)
    # report in corpus order (directed histories first)
    order = {id(sc): i for i, sc in enumerate(scen)}
    results.sort(key=lambda x: order[id(x[0])])
    w0 = workers[0]
    for (obs, hist, pre, extra), r, e in results:
        key = bkey(obs, extra)
        if key not in base:
            continue
        if r is None:
            rep.fail("broken-correspondence", "history run failed: " + e[:600], "C16:search-driver",
                     observed={"observed": obs, "history": hist, "error": e[-1200:]}, theorem="search")
            continue
        files, info = r
        bfiles, binfo = base[key]
        diffs = compare(bfiles, files)
        rep.case(key=("hist", key, call_key(hist)), nontrivial=len(hist) >= 1,
                 sample={"observed": obs, "history": [("%s %s %s" % (c["k"], c["basis"], c["n"])) + ("" if c["k"] == "gen" else " run=%s %s%s" % (c["run"], ",".join(c.get("stages", ["all"])), " prev" if c.get("prev") else "")) for c in hist],
                         "multi_rank_pre_history": bool(pre), "files_compared": len(bfiles), "bytes_compared": sum(len(v) for v in bfiles.values()),
                         "differing_files": diffs, "sympy_locs_params_after": info["locs_params"]})
        if not diffs:
            continue
        nshrunk = getattr(ctx, "_c16_shrunk", 0)
        ctx._c16_shrunk = nshrunk + 1
        if nshrunk >= 2:      # shrink the first two failures only; report the others with their full history
            fn = diffs[0]
            rep.fail("failing-input",
                     "output of %s differs between a fresh process and the same call after the (unshrunk) history %s: file %s, %s"
                     % (json.dumps(obs, sort_keys=True), json.dumps(hist), fn, json.dumps(first_diff(bfiles.get(fn, b""), files.get(fn, b"")))),
                     "C16:history-dependence:%s:%s" % (obs["k"], re.sub(r"\d+", "N", fn.split("/")[-1])),
                     input={"observed": obs, "history": hist, "pre_mpi": pre, "extra_libs": extra, "file": fn},
                     observed=first_diff(bfiles.get(fn, b""), files.get(fn, b"")), expected="byte-identical files")
            continue
        # shrink: shortest prefix of the history that still changes a byte, then drop calls one by one
        cur = list(hist)
        curpre = pre

        def differs(h, p):
            try:
                f2, _ = w0.run(h, obs, pre_mpi=p, extra_libs=extra)
            except RuntimeError as e:
                if os.environ.get("ESRV_C16_DEBUG"):
                    print("[shrink] candidate failed:", len(h), str(e)[-300:])
                return None
            if os.environ.get("ESRV_C16_DEBUG"):
                print("[shrink] candidate", len(h), compare(bfiles, f2))
            return compare(bfiles, f2)
        if curpre and differs(cur, None):
            curpre = None
        if len(cur) > 1 or curpre:
            for klen in range(0, len(cur) + 1):
                d = differs(cur[:klen], curpre)
                if d:
                    cur = cur[:klen]
                    diffs = d
                    break
            i = 0
            while i < len(cur):
                cand = cur[:i] + cur[i + 1:]
                d = differs(cand, curpre)
                if d:
                    cur = cand
                    diffs = d
                else:
                    i += 1
            f2, _ = w0.run(cur, obs, pre_mpi=curpre, extra_libs=extra)
        else:
            # a one-call history: only check that the fresh run itself is reproducible (else the history is not the cause)
            d0 = differs([], None)
            if d0:
                cur, diffs = [], d0
                f2, _ = w0.run(cur, obs, extra_libs=extra)
            else:
                f2 = files
        fn = compare(bfiles, f2)[0] if compare(bfiles, f2) else diffs[0]
        where = first_diff(bfiles.get(fn, b""), f2.get(fn, b""))
        nlines = sum(1 for a, b2 in zip(bfiles.get(fn, b"").splitlines(), f2.get(fn, b"").splitlines()) if a != b2)
        stage = fn.split("/")[-1]
        rep.fail("failing-input",
                 "output of %s differs between a fresh process and the same call after the history %s: file %s (%d lines differ; all differing files: %s), %s"
                 % (json.dumps(obs, sort_keys=True), json.dumps(cur), fn, nlines, compare(bfiles, f2), json.dumps(where)),
                 "C16:history-dependence:%s:%s" % (obs["k"], re.sub(r"\d+", "N", stage)),
                 input={"observed": obs, "history": cur, "pre_mpi": curpre, "extra_libs": extra, "file": fn},
                 observed=where, expected="byte-identical files")
    # information: the boundary of the statement, on the real code
    try:
        rep.extra["crashed_run_demo"] = stale_demo(ctx, w0)
    except Exception as e:  # information only
        rep.extra["crashed_run_demo"] = "not run: %s" % e


LEVEL_TEXT = ("Machine-checked theorems (Coq, no axioms): for EVERY program of file/dictionary operations that passes two checkable "
              "predicates (def_before_use: every read/append/cat source is a declared input, a per-rank temp file or was defined earlier "
              "in the same program; inserted_before_lookup: every lookup of a parameter name in sympy_locs follows its insertion), every "
              "interpretation of the write sites, and every two initial states agreeing on the declared inputs, the values read and all "
              "files written are equal; completed (temp-balanced) programs leave no temp file, so the result holds after ANY history of "
              "completed ESR calls; after any history sympy_locs = base table + {a_i | i<K}. The five stage programs are proved to pass "
              "the predicates for all complexities, bases, runs, rank counts and data-dependent shape parameters. A test can only try "
              "some histories; the theorem covers all call sequences.")
LEVEL_NOTE = ("Trusted: Coq kernel/vm_compute; the hand-written stage programs, tied each run by op-by-op comparison with traces of the real "
              "stages (open/os.system/os.remove/np text I/O/sympy_locs reads and writes) and by running the Coq predicates on the traced "
              "programs themselves; block_ok is checked per traced run, not proved; sympy caches / numpy RNG beyond explicit seeds / "
              "timeouts are outside the model and covered only by the fresh-vs-history byte comparison; crashed runs are excluded by the "
              "statement (modelled and reproduced as information).")
TECHNIQUE = ("Coq proof: simulation invariant (agreement on the determined set) over an operational file/dictionary model; "
             "trace-to-model correspondence with the checkers evaluated in Coq on real traces; fresh-vs-history byte comparison with "
             "history shrinking")
