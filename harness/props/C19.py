"""C19 -- supernova distance-modulus prediction equals its defining integral (partial)."""
import json
import math
import os
import re
import time
from fractions import Fraction

import esrv

PROPS_V = "Props/C19.v"
TRANSLATORS = []
IMPL = os.path.join(esrv.VERIF, "harness", "corr", "c19_impl.py")

TRUSTED = [
    "Coq 8.16.1 kernel + vm_compute (no native_compute); Coquelicot 3 (RInt, is_derive)",
    "Print Assumptions: grid sorted/no repeats, contains data, mask, all four cache theorems and the Q preorder laws are closed under the "
    "global context; every theorem mentioning R lists ClassicalDedekindReals.sig_not_dec, sig_forall_dec and "
    "FunctionalExtensionality.functional_extensionality_dep; C19_trapz_exact_affine, C19_trapz_error_c2, C19_lipschitz_of_bounded_derivative, "
    "C19_mu_error_bound, C19_mu_prediction_bound, C19_analytic_vs_numeric additionally Classical_Prop.classic (Coquelicot / ln)",
    "hand-written model coq/Model/Trapz.v of get_pred/clear_data (np.linspace, np.unique, np.where equality, np.squeeze, "
    "scipy cumulative_trapezoid, scalar broadcast, `dL *= zp1` broadcasting, cache attributes), one generic definition "
    "instantiated over Q (executed) and R (theorems)",
    "the executable Q instance rounds 1/sqrt down to a multiple of 2^-128; everything else is exact rational arithmetic",
    "object.__new__(PanthLikelihood) + attributes read from __init__'s source by ast (delta_z, min_nz, data_x, data_mask, "
    "mu_const expression, zHD filter); thorough tier also runs the real constructor on a synthetic identity covariance",
    "mpmath (quad at 30 digits, interval arithmetic for sup|g'|, sup|g''|) on the specification side of search()",
    "numpy/scipy float64 arithmetic, sympy.lambdify, np.log10",
]
ASSUMPTIONS = [
    "float rounding is not modelled: linspace/cumulative sums/sqrt/log10 are compared to 1e-12 (grid exactly when zmin, zmax, delta are dyadic); "
    "int(np.ceil((zmax-zmin)/delta)) is assumed to equal the exact ceiling",
    "delta_z > 0, min_nz >= 1, all data 1+z >= 1 (the constructor keeps zHD > 0.01); H^2 > 0 on [1, zmax]; no NaN entries",
    "quadrature-error theorems need g = 1/sqrt(H^2) Lipschitz (first order) or g' Lipschitz (second order) on [1, zmax]; "
    "the constants are supplied by the caller of the theorem (search() computes them with interval arithmetic)",
    "sympy.integrate is not verified: the integrated path is proved exact IF the function it is given is an antiderivative "
    "(checked numerically against mpmath.quad for the monomial H^2 that sympy integrates)",
    "without clear_data a filled cache is reused even when the argument changes (proved: C19_cache_reused_without_clear, witnessed: "
    "C19_stale_cache_witness); the property's clause is about the call AFTER clear_data; negloglike always passes self.xvar",
]
LEVEL_TEXT = ("Machine-checked theorems (Coq + Coquelicot) on a model of PanthLikelihood.get_pred: for ALL redshift samples (any order, repeats) "
              "the integration grid is strictly increasing, starts at 1, contains every datum and data_mask points at it; the value returned for "
              "datum i is z_i times the trapezoid sum over exactly the cells between 1 and z_i; that sum is exact for affine integrands and within "
              "L*h*(z-1)/2 (g Lipschitz) resp. K*h^2*(z-1)/12 (g' Lipschitz) of RInt g 1 z, which bounds |mu - (5 log10(z*Int) + c)|; a true "
              "antiderivative makes the integrated path exact; after clear_data the next call rebuilds grid and mask from its argument. "
              "Tests can only sample functions and redshift sets.")
LEVEL_NOTE = ("Partial: float rounding (linspace, ceil, cumsum, sqrt, log10) and sympy.integrate are validated, not proved. Model hand-written, "
              "tied each run by exact (dyadic) / 1e-12 grid+mask comparison and 1e-12 mu comparison of the Q instance (vm_compute) with the real method. "
              "Axioms: standard Reals axioms + classic (Coquelicot). Boundary (proved, C19_grid_starts_below_one): with a datum 1+z < 1 all integrals start "
              "at that datum instead of 1.")
TECHNIQUE = ("Coq proof: generic total-preorder lemmas for sort/unique/where; Coquelicot RInt for the trapezoid error (Chasles + per-cell bound); "
             "Q-instance vm_compute correspondence; mpmath quad/interval search on the real method")

REPORT_BELOW_ONE = False   # flip to report the negative-redshift boundary as a failing input (key C19:grid:datum-below-one)

EXPECT_SRC = {
    "xvar_src": "zCMB.to_numpy() + 1",
    "ww_src": "data['zHD'] > 0.01",
    "Hfid_src": "1.0 * apu.km / apu.s / apu.Mpc",
    "mu_const_src": ["astropy.constants.c / self.Hfid / (10 * apu.pc)", "5 * np.log10(self.mu_const.to(''))"],
    "clear_stores": ["data_mask", "data_x"],
    "data_x": None, "data_mask": None,
}

# H^2 families: ESR function string, number of parameters, terms [(param index, integer power)]
FAMS = {
    "const":   ("a0", 1, [(0, 0)]),
    "lcdm":    ("a0*pow(x,3)+a1", 2, [(0, 3), (1, 0)]),
    "sq":      ("a0*square(x)", 1, [(0, 2)]),
    "invsq":   ("a0*inv(square(x))", 1, [(0, -2)]),          # integrand affine: trapezoid exact
    "cubic":   ("a0*cube(x)+a1*square(x)+a2", 3, [(0, 3), (1, 2), (2, 0)]),
    "lin":     ("a0*x+a1", 2, [(0, 1), (1, 0)]),
    "quart":   ("a0*pow(x,4)+a1*x", 2, [(0, 4), (1, 1)]),
    "cube":    ("a0*cube(x)", 1, [(0, 3)]),
    "mono1":   ("a0*x", 1, [(0, 1)]),
    "mono4":   ("a0*pow(x,4)", 1, [(0, 4)]),
    "invx":    ("a0*inv(x)", 1, [(0, -1)]),
    # an x-free factor times a part whose reciprocal square root sympy cannot integrate (elliptic): with try_integration=True the
    # analytic attempt fails or times out and the numeric path must be used on the WHOLE function
    "fcubic":  ("a0*(cube(x)+1)", 1, [(0, 3), (0, 0)]),
    "fquart":  ("a0*(pow(x,4)+x)", 1, [(0, 4), (0, 1)]),
    # coefficients of both signs with H^2 > 0 on the data range
    "negquad": ("a0*cube(x)+a1*square(x)", 2, [(0, 3), (1, 2)]),
    "negsq":   ("a0+a1*square(x)", 2, [(0, 0), (1, 2)]),
}
INTEGRABLE = ["const", "sq", "invsq", "cube", "mono1", "mono4", "invx"]   # sympy finds the antiderivative (monomials)
# H^2 with a parameter in the exponent: sympy's antiderivative is a Piecewise with a Ne(...) guard, and the guarded (special)
# branch is the one that counts at exponent 2 (log x), rate 0 / base 1 (H^2 = 1).  Not expressible in the Q model: these are
# used for the analytic-versus-numeric and analytic-versus-defining-integral comparisons only.
FAMS.update({
    "powx":  ("pow(x,a0)", 1, "powx"),          # x^a0
    "apowx": ("a0*pow(x,a1)", 2, "apowx"),      # a0 x^a1
    "ipowx": ("inv(pow(x,a0))", 1, "ipowx"),    # x^(-a0)
    "expax": ("exp(a0*x)", 1, "expax"),         # e^(a0 x)
    "powax": ("pow(a0,x)", 1, "powax"),         # a0^x
})
# (family, parameters): every special value next to a generic one
GUARDED = [("powx", [2.0]), ("powx", [2.5]), ("powx", [1.0]),
           ("apowx", [4900.0, 2.0]), ("apowx", [1.5, 3.0]), ("apowx", [0.75, 2.0]),
           ("ipowx", [-2.0]), ("ipowx", [0.5]),
           ("expax", [0.0]), ("expax", [0.4]),
           ("powax", [1.0]), ("powax", [1.5])]


def h_derivs(spec, params, X, C):
    """(H, H', H'') of H^2 at X in the numeric context C (mpmath.mp or mpmath.iv)."""
    P = [C.mpf(p) for p in params]
    if isinstance(spec, list):
        H = sum(P[pi] * X ** k for pi, k in spec)
        H1 = sum((P[pi] * k * X ** (k - 1) for pi, k in spec if k != 0), C.mpf(0))
        H2 = sum((P[pi] * k * (k - 1) * X ** (k - 2) for pi, k in spec if k not in (0, 1)), C.mpf(0))
        return H, H1, H2
    if spec in ("powx", "apowx", "ipowx"):
        c, a = (P[0], P[1]) if spec == "apowx" else (C.mpf(1), P[0] if spec == "powx" else -P[0])
        H = c * C.exp(a * C.log(X))
        return H, a * H / X, a * (a - 1) * H / (X * X)
    if spec == "expax":
        H = C.exp(P[0] * X)
        return H, P[0] * H, P[0] * P[0] * H
    if spec == "powax":
        l = C.log(P[0])
        H = C.exp(l * X)
        return H, l * H, l * l * H
    raise ValueError(spec)


# ---------------------------------------------------------------- helpers
def hx(v):
    return float(v).hex()


def unhex(s):
    return float.fromhex(s)


def qlit(fr):
    fr = Fraction(fr)
    return "(%d # %d)" % (fr.numerator, fr.denominator)


def coq_h2(fam, params):
    fstr, npar, terms = FAMS[fam]
    ps = [qlit(Fraction(p)) for p in params]
    if fam == "const":
        return "(@H2scalar QFld %s)" % ps[0]
    body = " + ".join("%s * x ^ (%d)" % (ps[i], k) for i, k in terms)
    return "(@H2vector QFld (fun x : Q => %s))" % body


class P:
    """Parser for the terms Coq prints: tuples, lists, Some/None, booleans, integers, strings."""

    def __init__(self, s):
        self.t = re.findall(r'"[^"]*"|-?\d+|[A-Za-z_]+|[()\[\];,]', s)
        self.i = 0

    def peek(self):
        return self.t[self.i]

    def eat(self, x=None):
        v = self.t[self.i]
        if x is not None and v != x:
            raise ValueError("expected %r got %r" % (x, v))
        self.i += 1
        return v

    def value(self):
        v = self.peek()
        if v == "(":
            self.eat()
            items = [self.value()]
            while self.peek() == ",":
                self.eat()
                items.append(self.value())
            self.eat(")")
            return items[0] if len(items) == 1 else tuple(items)
        if v == "[":
            self.eat()
            items = []
            if self.peek() != "]":
                items.append(self.value())
                while self.peek() == ";":
                    self.eat()
                    items.append(self.value())
            self.eat("]")
            return items
        self.eat()
        if v == "Some":
            return ("Some", self.value())
        if v == "None":
            return None
        if v in ("true", "false"):
            return v == "true"
        if v.startswith('"'):
            return v[1:-1]
        return int(v)


def parse_coq(out):
    out = re.sub(r"%[A-Za-z_]+", "", out)
    res = {}
    for m in re.finditer(r'=\s*\("J",', out):
        p = P(out[m.start() + 1:])
        v = p.value()
        res[v[1]] = v[2]
    return res


PRELUDE = """From Coq Require Import ZArith QArith Qabs List Bool String.
From ESRV Require Import Model.Trapz.
Import ListNotations.
Open Scope Q_scope.
Definition numden (q : Q) : Z * Z := (Qnum q, Zpos (Qden q)).
Definition qclose (tol a b : Q) : bool := Qle_bool (Qabs (a - b)) tol.
Fixpoint lclose (tol : Q) (a b : list Q) : bool :=
  match a, b with [], [] => true | x :: r, y :: s => qclose tol x y && lclose tol r s | _, _ => false end.
Definition oclose (tol : Q) (a b : option (list Q)) : bool :=
  match a, b with None, None => true | Some x, Some y => lclose tol x y | _, _ => false end.
Fixpoint leqn (a b : list nat) : bool :=
  match a, b with [], [] => true | x :: r, y :: s => Nat.eqb x y && leqn r s | _, _ => false end.
Definition oeqn (a b : option (list nat)) : bool :=
  match a, b with None, None => true | Some x, Some y => leqn x y | _, _ => false end.
Definition outq (o : option (list Q)) : option (list (Z * Z)) :=
  match o with Some l => Some (map numden l) | None => None end.
"""


def model_job_text(jid, job, results):
    """One Eval for a whole call sequence; the implementation's grids/masks are literals compared inside Coq."""
    tol = job["tol"]
    lines = ['Eval vm_compute in ("J"%%string, %d%%Z,' % jid,
             "  let p := @mkParams QFld %s %d%%nat in" % (qlit(unhex(job["delta"])), job["min_nz"]),
             "  let s0 := @cache_empty QFld in"]
    outs = []
    k = 0
    for call, r in zip(job["calls"], results):
        k += 1
        if call["op"] == "clear":
            lines.append("  let s%d := clear_data s%d in" % (k, k - 1))
        elif r.get("integrated"):
            lines.append("  let s%d := s%d in" % (k, k - 1))   # integrated=True neither reads nor writes the cache
        else:
            zs = "[" + "; ".join(qlit(unhex(t)) for t in call["zs"]) + "]"
            lines.append("  let r%d := @get_pred_dl QFld p s%d %s %s in" % (k, k - 1, zs, coq_h2(call["fam"], [unhex(t) for t in call["params"]])))
            lines.append("  let s%d := fst r%d in" % (k, k))
        ix = "None" if r["data_x"] is None else "(Some [" + "; ".join(qlit(unhex(t)) for t in r["data_x"]) + "])"
        if r["data_mask"] is None or r["data_mask"] == "ragged":
            im = "None"
        else:
            im = "(Some [" + "; ".join("%d%%nat" % t for t in r["data_mask"]) + "])"
        val = "outq (snd r%d)" % k if (call["op"] == "pred" and not r.get("integrated")) else "@None (list (Z * Z))"
        lines.append("  let o%d := (oclose %s (data_x s%d) %s, oeqn (data_mask s%d) %s, %s) in" % (k, tol, k, ix, k, im, val))
        outs.append("o%d" % k)
    lines.append("  [" + "; ".join(outs) + "]).")
    return "\n".join(lines)


def mu_from_dl(num, den, const):
    import mpmath as mp
    if num == 0:
        return -math.inf
    if num < 0:
        return math.nan
    return float(5 * mp.log10(mp.mpf(num) / mp.mpf(den)) + mp.mpf(const))


# ---------------------------------------------------------------- redshift samples
def shape_sample(rng, base, shape):
    """base: sorted distinct list.  shape in sorted / unsorted / dups / dups-unsorted."""
    zs = list(base)
    if "dups" in shape and zs:
        for _ in range(max(1, len(zs) // 3)):
            zs.append(rng.choice(zs))
        zs.sort()
    if "unsorted" in shape:
        rng.shuffle(zs)
    return zs


def dyadic_sample(rng, n, shape):
    """zmin, zmax, delta and data chosen so that every float operation of the grid construction is exact:
    delta = 2^-6, zmin = 1 + 9a/1024, zmax = zmin + m*s with s = 2^-6 + 2^-j, m*2^(6-j) <= 1 (so nx = m+1 and
    the second linspace has step s), or zmax - zmin = delta/2 (nx = 1), or zmax = zmin (nx = 0)."""
    delta = Fraction(1, 64)
    a = rng.choice([0, 1, 3, 8, 20, 57])
    zmin = 1 + Fraction(9 * a, 1024)
    if n == 1:
        m, s = 0, Fraction(0)
    else:
        m = rng.choice([0, 1, 2, 3, 5, 8, 17, 33]) if n > 1 else 0
    if n > 1 and m == 0:
        zmax = zmin + delta / 2
        pool = [zmin + Fraction(i, 4096) for i in range(1, 32)]
    elif n > 1:
        j = 6 + max(0, math.ceil(math.log2(m)))
        s = Fraction(1, 64) + Fraction(1, 2 ** j)
        zmax = zmin + m * s
        pool = [zmin + delta + i * s for i in range(m)]                       # points of the second linspace
        pool += [1 + i * (zmin - 1) / 9 for i in range(10) if zmin > 1]       # points of the first (all < zmin: filtered below)
        pool += [zmin + Fraction(rng.randrange(1, 4096), 4096) * (zmax - zmin) for _ in range(n)]
        pool = [q for q in pool if zmin < q < zmax]
    else:
        zmax = zmin
        pool = []
    base = {zmin, zmax}
    rng.shuffle(pool)
    for q in pool:
        if len(base) >= n:
            break
        base.add(q)
    zs = shape_sample(rng, sorted(base), shape)
    return delta, [float(q) for q in zs]



def structure_stable(zs, delta, min_nz):
    """does the grid of get_pred have the same number of distinct nodes when computed in double arithmetic and exactly (on the same
    doubles)?  Harness-side choice of inputs; neither computation is the implementation."""
    def lin(a, b, n, one):
        if n == 0:
            return []
        if n == 1:
            return [a]
        step = (b - a) / (n - 1)
        return [i * step + a for i in range(n - 1)] + [b]
    zf = [float(z) for z in zs]
    nf = math.ceil((max(zf) - min(zf)) / delta)
    gf = set(lin(1.0, min(zf), min_nz, 1.0) + lin(min(zf) + delta, max(zf) + delta, nf, 1.0) + zf)
    ze = [Fraction(z) for z in zf]
    de = Fraction(delta)
    ne = math.ceil((max(ze) - min(ze)) / de)
    ge = set(lin(Fraction(1), min(ze), min_nz, 1) + lin(min(ze) + de, max(ze) + de, ne, 1) + ze)
    return nf == ne and len(gf) == len(ge)


def float_sample(rng, n, shape, lo=1.01, hi=3.3):
    base = sorted({round(rng.uniform(lo, hi), rng.choice([3, 5, 17])) for _ in range(n)})
    if "siblings" in shape:
        # distinct redshifts a few parts in a million apart (sibling supernovae), also at low redshift where one such step changes
        # the distance modulus by a millimagnitude: every datum must get the integral up to ITS OWN redshift
        base = sorted(set(base) | {1.0102, 1.010207} | {q + rng.choice([3e-6, 7e-6]) for q in rng.sample(base, max(1, len(base) // 3))})
    return shape_sample(rng, base, shape)


def params_for(rng, fam, scale=1):
    npar = FAMS[fam][1]
    return [scale * rng.randint(1, 24) / 8.0 for _ in range(npar)]


SHAPES = ["sorted", "unsorted", "dups", "dups-unsorted"]


# ---------------------------------------------------------------- running both sides
def run_impl(ctx, jobs):
    rc, out, err = esrv.run_py(ctx.scratch, IMPL, ["jobs"], stdin=json.dumps(jobs), timeout=1500)
    if rc != 0:
        raise RuntimeError("c19_impl jobs failed: " + err[-1500:])
    return json.loads(out)


def run_model(jobs, results, shard=40, workers=6):
    """Evaluate the Q model on every job (vm_compute); shards are balanced by estimated cost and run concurrently."""
    from concurrent.futures import ThreadPoolExecutor

    def cost(j):
        c = 1
        for call, r in zip(jobs[j]["calls"], results[j]):
            g = len(r["data_x"] or [])
            c += g * (len(call.get("zs", [])) + 20) * (1 if jobs[j]["tol"] == "0" else 6)
        return c
    order = sorted(range(len(jobs)), key=cost, reverse=True)
    nsh = max(workers, (len(jobs) + shard - 1) // shard)
    shards = [[] for _ in range(nsh)]
    load = [0] * nsh
    for j in order:
        k = load.index(min(load))
        shards[k].append(j)
        load[k] += cost(j)
    shards = [sh for sh in shards if sh]

    def one(sh):
        txt = PRELUDE + "\n".join(model_job_text(j, jobs[j], results[j]) for j in sh)
        if os.environ.get("C19_DUMP"):
            with open(os.environ["C19_DUMP"] + ".%d" % sh[0], "w") as f:
                f.write(txt)
        rc, out = esrv.coq_run(txt, timeout=2400)
        if rc != 0:
            raise RuntimeError("coq model evaluation failed: " + out[-1500:])
        return parse_coq(out)
    got = {}
    with ThreadPoolExecutor(max_workers=workers) as ex:
        for d in ex.map(one, shards):
            got.update(d)
    return got


def compare(ctx, jobs, results, model, const, tag, tolmu=1e-12):
    rep = ctx.report
    nbad = 0
    for j, job in enumerate(jobs):
        if j not in model:
            rep.fail("broken-correspondence", "no model output for job %d" % j, "C19:%s-corr" % tag, theorem="Trapz.get_pred_dl vs get_pred")
            continue
        for k, (call, r, mo) in enumerate(zip(job["calls"], results[j], model[j])):
            gridok, maskok, mval = mo
            what = None
            if not gridok:
                what = "cached grid data_x differs from the model's grid"
            elif not maskok:
                what = "data_mask differs from the model's mask"
            elif call["op"] == "pred" and not r.get("integrated"):
                if mval is None:
                    if r["exc"] is None:
                        what = "model predicts an exception, implementation returned a value"
                else:
                    if r["exc"] is not None:
                        what = "implementation raised %s, model returns a value" % r["exc"]
                    else:
                        mus = [unhex(t) for t in r["mu"]]
                        exp = [mu_from_dl(n, d, const) for n, d in mval[1]]
                        if len(mus) != len(exp):
                            what = "length of the result differs: %d vs model %d" % (len(mus), len(exp))
                        else:
                            for a, b in zip(mus, exp):
                                if not (a == b or abs(a - b) <= tolmu):
                                    what = "mu differs from the model: %r vs %r" % (a, b)
                                    break
            if what and nbad < 3:
                nbad += 1
                rep.fail("broken-correspondence", "%s (job %s, call %d)" % (what, job.get("tag"), k), "C19:%s-corr" % tag,
                         observed={"call": call, "impl": {kk: (vv if not isinstance(vv, list) else vv[:12]) for kk, vv in r.items()},
                                   "model": str(mo)[:600]},
                         theorem="Model/Trapz.v get_pred_dl / clear_data vs PanthLikelihood.get_pred / clear_data")
    return nbad


def predcall(zs, fam, params, try_integration=False, tmax=5):
    return {"op": "pred", "zs": [hx(z) for z in zs], "fam": fam, "fstr": FAMS[fam][0], "params": [hx(p) for p in params],
            "try_integration": try_integration, "tmax": tmax}


def get_consts(ctx):
    if getattr(ctx, "c19_consts", None) is None:
        rc, out, err = esrv.run_py(ctx.scratch, IMPL, ["consts"], timeout=300)
        if rc != 0:
            raise RuntimeError("c19_impl consts failed: " + (err or out)[-800:])
        ctx.c19_consts = json.loads(out)
    return ctx.c19_consts


def correspondence(ctx):
    rep = ctx.report
    quick = ctx.quick
    try:
        C = get_consts(ctx)
    except RuntimeError as e:
        rep.fail("broken-correspondence", "cannot read the attributes __init__/clear_data set: %s" % e, "C19:init-consts",
                 theorem="instance set-up (object.__new__ + attributes of __init__)")
        return
    for e in C.get("errors", []):
        rep.fail("broken-correspondence", "PanthLikelihood.__init__/clear_data no longer has the modelled shape: %s" % e, "C19:init-consts",
                 observed=C, theorem="instance set-up / cache_empty / clear_data")
    for k, v in EXPECT_SRC.items():
        if k in C and C.get(k) != v:
            rep.fail("broken-correspondence", "PanthLikelihood.__init__/clear_data changed: %s is %r, the model assumes %r" % (k, C.get(k), v),
                     "C19:init-consts", observed=C, theorem="instance set-up / cache_empty / clear_data")
    if not (isinstance(C.get("delta_z"), float) and C["delta_z"] > 0 and isinstance(C.get("min_nz"), int) and C["min_nz"] >= 1):
        rep.fail("broken-correspondence", "delta_z / min_nz outside the theorems' hypotheses: %r %r" % (C.get("delta_z"), C.get("min_nz")),
                 "C19:init-consts", theorem="hypotheses 0 < delta_z, 1 <= min_nz")
        C = dict(C, delta_z=0.02, min_nz=10)   # carry on with the documented values so that the comparison still runs
    const = unhex(C["mu_const"])
    delta_real, min_nz = C["delta_z"], C["min_nz"]
    rng = esrv.rng(ctx.seed, "c19-corr")
    jobs = []
    # A. dyadic family: grid compared EXACTLY
    ns = [1, 2, 3, 5, 8, 13, 21, 40] if quick else [1, 2, 3, 4, 5, 8, 13, 21, 40, 75, 120, 200]
    fams = ["lcdm", "const", "sq", "invsq", "cubic", "lin", "quart"]
    for n in ns:
        for shape in SHAPES:
            if n == 1 and shape != "sorted":
                continue
            for rep_i in range(1 if quick else 2):
                d, zs = dyadic_sample(rng, n, shape)
                fam = rng.choice(fams)
                jobs.append({"tag": "dyadic/%d/%s" % (n, shape), "delta": hx(d), "min_nz": min_nz, "tol": "0",
                             "calls": [predcall(zs, fam, params_for(rng, fam))], "kind": "dyadic", "shape": shape, "n": n})
    # B. the constructor's delta_z, arbitrary floats: grid compared to 1e-12
    ns = [1, 2, 3, 7, 19, 33] if quick else [1, 2, 3, 7, 19, 40, 99, 200]
    for n in ns:
        for shape in SHAPES + (["siblings-unsorted"] if n >= 7 else []):
            if n == 1 and shape != "sorted":
                continue
            for _try in range(50):
                zs = float_sample(rng, n, shape)
                if rng.random() < 0.3:
                    zs[rng.randrange(len(zs))] = 1.0          # datum exactly 1: dL = 0, mu = -inf
                # The grid is built in DOUBLE arithmetic; the model computes it exactly on the same doubles.  Float rounding is
                # validated, not modelled, so samples on which rounding changes the STRUCTURE of the grid are not used for the
                # comparison: the node count ceil((zmax - zmin)/delta_z) (zmin = 1, zmax = 3.2: the double quotient is 110.0, the
                # exact one 110.0000000000000066), or a datum that equals a grid node as a double but not exactly (1.02 vs 1 + 0.02).
                if structure_stable(zs, delta_real, min_nz):
                    break
            fam = rng.choice(fams)
            jobs.append({"tag": "real-delta/%d/%s" % (n, shape), "delta": hx(delta_real), "min_nz": min_nz, "tol": "(1 # 1000000000000)",
                         "calls": [predcall(zs, fam, params_for(rng, fam))], "kind": "float", "shape": shape, "n": n})
    # C. cache sequences (dyadic, exact)
    seqs = []
    for trial in range(3 if quick else 10):
        n1, n2 = rng.choice([(1, 1), (1, 4), (4, 1), (5, 5), (5, 3), (3, 7), (6, 6)])
        d, z1 = dyadic_sample(rng, n1, rng.choice(SHAPES) if n1 > 1 else "sorted")
        _, z2 = dyadic_sample(rng, n2, rng.choice(SHAPES) if n2 > 1 else "sorted")
        fam = rng.choice(["lcdm", "const", "sq"])
        pr = params_for(rng, fam)
        fam2 = rng.choice(["lcdm", "cubic"])
        pr2 = params_for(rng, fam2)
        for clear in (True, False):
            calls = [predcall(z1, fam, pr)] + ([{"op": "clear"}] if clear else []) + [predcall(z2, fam2, pr2), predcall(z2, fam, pr)]
            seqs.append({"tag": "cache/%s/%d-%d" % ("clear" if clear else "noclear", n1, n2), "delta": hx(d), "min_nz": min_nz,
                         "tol": "0", "calls": calls, "kind": "cache", "clear": clear, "n": n1 + n2, "shape": "seq"})
    # empty argument on a fresh instance / on a filled cache
    d, z1 = dyadic_sample(rng, 3, "sorted")
    seqs.append({"tag": "cache/empty-first", "delta": hx(d), "min_nz": min_nz, "tol": "0", "kind": "cache", "n": 3, "shape": "seq",
                 "calls": [predcall([], "const", [2.0]), predcall(z1, "lcdm", [0.5, 1.5]), predcall([], "const", [2.0])]})
    # integrated=True between numeric calls does not touch the cache
    seqs.append({"tag": "cache/integrated-between", "delta": hx(d), "min_nz": min_nz, "tol": "0", "kind": "cache", "n": 3, "shape": "seq",
                 "calls": [predcall(z1, "sq", [2.0], True), predcall(z1, "lcdm", [0.5, 1.5]), predcall(z1[:2], "cube", [1.5], True),
                           {"op": "clear"}, predcall(z1, "mono1", [0.75], True)]})
    jobs += seqs
    # D. thorough: the real redshift column
    if not quick:
        rc, out, err = esrv.run_py(ctx.scratch, IMPL, ["xvar"], timeout=300)
        if rc == 0:
            xv = [unhex(t) for t in json.loads(out)["xvar"]]
            ctx.c19_xvar = xv
            jobs.append({"tag": "pantheon-redshifts/%d" % len(xv), "delta": hx(delta_real), "min_nz": min_nz, "tol": "(1 # 1000000000000)",
                         "calls": [predcall(xv, "lcdm", [0.3 * 4900, 0.7 * 4900])], "kind": "float", "shape": "dups", "n": len(xv)})
        else:
            rep.fail("broken-correspondence", "cannot read the shipped Pantheon+SH0ES.dat redshift column", "C19:xvar", observed=err[-800:],
                     theorem="real redshift sample")
    try:
        t0 = time.time()
        results = run_impl(ctx, jobs)
        t1 = time.time()
        model = run_model(jobs, results, shard=30)
        rep.extra["timing_s"] = {"impl_jobs": round(t1 - t0, 1), "coq_model": round(time.time() - t1, 1)}
    except RuntimeError as e:
        rep.fail("broken-correspondence", str(e)[:1500], "C19:corr-driver", theorem="correspondence driver")
        return
    compare(ctx, jobs, results, model, const, "grid-mask-mu", tolmu=1e-12)
    for j, job in enumerate(jobs):
        r0 = results[j]
        rep.case(key=(job["tag"], j), nontrivial=(job["n"] > 1 and job["shape"] != "sorted"),
                 sample={"tag": job["tag"], "zp1": [unhex(t) for t in job["calls"][0].get("zs", [])][:8],
                         "H2": job["calls"][0].get("fstr"), "params": [unhex(t) for t in job["calls"][0].get("params", [])],
                         "grid_points": None if r0[0]["data_x"] is None else len(r0[0]["data_x"]),
                         "mask": (r0[0]["data_mask"] or [])[:8] if r0[0]["data_mask"] != "ragged" else "ragged",
                         "mu": [unhex(t) for t in r0[0].get("mu", [])][:4]})
    rep.traces += sum(len(j["calls"]) for j in jobs)
    # what the stale-cache sequences look like on the real class (recorded, not a failure: proved as C19_cache_reused_without_clear)
    stale = []
    for j, job in enumerate(jobs):
        if job["kind"] == "cache" and job.get("clear") is False:
            r = results[j]
            stale.append({"tag": job["tag"], "second_call_exc": r[1]["exc"], "grid_rebuilt": r[1]["data_x"] != r[0]["data_x"]})
    rep.extra["stale_cache_observed"] = stale[:6]
    # E. analytic path (integrated=True) versus numeric path, within the proved bound
    t2 = time.time()
    analytic(ctx, const, delta_real, min_nz, rng)
    rep.extra.setdefault("timing_s", {})["analytic"] = round(time.time() - t2, 1)
    # F. thorough: the real constructor
    if not quick:
        real_ctor(ctx, C)
    rep.rule = ("dyadic: zmin=1+9a/1024, delta=2^-6, zmax-zmin=m*(2^-6+2^-j) (all float ops exact) -> grid/mask compared exactly in Coq; "
                "real-delta: delta_z from __init__, random floats in [1.01,3.3] (30%% with a datum = 1) -> grid to 1e-12; n in %s; shapes sorted/"
                "unsorted/dups/dups-unsorted; H^2 from {a0, a0 x^3+a1, a0 x^2, a0/x^2, a0x^3+a1x^2+a2, a0x+a1, a0x^4+a1x} built by run_sympify+"
                "lambdify, parameters k/8; cache sequences pred;[clear;]pred;pred with equal/different/length-1/empty arguments; "
                "mu compared to 1e-12 with the Q model (vm_compute, 1/sqrt to 2^-128, log10 by mpmath)" % ns)
    rep.exhaustive = False


# ---------------------------------------------------------------- interval bounds and quadrature (specification side)
def iv_bounds(terms, params, zmax, nsub=256):
    """Rigorous sup over [1, x_k] of |g'| and |g''| for g = (H^2)^(-1/2), H^2 = sum a_i x^k_i, by interval arithmetic.
    Returns (edges, cumL, cumK)."""
    from mpmath import iv
    iv.dps = 30
    edges = [1 + (zmax - 1) * i / nsub for i in range(nsub + 1)]
    cumL, cumK = [], []
    L = K = 0.0
    for i in range(nsub):
        X = iv.mpf([edges[i], edges[i + 1]])
        H, H1, H2 = h_derivs(terms, params, X, iv)
        if not (H.a > 0):
            raise ValueError("H^2 not positive")
        sH = iv.sqrt(H)
        g1 = -H1 / (2 * H * sH)
        g2 = -H2 / (2 * H * sH) + 3 * H1 * H1 / (4 * H * H * sH)
        L = max(L, float(abs(g1).b))
        K = max(K, float(abs(g2).b))
        cumL.append(L * (1 + 1e-12))
        cumK.append(K * (1 + 1e-12))
    return edges, cumL, cumK


def spec_mu(terms, params, zs, const):
    """5 log10(z * int_1^z dx/sqrt(H^2(x))) + const by mpmath.quad (30 digits). Returns (mu list, I list)."""
    import mpmath as mp
    mp.mp.dps = 30
    def g(x):
        return 1 / mp.sqrt(h_derivs(terms, params, x, mp.mp)[0])
    uniq = sorted(set(zs))
    I = {}
    acc = mp.mpf(0)
    prev = mp.mpf(1)
    for z in uniq:
        zz = mp.mpf(z)
        if zz > prev:
            acc += mp.quad(g, [prev, zz])
            prev = zz
        elif zz < prev:
            raise ValueError("datum below 1")
        I[z] = acc
    mus, Is = [], []
    for z in zs:
        Iz = I[z]
        Is.append(Iz)
        mus.append(-math.inf if Iz == 0 else float(5 * mp.log10(mp.mpf(z) * Iz) + mp.mpf(const)))
    return mus, Is


def proved_tol(terms, params, zs, Is, delta, min_nz, second_order=True):
    """tolerance on mu per datum from C19_mu_prediction_bound (+ the second-order variant):
    eps = min(L h (z-1)/2, K h^2 (z-1)/12), tol = 5/ln10 * eps/(I-eps);
    h <= max((zmin-1)/(min_nz-1), 2 delta) by construction of the grid."""
    zmin, zmax = min(zs), max(zs)
    h = max((zmin - 1) / max(min_nz - 1, 1), 2 * delta)
    if zmax <= 1:
        return [0.0 for _ in zs], h
    edges, cumL, cumK = iv_bounds(terms, params, zmax)
    tols = []
    for z, I in zip(zs, Is):
        if z <= 1:
            tols.append(0.0)
            continue
        i = min(len(cumL) - 1, max(0, int(math.ceil((z - 1) / (zmax - 1) * len(cumL))) - 1))
        while edges[i + 1] < z and i + 1 < len(cumL):
            i += 1
        e1 = cumL[i] * h * (z - 1) / 2
        e2 = cumK[i] * h * h * (z - 1) / 12
        eps = min(e1, e2) if second_order else e1
        I = float(I)
        tols.append(math.inf if eps >= I else 5 / math.log(10) * eps / (I - eps))
    return tols, h


HAVE_C2 = True


def analytic(ctx, const, delta_real, min_nz, rng):
    rep = ctx.report
    jobs = []
    fams = INTEGRABLE if not ctx.quick else ["const", "sq", "cube", "mono1", "invx"]
    for fam in fams:
        n = rng.choice([1, 4, 11])
        zs = float_sample(rng, n, rng.choice(SHAPES))
        pr = params_for(rng, fam)
        jobs.append({"tag": "analytic/%s" % fam, "delta": hx(delta_real), "min_nz": min_nz, "tol": "0", "fam": fam, "zs": zs, "params": pr,
                     "calls": [predcall(zs, fam, pr, True), predcall(zs, fam, pr, False)]})
    for fam, pr in GUARDED:   # both tiers: antiderivatives with a guarded special case, at and off the special parameter value
        zs = float_sample(rng, rng.choice([3, 6]), rng.choice(SHAPES))
        jobs.append({"tag": "analytic/%s%r" % (fam, pr), "delta": hx(delta_real), "min_nz": min_nz, "tol": "0", "fam": fam, "zs": zs, "params": pr,
                     "guarded": True, "calls": [predcall(zs, fam, pr, True, tmax=20), predcall(zs, fam, pr, False)]})
    if not ctx.quick:
        for fam in ["lcdm", "lin"]:   # sympy does not integrate these: integrated must come back False and the numeric path is used
            zs = float_sample(rng, 5, "unsorted")
            pr = params_for(rng, fam)
            jobs.append({"tag": "analytic/%s" % fam, "delta": hx(delta_real), "min_nz": min_nz, "tol": "0", "fam": fam, "zs": zs, "params": pr,
                         "calls": [predcall(zs, fam, pr, True), predcall(zs, fam, pr, False)]})
    try:
        results = run_impl(ctx, jobs)
    except RuntimeError as e:
        rep.fail("broken-correspondence", str(e)[:1500], "C19:analytic-driver", theorem="analytic path driver")
        return
    ctx.c19_analytic = []
    for job, r in zip(jobs, results):
        a, b = r
        rep.case(key=job["tag"], nontrivial=bool(a.get("integrated")), sample={"tag": job["tag"], "integrated": a.get("integrated"),
                                                                               "antiderivative": a.get("eq"), "zp1": job["zs"][:5]})
        if a["exc"] or b["exc"]:
            rep.fail("broken-correspondence", "get_pred raised on the analytic-path case %s: %s / %s" % (job["tag"], a["exc"], b["exc"]),
                     "C19:analytic-corr", observed=[a.get("msg"), b.get("msg")], theorem="C19_analytic_vs_numeric")
            continue
        if a.get("integrated") and a["data_x"] is not None:
            rep.fail("broken-correspondence", "integrated=True call filled the cache (model: cache untouched)", "C19:analytic-corr",
                     theorem="get_pred_dl_integrated")
        ma, mb = [unhex(t) for t in a["mu"]], [unhex(t) for t in b["mu"]]
        terms = FAMS[job["fam"]][2]
        if job.get("guarded") and not a.get("integrated"):
            rep.extra.setdefault("guarded_not_integrated", []).append(job["tag"])
        mus, Is = spec_mu(terms, job["params"], job["zs"], const)
        tols, h = proved_tol(terms, job["params"], job["zs"], Is, delta_real, min_nz, HAVE_C2)
        ctx.c19_analytic.append((job, a, mus))
        rep.traces += 2
        for z, x, y, t in zip(job["zs"], ma, mb, tols):
            # the analytic value is exact (C19_integrated_path_exact), the numeric one within the proved bound of it
            if not (x == y or abs(x - y) <= t + 1e-9):
                rep.fail("broken-correspondence", "analytic and numeric paths differ by more than the proved quadrature bound at 1+z=%r: %r vs %r (bound %g)"
                         % (z, x, y, t), "C19:analytic-corr", observed={"job": job["tag"], "antiderivative": a.get("eq")},
                         theorem="C19_analytic_vs_numeric")
                break


def real_ctor(ctx, C):
    rep = ctx.report
    rc, out, err = esrv.run_py(ctx.scratch, IMPL, ["ctor"], timeout=1500)
    if rc != 0:
        rep.fail("broken-correspondence", "the real PanthLikelihood() constructor (synthetic identity covariance, read_csv shim) failed",
                 "C19:ctor", observed=err[-1500:], theorem="instance set-up")
        return
    R = json.loads(out)
    bad = []
    if unhex(R["delta_z"]) != C["delta_z"] or R["min_nz"] != C["min_nz"]:
        bad.append("delta_z/min_nz")
    if R["data_x"] is not None or R["data_mask"] is not None:
        bad.append("initial cache not None")
    if R["mu_const"] != C["mu_const"]:
        bad.append("mu_const")
    xv = getattr(ctx, "c19_xvar", None)
    if xv is not None and [unhex(t) for t in R["xvar"]] != xv:
        bad.append("xvar")
    if min(unhex(t) for t in R["xvar"]) < 1:
        bad.append("xvar below 1")
    if R["mu"] != R["mu_again"]:
        bad.append("second call with the same argument differs")
    rep.case(key="real-ctor", sample={"n": len(R["xvar"]), "delta_z": unhex(R["delta_z"]), "min_nz": R["min_nz"],
                                      "mu_const": unhex(R["mu_const"]), "nll": unhex(R["nll"])})
    ctx.c19_ctor = R
    if bad:
        rep.fail("broken-correspondence", "real constructor disagrees with the attributes used for object.__new__ instances: %s" % bad,
                 "C19:ctor", observed={k: R[k] for k in ("delta_z", "min_nz", "mu_const")}, theorem="instance set-up")


# ---------------------------------------------------------------- search: the property on the real method
def search(ctx):
    rep = ctx.report
    tS = time.time()
    try:
        C = get_consts(ctx)
    except RuntimeError as e:
        rep.fail("broken-correspondence", "cannot read __init__ constants: %s" % e, "C19:init-consts", theorem="search set-up")
        return
    const = unhex(C["mu_const"])
    delta, min_nz = C.get("delta_z"), C.get("min_nz")
    if not (isinstance(delta, float) and delta > 0 and isinstance(min_nz, int) and min_nz >= 2):
        delta, min_nz = 0.02, 10
    delta_spec, min_nz_spec = delta, min_nz
    # the constant itself: 5 log10(c / (1 km/s/Mpc) / 10 pc)
    import mpmath as mp
    mp.mp.dps = 30
    want = float(5 * mp.log10(mp.mpf("299792.458") * mp.mpf(10) ** 6 / 10))
    if abs(const - want) > 1e-9:
        rep.fail("failing-input", "mu_const is %r, expected 5 log10(c/H_fid/10pc) = %r" % (const, want), "C19:mu-const",
                 input="PanthLikelihood.__init__", observed=const, expected=want)
    rng = esrv.rng(ctx.seed, "c19-search")
    jobs = []
    fams = ["lcdm", "const", "sq", "cubic", "lin", "quart", "cube", "mono1"]
    ns = [1, 2, 5, 12, 40] if ctx.quick else [1, 2, 3, 5, 12, 40, 100, 200]
    for n in ns:
        for shape in SHAPES + (["siblings-unsorted", "siblings-dups-unsorted"] if n >= 5 else []):
            if n == 1 and shape != "sorted":
                continue
            zs = float_sample(rng, n, shape, lo=1.0005, hi=rng.choice([1.2, 2.0, 3.3]))
            fam = rng.choice(fams)
            scale = rng.choice([1, 4900])
            pr = params_for(rng, fam, scale)
            jobs.append({"tag": "%s/%d/%s" % (fam, n, shape), "fam": fam, "zs": zs, "params": pr, "n": n, "shape": shape,
                         "delta": hx(delta), "min_nz": min_nz,
                         "calls": [predcall(zs, fam, pr)]})
    # clear_data between different arguments: second answer must satisfy the property for ITS argument
    for t in range(2 if ctx.quick else 6):
        z1 = float_sample(rng, rng.choice([1, 6]), "unsorted")
        z2 = float_sample(rng, rng.choice([1, 6, 9]), "dups-unsorted")
        fam = rng.choice(["lcdm", "cubic"])
        pr = params_for(rng, fam)
        jobs.append({"tag": "after-clear/%d" % t, "fam": fam, "zs": z2, "params": pr, "n": len(z2), "shape": "seq", "take": 2,
                     "delta": hx(delta), "min_nz": min_nz, "calls": [predcall(z1, "sq", [2.0]), {"op": "clear"}, predcall(z2, fam, pr)]})
    # the same redshifts in another order after clear_data(), and on a NEW instance later in the same process: same minimum, maximum
    # and length, different positions -- a grid or mask remembered under such a summary would be stale
    for t in range(2 if ctx.quick else 6):
        z1 = float_sample(rng, rng.choice([5, 8]), "sorted")
        z2 = list(z1)
        while z2 == z1:
            rng.shuffle(z2)
        z3 = list(reversed(z1))
        fam = rng.choice(["lcdm", "cubic"])
        pr = params_for(rng, fam)
        jobs.append({"tag": "clear-permuted/%d" % t, "fam": fam, "zs": z2, "params": pr, "n": len(z2), "shape": "seq", "take": 2,
                     "delta": hx(delta), "min_nz": min_nz, "calls": [predcall(z1, fam, pr), {"op": "clear"}, predcall(z2, fam, pr)]})
        jobs.append({"tag": "new-instance-permuted/%d" % t, "fam": fam, "zs": z3, "params": pr, "n": len(z3), "shape": "unsorted",
                     "delta": hx(delta), "min_nz": min_nz, "calls": [predcall(z3, fam, pr)]})
    # H^2 with a negative coefficient that stays positive on the data range (closed universe, falling quadratic), analytic attempt on:
    # whatever run_sympify decides, the prediction is that of the function
    for fam, pr in (("negquad", [1.3, -0.3]), ("negsq", [20.0, -1.2]), ("negquad", [2.0, -0.5])):
        zs = float_sample(rng, 5, "dups-unsorted", lo=1.01, hi=2.9)
        jobs.append({"tag": "negative-coefficient/%s%r" % (fam, pr), "fam": fam, "zs": zs, "params": pr, "n": 5, "shape": "dups-unsorted",
                     "delta": hx(delta), "min_nz": min_nz, "calls": [predcall(zs, fam, pr, True, tmax=5)]})
    xv = getattr(ctx, "c19_xvar", None)
    if xv is None:
        rc, out, err = esrv.run_py(ctx.scratch, IMPL, ["xvar"], timeout=300)
        if rc == 0:
            xv = [unhex(t) for t in json.loads(out)["xvar"]]
    if xv is not None:
        sub = xv if not ctx.quick else xv[::13]
        pr = [0.3 * 4900, 0.7 * 4900]
        jobs.append({"tag": "pantheon-redshifts/%d/lcdm" % len(sub), "fam": "lcdm", "zs": sub, "params": pr, "n": len(sub), "shape": "dups",
                     "delta": hx(delta), "min_nz": min_nz, "calls": [predcall(sub, "lcdm", pr)]})
    # analytic path against the defining integral (exact up to rounding)
    for fam in (INTEGRABLE if not ctx.quick else ["sq", "cube", "invx"]):
        zs = float_sample(rng, 6, "dups-unsorted")
        pr = params_for(rng, fam)
        jobs.append({"tag": "integrated/%s" % fam, "fam": fam, "zs": zs, "params": pr, "n": 6, "shape": "dups-unsorted", "integrated": True,
                     "delta": hx(delta), "min_nz": min_nz, "calls": [predcall(zs, fam, pr, True)]})
    for fam, pr in GUARDED:   # both tiers
        zs = float_sample(rng, 5, "dups-unsorted")
        jobs.append({"tag": "integrated/%s%r" % (fam, pr), "fam": fam, "zs": zs, "params": pr, "n": 5, "shape": "dups-unsorted", "integrated": True,
                     "delta": hx(delta), "min_nz": min_nz, "calls": [predcall(zs, fam, pr, True, tmax=20)]})
    # the analytic attempt fails (unevaluated Integral / time limit): the prediction must still be that of the function given
    for fam in ["fcubic", "fquart"]:
        zs = float_sample(rng, 5, "dups-unsorted")
        pr = [rng.randint(3, 40) / 4.0]
        jobs.append({"tag": "integration-fails/%s" % fam, "fam": fam, "zs": zs, "params": pr, "n": 5, "shape": "dups-unsorted",
                     "delta": hx(delta), "min_nz": min_nz, "calls": [predcall(zs, fam, pr, True, tmax=3)]})
    try:
        results = run_impl(ctx, jobs)
    except RuntimeError as e:
        rep.fail("broken-correspondence", str(e)[:1500], "C19:search-driver", theorem="search driver")
        return
    nfail = 0
    worst = 0.0
    for job, res in zip(jobs, results):
        r = res[job.get("take", 0)]
        terms = FAMS[job["fam"]][2]
        zs = job["zs"]
        rep.case(key=("search", job["tag"]), nontrivial=(job["n"] > 1), sample=None)
        if r["exc"] is not None:
            if nfail < 3:
                nfail += 1
                rep.fail("failing-input", "get_pred raised %s: %s" % (r["exc"], r.get("msg")), "C19:mu:exception",
                         input={"H2": FAMS[job["fam"]][0], "params": job["params"], "zp1": zs}, observed=r["exc"], expected="a prediction")
            continue
        got = [unhex(t) for t in r["mu"]]
        mus, Is = spec_mu(terms, job["params"], zs, const)
        if job.get("integrated"):
            if not r.get("integrated"):
                continue   # sympy did not integrate: nothing to say about the analytic path
            tols = [0.0] * len(zs)
            h = 0.0
        else:
            tols, h = proved_tol(terms, job["params"], zs, Is, delta_spec, min_nz_spec, HAVE_C2)
        if len(got) != len(zs):
            if nfail < 3:
                nfail += 1
                rep.fail("failing-input", "get_pred returned %d values for %d redshifts" % (len(got), len(zs)), "C19:mu:shape",
                         input={"H2": FAMS[job["fam"]][0], "params": job["params"], "zp1": zs}, observed=got[:20], expected=mus[:20])
            continue
        for i, (z, a, b, t) in enumerate(zip(zs, got, mus, tols)):
            if a == b:
                continue
            err = abs(a - b)
            if not (err <= t + 1e-9):   # also catches NaN
                if nfail < 3:
                    nfail += 1
                    rep.fail("failing-input", "mu at 1+z=%r is %r; 5 log10((1+z) Int_1^(1+z) dx/sqrt(H2)) + const = %r; difference %.3g exceeds "
                             "the proved quadrature bound %.3g (+1e-9) [%s]" % (z, a, b, err, t, job["tag"]),
                             "C19:mu:integrated-path" if job.get("integrated") else "C19:mu:quadrature-bound",
                             input={"H2": FAMS[job["fam"]][0], "params": job["params"], "zp1": zs, "index": i,
                                    "calls": [c["op"] for c in job["calls"]], "delta_z": delta, "min_nz": min_nz},
                             observed=a, expected=b)
                break
            if t > 0 and math.isfinite(t):
                worst = max(worst, err / (t + 1e-9))
        # the grid actually used must be no coarser than the bound h used for the tolerance
        if not job.get("integrated") and r["data_x"]:
            xs = [unhex(t) for t in r["data_x"]]
            hh = max([b - a for a, b in zip(xs, xs[1:])] or [0.0])
            if hh > h * (1 + 1e-9) or (min(zs) >= 1 and xs[0] != 1.0):
                if nfail < 3:
                    nfail += 1
                    rep.fail("failing-input", "integration grid starts at %r with largest cell %r (specified: starts at 1, cells <= %r)" % (xs[0], hh, h),
                             "C19:grid:too-coarse", input={"zp1": zs, "delta_z": delta, "min_nz": min_nz}, observed=[xs[0], hh], expected=[1.0, h])
    rep.extra.setdefault("timing_s", {})["search"] = round(time.time() - tS, 1)
    rep.extra["search_worst_error_over_bound"] = worst
    rep.extra["second_order_bound_used"] = HAVE_C2
    # boundary probe: a datum below 1 (negative redshift).  Proved: C19_grid_starts_below_one.
    pj = [{"tag": "below-one", "delta": hx(delta), "min_nz": min_nz, "calls": [predcall([0.9, 1.5], "const", [1.0])]}]
    try:
        pr = run_impl(ctx, pj)[0][0]
        got = [unhex(t) for t in pr["mu"]] if pr["exc"] is None else pr["exc"]
        want = float(5 * mp.log10(mp.mpf(1.5) * mp.mpf(0.5)) + const)
        rep.extra["below_one_probe"] = {"zp1": [0.9, 1.5], "H2": "1", "returned_mu": got, "defining_integral_mu_at_1.5": want,
                                        "grid_start": None if not pr["data_x"] else unhex(pr["data_x"][0])}
        if REPORT_BELOW_ONE and pr["exc"] is None and abs(got[1] - want) > 1e-6:
            rep.fail("failing-input", "with a datum 1+z<1 in the sample the integrals start at that datum: mu(1.5) = %r, defining integral gives %r"
                     % (got[1], want), "C19:grid:datum-below-one", input={"H2": "a0", "params": [1.0], "zp1": [0.9, 1.5]},
                     observed=got, expected=[math.nan, want])
    except RuntimeError:
        pass
