"""C05 -- fitted parameters transfer exactly from a unique function to its variants (esr/fitting/match.py)."""
import ast
import json
import math
import os
import re
import shutil
from fractions import Fraction as Fr

import esrv

PROPS_V = "Props/C05.v"
# functions the hand-written model of this property was written against (normalised source stored under harness/corr/guards/;
# a difference is reported as broken-correspondence: the theorems then no longer speak about the current source)
SOURCE_GUARDS = [
    ("esr/fitting/match.py", "main"),
    ("esr/generation/simplifier.py", "convert_params"),
]

TRANSLATORS = []
IMPL = os.path.join(esrv.VERIF, "harness", "corr", "c05_impl.py")
MARK = "@@C05JSON@@"
KEY_STALE = "C05:reeval-exception:stale-likelihood"
KEY_SEARCH = "C05:subset-search:inner-break-discards-larger-subset"

INF, NINF, NAN = "inf", "-inf", "nan"
SPECIAL = (INF, NINF, NAN)


# ------------------------------------------------------------------ numbers
def survives(v):
    """Fraction v is a double and is written exactly by '%.7e'"""
    f = float(v)
    return Fr(f) == v and Fr(float("%.7e" % f)) == v


def jnum(v):
    if isinstance(v, str):
        return v
    f = float(v)
    assert Fr(f) == v, "not a double: %r" % (v,)
    return f


def cq(v):
    v = Fr(v)
    n = "%d" % v.numerator if v.numerator >= 0 else "(%d)" % v.numerator
    return "(%s # %d)%%Q" % (n, v.denominator)


def cx(v):
    if isinstance(v, str):
        return {"inf": "PInf", "-inf": "NInf", "nan": "NaN"}[v]
    return "(Fin %s)" % cq(v)


def clist(items):
    return "[" + "; ".join(items) + "]"


def pow2(e):
    return Fr(2) ** e


# ------------------------------------------------------------------ substitutions
# a monomial is (c: Fraction, j: int, inv: bool);  a dict step is [(i, mono), ...];  other steps: "nan", "raise"
def mono_expr(m):
    import sympy
    c, j, inv = m
    a = sympy.Symbol("a%d" % j, real=True)
    return sympy.Rational(c.numerator, c.denominator) * (1 / a if inv else a)


def step_text(st):
    """the text the generator writes for this step: str({symbol: expr})"""
    import sympy
    if st == "nan":
        return "nan"
    if st == "raise":
        return "{a0: verif_undefined(a0)}"
    return str({sympy.Symbol("a%d" % i, real=True): mono_expr(m) for i, m in st})


def step_coq(st):
    if st == "nan":
        return "SNan"
    if st == "raise":
        return "SRaise"
    return "SDict " + clist("(%d%%nat, mkM %s %d%%nat %s)" % (i, cq(m[0]), m[1], "true" if m[2] else "false") for i, m in st)


DY_COEF = [Fr(-1), Fr(2), Fr(1, 2), Fr(-2), Fr(-1, 2), Fr(4), Fr(1, 4), Fr(-4)]
ANY_COEF = DY_COEF + [Fr(3), Fr(1, 3), Fr(-3), Fr(-1, 3), Fr(3, 2), Fr(-2, 3)]


def gen_dict(R, n, exact):
    """one dictionary on a_0..a_{n-1}"""
    kind = R.choice(["flip", "flip", "recip", "recip", "scale", "scale", "cinv", "swap", "swap", "perm", "rename", "ident", "multi",
                     "zero", "range"])
    coef = DY_COEF if exact else ANY_COEF
    i = R.randrange(n)
    if kind == "flip":
        return [(i, (Fr(-1), i, False))]
    if kind == "recip":
        return [(i, (Fr(1), i, True))]
    if kind == "scale":
        return [(i, (R.choice(coef), i, False))]
    if kind == "cinv":
        return [(i, (R.choice(coef), i, True))]
    if kind == "ident":
        return [(i, (Fr(1), i, False))]
    if kind == "swap" and n >= 2:
        a, b = R.sample(range(n), 2)
        return [(a, (Fr(1), b, False)), (b, (Fr(1), a, False))]
    if kind == "perm" and n >= 3:
        pi = list(range(n))
        R.shuffle(pi)
        return [(a, (Fr(1), pi[a], False)) for a in range(n) if R.random() < 0.9]
    if kind == "rename" and n >= 2 and R.random() < 0.4:
        a, b = R.sample(range(n), 2)
        return [(a, (Fr(1), b, False))]                       # not injective unless undone later
    if kind == "multi":
        return [(a, (R.choice(coef), a, R.random() < 0.4)) for a in range(n) if R.random() < 0.7] or [(i, (Fr(-1), i, False))]
    if kind == "zero" and R.random() < 0.15:
        return [(i, (Fr(0), i, False))]
    if kind == "range" and R.random() < 0.3:
        return [(i, (Fr(1), n + R.randrange(2), False))]      # a_j with j >= n (may be undone by a later step)
    return [(i, (Fr(-1), i, False))]


def gen_chain(R, n, exact):
    x = R.random()
    ln = 0 if x < 0.15 else 1 if x < 0.6 else 2 if x < 0.85 else 3
    chain = [gen_dict(R, n, exact) for _ in range(ln)]
    x = R.random()
    if x < 0.10:
        chain.insert(R.randint(0, len(chain)), "nan")
    elif x < 0.13:
        chain.insert(R.randint(0, len(chain)), "raise")
    return chain


def all_dyadic(chain):
    for st in chain:
        if isinstance(st, str):
            continue
        for _, (c, _, _) in st:
            if c != 0 and (abs(c).numerator & (abs(c).numerator - 1) or abs(c).denominator & (abs(c).denominator - 1)):
                return False
    return True


# ------------------------------------------------------------------ libraries
BASES = {1: "a0*x", 2: "a0*x + a1", 3: "a0*x**2 + a1*x + a2", 0: "x"}


def gen_param(R, exact):
    """(theta, F): theta^2 F / 12 exactly 1 (kept), below (snapped) or above"""
    sg = R.choice((1, -1))
    if exact:
        a = R.randint(-5, 5)
        d = R.choice([-3, -2, -1, -1, 0, 0, 1, 2])
        lead = R.choice([12, 12, 3, 48])
        b = d - a - {12: 0, 3: -1, 48: 1}[lead]
        return sg * pow2(a), lead * pow2(2 * b)          # theta^2 F = 12 * 4^d
    while True:
        th = sg * Fr(R.randint(1, 15), 2 ** R.randint(0, 6))
        F = Fr(R.choice([1, 3, 5, 7, 10, 25, 100, 1000, 4000]), 2 ** R.randint(0, 4))
        r = th * th * F / 12
        if r <= Fr(9, 10) or r >= Fr(11, 10):
            return th, F


def gen_unique(R, maxp, exact):
    n = R.choice([1, 1, 2, 2, 2, 3, 3])
    n = min(n, maxp)
    x = R.random()
    nll = NAN if x < 0.03 else INF if x < 0.05 else NINF if x < 0.06 else Fr(R.randint(-80, 400), 8)
    th, diag = [], []
    for _ in range(n):
        while True:
            t, F = gen_param(R, exact)
            if R.random() < 0.06:
                t = Fr(0)
            if survives(t) and survives(F):
                break
        th.append(t)
        diag.append(F)
    x = R.random()
    if x < 0.04:
        diag[R.randrange(n)] = R.choice([Fr(0), -diag[0], INF, NAN])
    offmode = R.choice(["zero", "zero", "dy", "dy", "dy", "bad"]) if n > 1 else "zero"
    flat = []
    for i in range(maxp):
        for j in range(i, maxp):
            if i < n and j < n:
                if i == j:
                    flat.append(diag[i])
                elif offmode == "zero":
                    flat.append(Fr(0))
                elif offmode == "bad" and R.random() < 0.3:
                    flat.append(R.choice([NAN, INF, NINF]))
                else:
                    flat.append(Fr(R.randint(-12, 12), 4))
            else:
                flat.append(NAN if R.random() < 0.9 else Fr(0))          # test_all_Fisher leaves NaN outside the block
    return {"n": n, "nll": nll, "theta": th + [Fr(0)] * (maxp - n), "flat": flat}


def gen_table(R, n):
    tbl = {}
    mode = R.choice(["fin", "fin", "allbad", "mixed", "mixed", "mixed"])
    for mask in range(1, 2 ** n):
        key = "".join("1" if mask >> i & 1 else "0" for i in range(n))
        x = R.random()
        if mode == "fin":
            bad = x < 0.05
        elif mode == "allbad":
            bad = x < 0.95
        else:
            bad = x < 0.5
        tbl[key] = R.choice([INF, INF, INF, NAN, NINF]) if bad else Fr(R.randint(-80, 400), 8)
    dflt = R.choice([INF, NAN, Fr(R.randint(0, 99), 4)])
    return tbl, dflt


def slices(N, P):
    """test_all.get_functions: the [start, end) of every rank"""
    nLs = -(-N // P)
    while nLs * (P - 1) > N:
        nLs -= 1
    return [(r * nLs, N if r == P - 1 else (r + 1) * nLs) for r in range(P)]


def gen_lib(R, nvar, P, ids):
    maxp = R.choice([4, 4, 4, 3])
    exact = R.random() < 0.6
    U = R.randint(2, 6)
    uniques = [gen_unique(R, maxp, exact) for _ in range(U)]
    sl = slices(nvar, P)
    starts = {a for a, _ in sl}
    variants = []
    for j in range(nvar):
        u = R.randrange(U)
        nu = uniques[u]["n"]
        x = R.random()
        n = nu if x < 0.9 else R.choice([0, 1, 2, 3])
        n = min(n, maxp)
        chain = gen_chain(R, max(n, 1), exact) if n > 0 else (gen_chain(R, 1, exact) if R.random() < 0.3 else [])
        if exact and not all_dyadic(chain):
            raise AssertionError
        tbl, dflt = gen_table(R, max(n, 1))
        v = {"id": ids[0], "match": u, "n": n, "chain": chain, "table": tbl, "dflt": dflt, "sympify": "ok"}
        ids[0] += 1
        variants.append(v)
    # exceptions in run_sympify (NameError or another one): the variant gets nan, nothing is searched
    for j in range(nvar):
        if R.random() < 0.05:
            variants[j]["sympify"] = R.choice(["nameerror", "error"])
    for v in variants:
        v["fcn"] = "%s + %d" % (BASES[v["n"]], v["id"])
    return {"maxp": maxp, "exact": exact, "uniques": uniques, "variants": variants, "P": P}


def diag_of(u, maxp):
    out, pos = [], 0
    for i in range(maxp):
        if i < u["n"]:
            out.append(u["flat"][pos])
        pos += maxp - i
    return out


def block_of(u, maxp):
    out, pos = [], 0
    for i in range(maxp):
        for j in range(i, maxp):
            if i < u["n"] and j < u["n"]:
                out.append(u["flat"][pos])
            pos += 1
    return out


def impl_lib(lib):
    maxp = lib["maxp"]
    return {"max_param": maxp,
            "uniques": [{"fcn": "%s + %d" % (BASES[u["n"]], 100 + k), "nll": jnum(u["nll"]), "params": [jnum(t) for t in u["theta"]],
                         "fish": [jnum(f) for f in u["flat"]]} for k, u in enumerate(lib["uniques"])],
            "variants": [{"fcn": v["fcn"], "match": v["match"], "chain": [step_text(s) for s in v["chain"]],
                          "table": {k: jnum(x) for k, x in v["table"].items()}, "dflt": jnum(v["dflt"]),
                          "sympify": v["sympify"]} for v in lib["variants"]]}


def run_impl(ctx, libs, nranks):
    if not libs:
        return []
    wd = esrv.mkscratch("c05")
    lj = os.path.join(wd, "libs.json")
    with open(lj, "w") as f:
        json.dump([impl_lib(l) for l in libs], f)
    work = os.path.join(wd, "work")
    os.makedirs(work)
    try:
        if nranks == 1:
            rc, out, err = esrv.run_py(ctx.scratch, IMPL, ["run", lj, work], timeout=3000)
            bad = rc != 0
        else:
            res = esrv.run_mpi(ctx.scratch, IMPL, ["run", lj, work], nranks, timeout=3000)
            bad = any(r[0] != 0 for r in res)
            out, err = res[0][1], "\n".join(r[2][-600:] for r in res)
        if bad or MARK not in out:
            raise RuntimeError("c05_impl failed under %d ranks: %s" % (nranks, err[-1500:]))
        return json.loads(out.split(MARK, 1)[1])
    finally:
        shutil.rmtree(wd, ignore_errors=True)


def run_impl_parallel(ctx, jobs, workers=6, chunk=4):
    """jobs: list of (libs, nranks); returns one output list per job"""
    from concurrent.futures import ThreadPoolExecutor
    pieces = []
    for ji, (libs, nranks) in enumerate(jobs):
        for a in range(0, len(libs), chunk):
            pieces.append((ji, a, libs[a:a + chunk], nranks))
    with ThreadPoolExecutor(max_workers=workers) as ex:
        res = list(ex.map(lambda pc: run_impl(ctx, pc[2], pc[3]), pieces))
    outs = [[] for _ in jobs]
    for (ji, _, _, _), r in zip(pieces, res):
        outs[ji].extend(r)
    return outs


# ------------------------------------------------------------------ the model, evaluated by Coq
def tbl_coq(tbl):
    return clist("(%s, %s)" % (clist("true" if ch == "1" else "false" for ch in k), cx(v)) for k, v in sorted(tbl.items()))


def case_coq(lib, v):
    u = lib["uniques"][v["match"]]
    return "mkCase %d %d %s %s %s %s %s %s %s" % (
        lib["maxp"], v["n"], cx(u["nll"]), clist(cq(t) for t in u["theta"]), clist(cx(f) for f in u["flat"]),
        clist(step_coq(s) for s in v["chain"]), "true" if v["sympify"] == "ok" else "false", tbl_coq(v["table"]), cx(v["dflt"]))


def parse_coq_value(out, tag):
    flat = " ".join(out.split())
    m = re.search(r'= \("%s"(?:%%string)?, (.*?)\) : ' % tag, flat)
    if not m:
        raise RuntimeError("no %s in Coq output: %s" % (tag, out[-1500:]))
    txt = m.group(1).replace("(", "[").replace(")", "]").replace(";", ",").replace("%Z", "")
    return ast.literal_eval(txt)


def coq_rows(cases):
    """cases: list of Coq literals of type ccase -> list of enc_out values"""
    v = """From Coq Require Import QArith ZArith List String.
From ESRV Require Import Model.Subs Model.Match.
Import ListNotations.
Open Scope nat_scope.
Definition cases : list ccase := [
%s].
Open Scope Z_scope.
Eval vm_compute in ("ROWS"%%string, map (fun c => enc_out (run_case c)) cases).
""" % ";\n".join(cases)
    rc, out = esrv.coq_run(v, timeout=1500)
    if rc != 0:
        raise RuntimeError("coq evaluation failed: " + out[-2000:])
    return parse_coq_value(out, "ROWS")


def dec_x(z):
    t, n, d = z
    return {2: INF, 3: NINF, 4: NAN}.get(t) or Fr(n, d)


def dec_row(enc):
    """enc_out -> dict"""
    head, params = enc
    if head[0] != 0:
        return {"kind": {1: "irregular", 2: "quit", 3: "pyerror"}[head[0]]}
    nll = dec_x(head[1:4])
    rest = head[4:]
    if rest[0] == 0:
        cl = ("val", dec_x(rest[1:4]))
    else:
        k = rest[1]
        ts = rest[2:]
        terms = [(dec_x(ts[a:a + 3]), Fr(ts[a + 3], ts[a + 4])) for a in range(0, len(ts), 5)]
        cl = ("len", k, terms)
    return {"kind": "ret", "nll": nll, "clen": cl, "params": [Fr(a, b) for a, b in params]}


def xfloat(v):
    return float(v)


def np_log(v):
    """np.log on a float-or-special value"""
    f = xfloat(v)
    if math.isnan(f):
        return f
    if f == 0:
        return -math.inf
    if f < 0:
        return math.nan
    if math.isinf(f):
        return math.inf
    return math.log(f)


def clen_value(cl):
    if cl[0] == "val":
        return xfloat(cl[1])
    _, k, terms = cl
    s = 0.0
    for F, p in terms:
        s = s + (0.5 * np_log(F) + np_log(abs(p)))
    return -k / 2.0 * math.log(3.0) + s


def close(a, b, rel=2e-7):
    if math.isnan(a) or math.isnan(b):
        return math.isnan(a) and math.isnan(b)
    if math.isinf(a) or math.isinf(b):
        return a == b
    return abs(a - b) <= rel * max(abs(a), abs(b)) + 1e-300


def compare_row(model, toks):
    """model: dec_row result; toks: text tokens of the implementation's row.  Returns None or a message."""
    got = [float(t) for t in toks]
    if model["kind"] == "irregular":
        return None if not math.isfinite(got[1]) else "model: irregular map (code length must not be finite), implementation: %r" % got[1]
    if model["kind"] != "ret":
        return "model: %s, implementation wrote a row" % model["kind"]
    if not close(xfloat(model["nll"]), got[0], rel=0 if not isinstance(model["nll"], str) and survives(model["nll"]) else 2e-7):
        return "nll: model %s, implementation %r" % (model["nll"], got[0])
    want = clen_value(model["clen"])
    if not (close(want, got[1], rel=1e-6) or abs(want - got[1]) <= 1e-6):
        return "code length: model %r (%s), implementation %r" % (want, model["clen"], got[1])
    if len(model["params"]) != len(got) - 3 or any(not close(float(a), b) for a, b in zip(model["params"], got[3:])):
        return "parameters: model %s, implementation %r" % ([str(p) for p in model["params"]], got[3:])
    return None


def classify(lib, v, model):
    """coverage key of one explored row"""
    if model["kind"] != "ret":
        return (model["kind"],)
    cl = model["clen"]
    n = v["n"]
    fam = tuple(sorted({("nan" if s == "nan" else "raise" if s == "raise" else
                         "+".join(sorted({("rec" if m[2] else "lin") + ("" if abs(m[0]) == 1 else "c") + ("-" if m[0] < 0 else "")
                                          + ("" if m[1] == i else "mv") for i, m in s}))) for s in v["chain"]}))
    if cl[0] == "val":
        shape = "val:" + str(cl[1])
    else:
        zeros = sum(1 for p in model["params"][:n] if p == 0)
        shape = "len:k=%d/n=%d/zeros=%d" % (cl[1], n, zeros)
    return (fam, shape, v["sympify"] != "ok")


def nontrivial(v, model):
    return model["kind"] == "ret" and model["clen"][0] == "len" and len(v["chain"]) > 0 and v["n"] > 0


# ------------------------------------------------------------------ correspondence
def correspondence(ctx):
    rep = ctx.report
    nrows = 400 if ctx.quick else 6000
    R = esrv.rng(ctx.seed, "C05/libs")
    ids = [1000]
    libs = []
    tot = 0
    while tot < nrows:
        P = R.choice([1, 1, 2, 3])
        nv = R.randint(max(8, P), 24)
        lib = gen_lib(R, nv, P, ids)
        libs.append(lib)
        tot += nv
    try:
        jobs = [([l for l in libs if l["P"] == P], P) for P in (1, 2, 3)]
        outs = run_impl_parallel(ctx, jobs)
    except Exception as e:
        rep.fail("broken-correspondence", "implementation driver failed: %s" % e, "C05:impl-driver", theorem="match.main tie")
        return
    pairs = []
    for (ls, P), os_ in zip(jobs, outs):
        pairs += list(zip(ls, os_))
    ctx.c05 = pairs
    # the model
    flat_cases, owners = [], []
    for li, (lib, res) in enumerate(pairs):
        for vi, v in enumerate(lib["variants"]):
            flat_cases.append(case_coq(lib, v))
            owners.append((li, vi))
    shard = 350
    starts = list(range(0, len(flat_cases), shard))
    try:
        from concurrent.futures import ThreadPoolExecutor
        with ThreadPoolExecutor(max_workers=6) as ex:
            enc = [e for part in ex.map(lambda a: coq_rows(flat_cases[a:a + shard]), starts) for e in part]
    except Exception as e:
        rep.fail("broken-correspondence", "model evaluation failed: %s" % str(e)[-1500:], "C05:coq-eval", theorem="Model/Match.v row")
        return
    models = {}
    for (li, vi), e in zip(owners, enc):
        models[(li, vi)] = dec_row(e)
    ctx.c05_models = models
    nbad = 0
    stats = {"rows": 0, "libraries": len(pairs), "ranks": {}, "exact_libraries": 0, "chain_len": {}, "codelen_kind": {}, "nparams": {},
             "sympify_failures": 0, "nan_steps": 0, "crash_libraries": 0}
    for li, (lib, res) in enumerate(pairs):
        stats["ranks"][str(lib["P"])] = stats["ranks"].get(str(lib["P"]), 0) + 1
        stats["exact_libraries"] += lib["exact"]
        mods = [models[(li, vi)] for vi in range(len(lib["variants"]))]
        expect_crash = any(m["kind"] in ("pyerror", "quit") for m in mods)
        if expect_crash or res["exc"]:
            stats["crash_libraries"] += 1
            ok = expect_crash and res["exc"] and ("NameError" in res["exc"] or "IndexError" in res["exc"] or "SystemExit" in res["exc"])
            if not ok:
                nbad += 1
                if nbad <= 3:
                    rep.fail("broken-correspondence", "match.main %s but the model %s" % (
                        "raised " + res["exc"] if res["exc"] else "completed", "predicts an escaping exception" if expect_crash else "completes"),
                        "C05:model-vs-impl", input=impl_lib(lib), observed=res["exc"], theorem="Model/Match.v row vs esr/fitting/match.py main")
            rep.case(key=("crash", li), nontrivial=True)
            continue
        if res["rows"] is None or len(res["rows"]) != len(lib["variants"]):
            nbad += 1
            rep.fail("broken-correspondence", "codelen_matches has %s rows for %d variants" % (
                None if res["rows"] is None else len(res["rows"]), len(lib["variants"])), "C05:row-count", input=impl_lib(lib),
                theorem="join of per-rank files")
            continue
        if res.get("leftover_temp"):
            rep.fail("broken-correspondence", "per-rank temp files left behind: %r" % res["leftover_temp"], "C05:temp-leftover",
                     theorem="join of per-rank files")
        for vi, v in enumerate(lib["variants"]):
            m = mods[vi]
            toks = res["rows"][vi]
            msg = compare_row(m, toks)
            if msg is None and int(float(toks[2])) != v["match"]:
                msg = "index column %s, expected %d" % (toks[2], v["match"])
            stats["rows"] += 1
            stats["chain_len"][str(len(v["chain"]))] = stats["chain_len"].get(str(len(v["chain"])), 0) + 1
            stats["nparams"][str(v["n"])] = stats["nparams"].get(str(v["n"]), 0) + 1
            ck = m["kind"] if m["kind"] != "ret" else ("value " + str(m["clen"][1]) if m["clen"][0] == "val" else "formula k=%d" % m["clen"][1])
            stats["codelen_kind"][ck] = stats["codelen_kind"].get(ck, 0) + 1
            stats["sympify_failures"] += v["sympify"] != "ok"
            stats["nan_steps"] += "nan" in v["chain"]
            if msg:
                nbad += 1
                if nbad <= 3:
                    u = lib["uniques"][v["match"]]
                    rep.fail("broken-correspondence", "Coq model row and match.main differ (%d ranks): %s" % (lib["P"], msg), "C05:model-vs-impl",
                             input={"function": v["fcn"], "chain": [step_text(s) for s in v["chain"]], "unique_nll": str(u["nll"]),
                                    "theta": [str(t) for t in u["theta"]], "fisher_flat": [str(f) for f in u["flat"]],
                                    "table": {k: str(x) for k, x in v["table"].items()}, "dflt": str(v["dflt"]), "sympify": v["sympify"]},
                             observed=toks, expected=str(m), theorem="Model/Match.v row vs esr/fitting/match.py main")
            rep.case(key=classify(lib, v, m), nontrivial=nontrivial(v, m),
                     sample={"function": v["fcn"], "chain": [step_text(s) for s in v["chain"]], "row": toks,
                             "model_codelen": str(m.get("clen"))} if stats["rows"] in (3, 40, 90) else None)
            rep.traces += 1
    rep.extra["input_distribution"] = stats
    rep.rule = ("%d variant rows in %d hand-made libraries (2-6 uniques with 1-3 parameters, max_param 4 or 3; chains of 0-3 monomial "
                "dictionaries: sign flip, reciprocal, scalings c*a and c/a, swaps, permutations, renames incl. non-injective and out-of-range "
                "ones, 'nan' and raising steps; theta = +-2^a, F = {3,12,48}*4^b so that theta^2 F / 12 is exactly 4^d (d=0: threshold) in "
                "'exact' libraries, generic rationals away from the threshold otherwise; zero, negative, inf, NaN curvatures; NaN outside "
                "the parameter block; table-driven likelihood over zero patterns with inf/NaN/-inf; exceptions in run_sympify) through the REAL match.main under 1, 2 and 3 stand-in ranks; every row of codelen_matches compared with "
                "Match.row evaluated by vm_compute (nll exact, parameters 2e-7, code length = value of the model's structure within 1e-6); "
                "non-trivial = non-empty chain, parameters present, code length given by the formula" % (
                    stats["rows"], len(pairs)))


# ------------------------------------------------------------------ search: the property stated directly on codelen_matches
# Independent oracle: the substitutions are read as FUNCTIONS and composed numerically (mpmath, 40 digits):
#   u_n = theta, u_{m-1} = s_m(u_m);  p' = u_0;  J = J_{s_1}(u_1) ... J_{s_n}(u_n)  (chain rule),  F' = J^-T F J^-1.
# Nothing here uses the Coq model or the code's symbolic fold.
BROAD_STEPS = ["{a%d: sqrt(Abs(a%d))}", "{a%d: a%d**2}", "{a%d: exp(a%d)}", "{a%d: log(Abs(a%d))}", "{a%d: 1/sqrt(Abs(a%d))}",
               "{a%d: Abs(a%d)**(-1/4)}", "{a%d: Abs(a%d)**(1/3)}", "{a%d: Abs(a%d)}", "{a%d: -a%d}", "{a%d: 1/a%d}", "{a%d: a%d/2}",
               "{a%d: 2*a%d}", "{a%d: -2*a%d}", "{a%d: -a%d/2}", "{a%d: 4*a%d}", "{a%d: a%d/3}", "{a%d: 3/a%d}"]


def parse_step(text, nsym=8):
    """'{a0: expr, ...}' -> {index: sympy expr}  (independent of simplifier.load_subs)"""
    import sympy
    syms = {"a%d" % i: sympy.Symbol("a%d" % i, real=True) for i in range(nsym)}
    body = text.strip()[1:-1]
    out = {}
    for part in body.split(", "):
        k, v = part.split(": ", 1)
        out[int(k.strip()[1:])] = sympy.sympify(v, locals=syms)
    return out, syms


def analytic_transfer(chain_texts, theta, Fblock):
    """-> ('ok', p', diag F') | ('irregular', why) | ('nonfinite-F', p');  theta: list of mpf, Fblock: n x n list of mpf/None.
    Stepwise numeric chain rule first; when an INTERMEDIATE value is singular (e.g. [{a1: 1/a1}, {a1: 1/a1}] at a1 = 0, whose
    composite is the identity) the composite is formed symbolically from the inside out and evaluated instead."""
    r = stepwise_transfer(chain_texts, theta, Fblock)
    if r[0] == "irregular" and "finite at theta" in r[1]:
        r2 = symbolic_transfer(chain_texts, theta, Fblock)
        if r2 is not None:
            return r2
    return r


def finish_transfer(u, J, Fblock):
    import mpmath
    try:
        if abs(mpmath.det(J)) < mpmath.mpf(10) ** -30:
            return ("irregular", "singular Jacobian")
        Ji = mpmath.inverse(J)
    except Exception:
        return ("irregular", "singular Jacobian")
    if any(x is None for row in Fblock for x in row):
        return ("nonfinite-F", u)
    n = len(u)
    Fn = Ji.T * mpmath.matrix(Fblock) * Ji
    return ("ok", u, [Fn[i, i] for i in range(n)])


def symbolic_transfer(chain_texts, theta, Fblock):
    """composite c = s_1 o ... o s_n built from the inside out (c <- s_m[a := c], m = n..1), cancelled, then evaluated"""
    import mpmath
    import sympy
    n = len(theta)
    syms = [sympy.Symbol("a%d" % i, real=True) for i in range(8)]
    c = list(syms[:n])
    try:
        for text in reversed(chain_texts):
            d, _ = parse_step(text)
            inner = {syms[j]: c[j] for j in range(n)}
            c = [sympy.cancel(d[i].subs(inner, simultaneous=True)) if i in d else c[i] for i in range(n)]
        sub = {syms[i]: sympy.Float(mpmath.nstr(theta[i], 40), 40) for i in range(n)}
        u, J = [], mpmath.zeros(n)
        for i in range(n):
            if {str(x) for x in c[i].free_symbols} - {"a%d" % j for j in range(n)}:
                return None
            val = sympy.N(c[i].subs(sub), 40)
            if not val.is_finite or not val.is_real:
                return None
            u.append(mpmath.mpf(str(val)))
            for j in range(n):
                dv = sympy.N(sympy.diff(c[i], syms[j]).subs(sub), 40)
                if not dv.is_finite or not dv.is_real:
                    return None
                J[i, j] = mpmath.mpf(str(dv))
    except Exception:
        return None
    return finish_transfer(u, J, Fblock)


def stepwise_transfer(chain_texts, theta, Fblock):
    import mpmath
    import sympy
    mpmath.mp.dps = 40
    n = len(theta)
    u = [mpmath.mpf(t) for t in theta]
    J = mpmath.eye(n)
    for text in reversed(chain_texts):
        d, syms = parse_step(text)
        sub = {syms["a%d" % i]: sympy.Float(str(u[i]), 40) if not isinstance(u[i], int) else u[i] for i in range(n)}
        sub = {syms["a%d" % i]: sympy.Float(mpmath.nstr(u[i], 40), 40) for i in range(n)}
        Js = mpmath.zeros(n)
        new = list(u)
        for i in range(n):
            if i not in d:
                Js[i, i] = 1
                continue
            e = d[i]
            free = {str(s) for s in e.free_symbols}
            if any(int(nm[1:]) >= n for nm in free if re.fullmatch(r"a\d+", nm)) or any(not re.fullmatch(r"a\d+", nm) for nm in free):
                return ("irregular", "refers to a parameter the function does not have")
            if e.atoms(sympy.Function) - e.atoms(sympy.exp, sympy.log, sympy.Abs, sympy.sign):
                return ("irregular", "unknown function")
            try:
                val = sympy.N(e.subs(sub), 40)
                if not val.is_finite or not val.is_real:
                    return ("irregular", "not finite at theta")
                new[i] = mpmath.mpf(str(val))
                for j in range(n):
                    dv = sympy.N(sympy.diff(e, syms["a%d" % j]).subs(sub), 40)
                    if not dv.is_finite or not dv.is_real:
                        return ("irregular", "derivative not finite at theta")
                    Js[i, j] = mpmath.mpf(str(dv))
            except Exception as ex:
                return ("irregular", "evaluation failed: %s" % type(ex).__name__)
        u = new
        J = Js * J
    return finish_transfer(u, J, Fblock)


def fblock(u, maxp, n):
    """n x n symmetric block from the flattened upper triangle; None for non-finite entries"""
    import mpmath
    M = [[None] * n for _ in range(n)]
    pos = 0
    for i in range(maxp):
        for j in range(i, maxp):
            if i < n and j < n:
                v = u["flat"][pos]
                x = None if isinstance(v, str) else mpmath.mpf(v.numerator) / v.denominator
                M[i][j] = x
                M[j][i] = x
            pos += 1
    return M


def fnum(v):
    return float(v) if isinstance(v, str) else v.numerator / v.denominator


SKIPPED = {}


def spec_check(lib, v, toks, chain_texts=None):
    """C05 stated on one row.  Returns a list of (key, message, observed, expected)."""
    import mpmath
    bad = []
    u = lib["uniques"][v["match"]]
    maxp, n = lib["maxp"], v["n"]
    got = [float(t) for t in toks]
    nll, cl, params = got[0], got[1], got[3:]
    unll = fnum(u["nll"])
    texts = chain_texts if chain_texts is not None else [step_text(s) for s in v["chain"]]
    if int(got[2]) != v["match"]:
        bad.append(("C05:index", "index column is not the unique's index", got[2], v["match"]))
    if not math.isfinite(unll):
        if not math.isnan(cl) or not (nll == unll or (math.isnan(nll) and math.isnan(unll))):
            bad.append(("C05:nonfinite-unique", "unique's likelihood is %r but the row is nll %r, code length %r" % (unll, nll, cl), [nll, cl], [unll, "nan"]))
        return bad
    if n == 0:
        if cl != 0 or nll != unll or any(params):
            bad.append(("C05:no-parameters", "a function without parameters must get code length 0 and the unique's likelihood", got, [unll, 0]))
        return bad
    if "nan" in texts:
        if math.isfinite(cl):
            bad.append(("C05:unrecoverable-finite", "a chain containing nan received the finite code length %r" % cl, cl, "inf"))
        return bad
    th = [mpmath.mpf(t.numerator) / t.denominator for t in u["theta"][:n]]
    tr = analytic_transfer(texts, th, fblock(u, maxp, n))
    if tr[0] == "irregular":
        if math.isfinite(cl):
            bad.append(("C05:irregular-finite", "parameter map not regular at theta (%s) but the code length is %r" % (tr[1], cl), cl, "inf or nan"))
        return bad
    if tr[0] == "nonfinite-F":
        if math.isfinite(cl):
            bad.append(("C05:nonfinite-curvature", "the unique's Hessian block is not finite but the code length is %r" % cl, cl, "not finite"))
        return bad
    _, pp, Fd = tr
    # outside the range of doubles (e.g. nested exp: p' = exp(exp(6)) ~ 1e207, F' = F/J^2 ~ 1e-417 underflows to 0 in the code):
    # rounding/overflow is not part of the property's model; counted, not judged
    big, tiny = mpmath.mpf("1e150"), mpmath.mpf("1e-150")
    if any(abs(x) > big or (x != 0 and abs(x) < tiny) for x in pp) or any(abs(f) > big * big or (f != 0 and abs(f) < tiny * tiny) for f in Fd):
        SKIPPED["float_range"] = SKIPPED.get("float_range", 0) + 1
        return bad
    if any(not (f > 0) for f in Fd):
        if cl != math.inf:
            bad.append(("C05:nonpositive-curvature", "a transferred curvature is not positive (%s) but the code length is %r" % (
                [mpmath.nstr(f, 8) for f in Fd], cl), cl, "inf"))
        return bad
    ratio = [p * p * f / 12 for p, f in zip(pp, Fd)]
    if any(abs(r - 1) < mpmath.mpf("1e-9") for r in ratio) and not (lib.get("exact") and all_dyadic(v["chain"])):
        return bad          # too close to the threshold for floats; not a statement about the code
    C = [i for i in range(n) if ratio[i] < 1]
    key_of = lambda D: "".join("1" if (i in D or pp[i] == 0) else "0" for i in range(n))
    tbl = lambda D: fnum(v["table"].get(key_of(D), v["dflt"])) if v.get("table") is not None else None
    rel = lambda a, b: abs(a - b) <= 2e-6 * max(abs(a), abs(b), 1e-300)
    # the regular case: the unique's likelihood is finite and the map is regular at theta
    if cl == math.inf:
        bad.append(("C05:match-guard:nonempty-recoverable-chain" if texts else "C05:regular-inf",
                    "the unique's likelihood is finite, the parameter map is recoverable and regular at theta and every transferred "
                    "curvature is positive, but the code length is inf", cl, "a finite code length"))
        return bad
    if math.isnan(nll):
        ok = bool(C) and (v["sympify"] != "ok" or v.get("table") is None or not math.isfinite(tbl(set(C))))
        if not ok:
            bad.append(("C05:nan-likelihood", "reported likelihood is nan although the variant can be evaluated "
                        "(candidates %r)" % C, nll, "a number"))
        return bad
    for i in range(n):
        if params[i] != 0 and not rel(params[i], float(pp[i])):
            bad.append(("C05:parameters", "parameter %d is %r, the transformation of the unique's parameters gives %s" % (
                i, params[i], mpmath.nstr(pp[i], 12)), params[:n], [float(x) for x in pp]))
            return bad
    if any(x != 0 for x in params[n:]):
        bad.append(("C05:parameters", "padding is not zero", params, "zeros beyond the parameters"))
        return bad
    D0 = {i for i in range(n) if params[i] == 0 and pp[i] != 0}
    Z = [i for i in range(n) if pp[i] == 0]          # exactly zero already: dropping them is not observable in the parameters
    options = []
    for mask in range(2 ** len(Z)):
        options.append(D0 | {Z[b] for b in range(len(Z)) if mask >> b & 1})
    results = [check_dropped(D, v, n, C, pp, Fd, nll, unll, cl, params, tbl, rel, texts) for D in options]
    if any(not r for r in results):
        return bad
    return bad + results[0]


def check_dropped(D, v, n, C, pp, Fd, nll, unll, cl, params, tbl, rel, texts):
    """the row read as 'the parameters in D were dropped'"""
    import mpmath
    bad = []
    if not D <= set(C):
        bad.append(("C05:dropped-not-candidate", "dropped parameters %r are not all below one precision step (candidates %r)" % (sorted(D), C),
                    sorted(D), C))
        return bad
    if v.get("table") is not None:
        if D:
            own = tbl(D)
            if not (nll == own):
                stale = v["sympify"] != "ok"
                bad.append((KEY_STALE if stale else "C05:likelihood-not-at-reported-parameters",
                            "reported likelihood %r is not the variant's likelihood at the reported parameters (%r)%s" % (
                                nll, own, "; the variant could not be evaluated, the value comes from another function" if stale else ""),
                            nll, own))
                return bad
        else:
            if nll != unll:
                bad.append(("C05:likelihood-changed", "nothing was dropped but the likelihood %r is not the unique's %r" % (nll, unll), nll, unll))
                return bad
        if C and v["sympify"] == "ok" and math.isfinite(tbl(set(C))) and D != set(C):
            bad.append(("C05:all-at-once", "dropping every candidate %r keeps the likelihood finite but %r were dropped" % (C, sorted(D)),
                        sorted(D), C))
            return bad
    # code length from the transferred curvatures
    kept = [i for i in range(n) if i not in D]
    if len(D) == n:
        want = 0.0
    elif D or not C:
        if any(pp[i] == 0 for i in kept):
            want = None
        else:
            want = -len(kept) / 2.0 * math.log(3.0) + sum(float(mpmath.log(Fd[i]) / 2 + mpmath.log(abs(pp[i]))) for i in kept)
    else:       # nothing dropped although there are candidates: uncertainty = parameter on the candidates
        if any(pp[i] == 0 for i in range(n)):
            want = None
        else:
            want = -n / 2.0 * math.log(3.0) + sum(float(mpmath.log(12) / 2) if i in C else
                                                  float(mpmath.log(Fd[i]) / 2 + mpmath.log(abs(pp[i]))) for i in range(n))
    if want is None:
        if math.isfinite(cl):
            bad.append(("C05:zero-parameter-finite", "a kept parameter is exactly 0 but the code length is %r" % cl, cl, "not finite"))
    elif not (math.isfinite(cl) and (rel(cl, want) or abs(cl - want) <= 2e-6)):
        key = "C05:match-guard:nonempty-recoverable-chain" if cl == math.inf and texts else "C05:codelen"
        bad.append((key, "code length %r, the transferred Fisher matrix gives %r (dropped %r, candidates %r)" % (cl, want, sorted(D), C),
                    cl, want))
    return bad


def gen_broad_lib(R, nvar, ids):
    """libraries with the broader family of recorded substitutions (roots, exp, log, squares, powers of Abs)"""
    maxp = 4
    U = R.randint(2, 5)
    uniques = []
    for _ in range(U):
        n = R.choice([1, 1, 2, 2, 3])
        th = [R.choice((1, -1)) * Fr(R.randint(4, 40), 16) for _ in range(n)]
        diag = [Fr(R.choice([1, 3, 12, 40, 100, 1000, 20000]), R.choice([1, 2, 4, 64, 256])) for _ in range(n)]
        flat = []
        for i in range(maxp):
            for j in range(i, maxp):
                flat.append((diag[i] if i == j else Fr(R.randint(-8, 8), 4)) if i < n and j < n else NAN)
        uniques.append({"n": n, "nll": Fr(R.randint(-80, 400), 8), "theta": th + [Fr(0)] * (maxp - n), "flat": flat})
    variants = []
    for _ in range(nvar):
        u = R.randrange(U)
        n = uniques[u]["n"]
        ln = R.choice([1, 1, 2, 2, 3])
        texts, nexp = [], 0
        for _ in range(ln):
            t = R.choice(BROAD_STEPS)
            if "exp" in t:
                nexp += 1
                if nexp > 2:
                    t = "{a%d: -a%d}"
            i = R.randrange(n)
            texts.append(t % (i, i))
        if n >= 2 and R.random() < 0.3:
            a, b = R.sample(range(n), 2)
            texts.insert(R.randint(0, len(texts)), "{a%d: a%d, a%d: a%d}" % (a, b, b, a))
        if R.random() < 0.08:
            texts.insert(R.randint(0, len(texts)), "nan")
        tbl, dflt = gen_table(R, n)
        v = {"id": ids[0], "match": u, "n": n, "chain": [], "texts": texts, "table": tbl, "dflt": dflt, "sympify": "ok"}
        v["fcn"] = "%s + %d" % (BASES[n], v["id"])
        ids[0] += 1
        variants.append(v)
    return {"maxp": maxp, "exact": False, "uniques": uniques, "variants": variants, "P": 1, "broad": True}


def impl_lib_any(lib):
    if lib.get("impl") is not None:
        return lib["impl"]
    if not lib.get("broad"):
        return impl_lib(lib)
    out = impl_lib({**lib, "variants": [{**v, "chain": []} for v in lib["variants"]]})
    for o, v in zip(out["variants"], lib["variants"]):
        o["chain"] = list(v["texts"])
    return out


def lib_from_impl(il):
    """a library in the driver's JSON format (as stored in a replay file) -> harness format"""
    maxp = il["max_param"]
    uniques = [{"n": None, "nll": tonum(u["nll"]), "theta": [tonum(t) for t in u["params"]], "flat": [tonum(f) for f in u["fish"]]}
               for u in il["uniques"]]
    variants = []
    for v in il["variants"]:
        n = 0
        for j in range(maxp - 1, -1, -1):
            if "a%d" % j in v["fcn"]:
                n = j + 1
                break
        variants.append({"fcn": v["fcn"], "match": v["match"], "n": n, "chain": [], "texts": list(v["chain"]),
                         "table": {k: tonum(x) for k, x in v["table"].items()}, "dflt": tonum(v["dflt"]), "sympify": v.get("sympify", "ok")})
    return {"maxp": maxp, "exact": False, "uniques": uniques, "variants": variants, "P": 1, "broad": True, "impl": il}


def stale_corpus_lib():
    """the replay of the repaired defect 4f4eabe: B cannot be sympified, A was lambdified before it"""
    th = [Fr(1, 4), Fr(1, 8), Fr(0), Fr(0)]
    flat = [Fr(12), Fr(0), NAN, NAN, Fr(12), NAN, NAN, NAN, NAN, NAN]
    un = {"n": 2, "nll": Fr(7), "theta": th, "flat": flat}
    A = {"id": 9000, "match": 0, "n": 2, "chain": [], "table": {"11": INF, "10": Fr(3), "01": Fr(4)}, "dflt": Fr(99), "sympify": "ok"}
    B = {"id": 9001, "match": 0, "n": 2, "chain": [[(0, (Fr(1), 1, False)), (1, (Fr(1), 0, False))]],
         "table": {"11": Fr(1), "10": INF, "01": Fr(5)}, "dflt": Fr(99), "sympify": "nameerror"}
    for v in (A, B):
        v["fcn"] = "%s + %d" % (BASES[2], v["id"])
    return {"maxp": 4, "exact": True, "uniques": [un, dict(un)], "variants": [A, B], "P": 1}


def guard_corpus_lib():
    """the replay of the repaired defect e814972: '-a0 + x' with {a0: -a0}, theta = 2, F = 4"""
    un = {"n": 1, "nll": Fr(10), "theta": [Fr(2), Fr(0), Fr(0), Fr(0)], "flat": [Fr(4)] + [NAN] * 9}
    vs = []
    for k, ch in enumerate([[[(0, (Fr(-1), 0, False))]], [[(0, (Fr(1), 0, True))]], []]):
        v = {"id": 9100 + k, "match": 0, "n": 1, "chain": ch, "table": {"1": INF}, "dflt": INF, "sympify": "ok"}
        v["fcn"] = "%s + %d" % (BASES[1], v["id"])
        vs.append(v)
    return {"maxp": 4, "exact": True, "uniques": [un, dict(un)], "variants": vs, "P": 1}


def search(ctx):
    rep = ctx.report
    done = list(getattr(ctx, "c05", []))                 # every library of the correspondence (1-3 ranks)
    R = esrv.rng(ctx.seed, "C05/search")
    ids = [20000]
    extra = [stale_corpus_lib(), guard_corpus_lib()]
    nb = 10 if ctx.quick else 120
    extra += [gen_broad_lib(R, R.randint(10, 20), ids) for _ in range(nb)]
    extra += [gen_lib(R, R.randint(8, 20), 1, ids) for _ in range(4 if ctx.quick else 60)]
    replay = getattr(ctx, "replay", None)
    if replay and isinstance(replay.get("input"), dict) and isinstance(replay["input"].get("library"), dict):
        extra.insert(0, lib_from_impl(replay["input"]["library"]))
    try:
        wd = esrv.mkscratch("c05s")
        lj = os.path.join(wd, "libs.json")
        outs = []
        from concurrent.futures import ThreadPoolExecutor
        chunks = [extra[a:a + 6] for a in range(0, len(extra), 6)]

        def run_chunk(ci_ch):
            ci, ch = ci_ch
            p = os.path.join(wd, "libs%d.json" % ci)
            w = os.path.join(wd, "work%d" % ci)
            os.makedirs(w)
            with open(p, "w") as f:
                json.dump([impl_lib_any(l) for l in ch], f)
            rc, out, err = esrv.run_py(ctx.scratch, IMPL, ["run", p, w], timeout=3000)
            if rc != 0 or MARK not in out:
                raise RuntimeError("c05_impl failed: %s" % err[-1200:])
            return json.loads(out.split(MARK, 1)[1])
        with ThreadPoolExecutor(max_workers=6) as ex:
            for part in ex.map(run_chunk, list(enumerate(chunks))):
                outs += part
        done += list(zip(extra, outs))
        shutil.rmtree(wd, ignore_errors=True)
    except Exception as e:
        rep.fail("broken-correspondence", "search driver failed: %s" % str(e)[-800:], "C05:search-driver", theorem="search")
    reported = set()
    counts = {}
    nrows = nbroad = 0
    for lib, res in done:
        if res.get("exc") or res.get("rows") is None:
            key = KEY_STALE if "eq_numpy" in str(res.get("exc")) else "C05:main-raised"
            counts[key] = counts.get(key, 0) + 1
            if key not in reported:
                reported.add(key)
                rep.fail("failing-input", "match.main raised %s: no codelen_matches file is written" % res.get("exc"), key,
                         input={"library": impl_lib_any(lib)}, observed=res.get("exc"), expected="a row per function")
            continue
        for v, toks in zip(lib["variants"], res["rows"]):
            nrows += 1
            nbroad += bool(lib.get("broad"))
            rep.case(key=None, nontrivial=False)
            try:
                out = spec_check(lib, v, toks, chain_texts=v.get("texts"))
            except Exception as e:
                out = [("C05:oracle-error", "the independent oracle failed on this row: %s: %s" % (type(e).__name__, e), None, None)]
            for key, msg, obs, exp in out:
                counts[key] = counts.get(key, 0) + 1
                if key in reported:
                    continue
                reported.add(key)
                u = lib["uniques"][v["match"]]
                kind = "broken-correspondence" if key == "C05:oracle-error" else "failing-input"
                rep.fail(kind, msg, key,
                         input={"function": v["fcn"], "unique_index": v["match"], "chain": v.get("texts") or [step_text(s) for s in v["chain"]],
                                "theta_u": [str(t) for t in u["theta"]], "F_u_flat_upper": [str(f) for f in u["flat"]], "nll_u": str(u["nll"]),
                                "likelihood_by_zero_pattern": {k: str(x) for k, x in v["table"].items()}, "default": str(v["dflt"]),
                                "run_sympify": v["sympify"], "ranks": lib["P"], "library": impl_lib_any(lib)},
                         observed={"reported_row": toks, "detail": obs}, expected=exp, theorem="C05 stated on codelen_matches")
    rep.extra["search_rows"] = nrows
    rep.extra["search_rows_broader_family"] = nbroad
    rep.extra["search_violation_counts"] = counts
    real_search(ctx)


GEN = os.path.join(esrv.VERIF, "harness", "corr", "gen_run.py")
FIT = os.path.join(esrv.VERIF, "harness", "corr", "fit_run.py")


def tonum(t):
    f = float(t)
    if math.isnan(f):
        return NAN
    if math.isinf(f):
        return INF if f > 0 else NINF
    return Fr(f)


def real_library(ctx, fn_set, comp, data_dir):
    """generate <fn_set>/compl_<comp> in the scratch copy (if absent), fit it on the small Gaussian data set with the REAL stages
    fit, fisher, match, and collect everything match.main read and wrote"""
    lib_dir = os.path.join(ctx.scratch, "esr", "function_library", fn_set, "compl_%d" % comp)
    if not os.path.exists(os.path.join(lib_dir, "inv_subs_%d.txt" % comp)):
        rc, out, err = esrv.run_py(ctx.scratch, GEN, [fn_set, str(comp)], timeout=1500)
        if rc != 0 or "GEN-DONE" not in out:
            raise RuntimeError("generation of %s n=%d failed: %s" % (fn_set, comp, err[-800:]))
    run = "verif_c05_%s_%d" % (fn_set, comp)
    rc, out, err = esrv.run_py(ctx.scratch, FIT, ["gauss", data_dir, "data.txt", run, fn_set, str(comp), "fit,fisher,match"], timeout=2500)
    if rc != 0 or "FIT-DONE" not in out:
        raise RuntimeError("fitting %s n=%d failed: %s" % (fn_set, comp, err[-800:]))
    rc, out, err = esrv.run_py(ctx.scratch, IMPL, ["real", data_dir, "data.txt", run, fn_set, str(comp)], timeout=1500)
    if rc != 0 or MARK not in out:
        raise RuntimeError("collecting %s n=%d failed: %s" % (fn_set, comp, err[-800:]))
    return json.loads(out.split(MARK, 1)[1])


def real_search(ctx):
    """the same statement of C05 on REAL libraries fitted with the real GaussLikelihood (no stub): core_maths / keep_duplicates"""
    import numpy as np
    rep = ctx.report
    todo = [("core_maths", 3), ("core_maths", 4)] if ctx.quick else [("core_maths", 3), ("core_maths", 4), ("keep_duplicates", 3),
                                                                      ("keep_duplicates", 4), ("core_maths", 5)]
    data_dir = esrv.mkscratch("c05d")
    rs = np.random.RandomState(ctx.seed % (2 ** 31))
    xs = np.linspace(0.5, 3.0, 24)
    np.savetxt(os.path.join(data_dir, "data.txt"), np.transpose([xs, 1.7 * xs ** 2 + 0.1 * rs.randn(24), 0.1 * np.ones(24)]))
    stats = {}
    reported = set()
    counts = {}
    for fn_set, comp in todo:
        try:
            data = real_library(ctx, fn_set, comp, data_dir)
        except Exception as e:
            rep.fail("broken-correspondence", "real-library run failed: %s" % str(e)[-800:], "C05:real-driver", theorem="search on real libraries")
            continue
        maxp = data["maxp"]
        uniques = [{"n": None, "nll": tonum(u["row"][0]), "theta": [tonum(t) for t in u["row"][1:]], "flat": [tonum(t) for t in u["fish"]]}
                   for u in data["uniques"]]
        lib = {"maxp": maxp, "exact": False, "uniques": uniques, "variants": [], "P": 1, "broad": True}
        st = {"functions": len(data["variants"]), "with_chain": 0, "finite_codelen_with_chain": 0, "nan_chain": 0, "checked_likelihood": 0}
        for dv in data["variants"]:
            v = {"fcn": dv["fcn"], "match": dv["match"], "n": dv["n"], "chain": [], "texts": list(dv["chain"]), "table": None, "dflt": None,
                 "sympify": "ok"}
            u = uniques[dv["match"]]
            if any(isinstance(t, str) for t in u["theta"]):
                continue
            rep.case(key=None, nontrivial=False)
            st["with_chain"] += bool(dv["chain"])
            st["nan_chain"] += "nan" in dv["chain"]
            cl = float(dv["row"][1])
            st["finite_codelen_with_chain"] += bool(dv["chain"]) and math.isfinite(cl)
            try:
                out = spec_check(lib, v, dv["row"], chain_texts=v["texts"])
            except Exception as e:
                out = [("C05:oracle-error", "the independent oracle failed on this row: %s: %s" % (type(e).__name__, e), None, None)]
            # the variant's own string, evaluated by the real likelihood at the reported parameters, gives the reported likelihood
            nll = float(dv["row"][0])
            at = dv["nll_at_reported"]
            if not out and at is not None and math.isfinite(cl) and math.isfinite(nll) and dv["n"] > 0:
                st["checked_likelihood"] += 1
                if at.startswith("EXC") or not (abs(float(at) - nll) <= 1e-4 * max(1.0, abs(nll))):
                    out = [("C05:real:likelihood-at-reported-parameters",
                            "the function evaluated at its reported parameters has likelihood %s, the row reports %r" % (at, nll), at, nll)]
            for key, msg, obs, exp in out:
                counts[key] = counts.get(key, 0) + 1
                if key in reported:
                    continue
                reported.add(key)
                rep.fail("broken-correspondence" if key == "C05:oracle-error" else "failing-input", "%s n=%d: %s" % (fn_set, comp, msg), key,
                         input={"library": "%s compl_%d (generated and fitted in the scratch copy, Gaussian data y=1.7x^2+noise, 24 points)" % (fn_set, comp),
                                "function": dv["fcn"], "unique": data["uniques"][dv["match"]]["fcn"], "chain": dv["chain"],
                                "theta_u": data["uniques"][dv["match"]]["row"][1:], "F_u_flat_upper": data["uniques"][dv["match"]]["fish"],
                                "nll_u": data["uniques"][dv["match"]]["row"][0]},
                         observed={"reported_row": dv["row"], "detail": obs}, expected=exp, theorem="C05 stated on codelen_matches (real library)")
        stats["%s_%d" % (fn_set, comp)] = st
    shutil.rmtree(data_dir, ignore_errors=True)
    rep.extra["search_real_libraries"] = stats
    rep.extra["search_rows_outside_double_range_not_judged"] = dict(SKIPPED)
    rep.extra["search_real_violation_counts"] = counts


TRUSTED = [
    "Coq 8.16.1 kernel + vm_compute (no native_compute)",
    "Print Assumptions: 17 of the 21 C05 theorems are closed under the global context (composition, symmetric unpacking, two-sided "
    "Jacobian inverse, transfer_fisher and the invariant p'^2 F' = theta^2 F, convert_ok_iff, snap_pattern_same, row_total, irregular_iff, "
    "the search characterisation, transfer_params, row_recoverable, nll_reported, codelen_finite_iff, unrecoverable_never_finite, "
    "exception_gives_inf); deriv_mono_is_derivative uses ClassicalDedekindReals.sig_forall_dec and "
    "FunctionalExtensionality.functional_extensionality_dep; lt1_real adds ClassicalDedekindReals.sig_not_dec; denote_finite and "
    "codelen_invariant add Classical_Prop.classic (through ln) -- the standard library's axioms of Reals, nothing of our own",
    "hand-written models coq/Model/Subs.v (simplifier.convert_params for monomial maps) and coq/Model/Match.v (body of match.main's loop), "
    "tied on every run by running the REAL match.main on generated libraries (stub likelihood keyed on which parameters are zero, "
    "1-3 stand-in ranks) and comparing every row of codelen_matches with Match.row evaluated by vm_compute",
    "sympy (sympify, Array.subs, jacobian, lambdify) and LAPACK's inverse are oracles: the model uses the symbolic composite, the analytic "
    "derivative and the analytic inverse (proved two-sided inverse of the Jacobian of a generalised permutation); validated by the "
    "correspondence and by the independent numeric oracle of search (mpmath chain rule, 40 digits)",
    "float arithmetic is exact or far from every decision on the generated inputs (theta = +-2^a, F = {3,12,48}*4^b in 'exact' libraries, so "
    "theta^2 F/12 = 4^d exactly; otherwise at relative distance >= 0.1 from the threshold); text round trip '%.7e' is exact on the inputs "
    "(checked when generating) and compared within 2e-7 / 1e-6 on the outputs",
    "MPI stand-in harness/fakempi; coreutils cat/find/sort -V/rm as called through os.system; the stub likelihood of harness/corr/c05_impl.py",
]
ASSUMPTIONS = [
    "executable family = monomial maps a_i -> c*a_j or c/a_j (identity, sign flip, reciprocal, swap/permutation/rename, scalings) and their "
    "compositions; roots, exp, log_abs, squares and powers of Abs are OUTSIDE the Coq model and are only exercised numerically by search "
    "(synthetic libraries with those steps and the real keep_duplicates libraries)",
    "a reciprocal evaluated at theta_j = 0 (inf/NaN entering LAPACK) is the model's outcome Irregular: only 'the code length is not finite' "
    "is claimed and checked for it",
    "the unique's fitted parameters are finite numbers; the flattened Hessian row has max_param(max_param+1)/2 entries (entries may be "
    "NaN/inf: modelled with IEEE special-value rules, rounding not modelled)",
    "dictionary keys are distinct parameter symbols (a Python dict); a dictionary on which sympy raises is the abstract step SRaise",
    "the likelihood (fop) is an arbitrary total function list Q -> float class; an exception inside run_sympify/lambdify/the first "
    "evaluation is the flag reeval=false (the row is nan); exceptions of negloglike inside the subset search are not modelled "
    "(the shipped likelihoods catch everything and return inf)",
    "float rounding of log in the final formula is not modelled: the structure's real value is compared with the file's 8 digits",
    "libraries with a single unique function make load_loglike raise (genfromtxt returns 1-D): outside C05's quantifier",
]
LEVEL_TEXT = ("Machine-checked theorems (Coq) on a model of match.main's per-variant logic and of simplifier.convert_params, for EVERY unique "
              "likelihood (finite/inf/NaN), parameter vector, Hessian row, chain of recorded substitutions in the monomial family (any length, "
              "incl. 'nan' and raising steps), likelihood function and rank slice: the folded substitution vector denotes s1 o ... o sn; for "
              "generalised-permutation composites the code's J^-T F J^-1 has diagonal F_jj/(dp'_i/dtheta_j)^2 with the exact invariant "
              "p'^2 F' = theta^2 F (hence the same snapping pattern and, over the reals, the same code length as the unique); reported "
              "parameters are sigma(theta_u) with zeros exactly at the cleared positions; the reported likelihood is the unique's, or the "
              "variant's own likelihood at the reported parameters, or nan; a chain containing nan never gets a finite code length; an exact "
              "iff for finiteness; the loop body never raises. A test sees one library; the theorems quantify over all of them.")
LEVEL_NOTE = ("Trusted: Coq kernel/vm_compute; hand-written models tied by running the real match.main on generated libraries under 1-3 ranks "
              "each run; sympy/LAPACK are oracles validated numerically; Reals axioms for the ln statements. Only validated numerically (not "
              "proved): non-monomial substitutions (roots, exp, log, powers) and the reciprocal-at-zero corner. Observation, not a violation: "
              "match.py's subset search keeps the pre-422d8c0 shape (only the singleton round decides; a larger finite subset is discarded) -- "
              "characterised by theorems C05_search_is_last_round / C05_singles_result. Two defects found through this property were repaired "
              "in /repo (e814972 guard, 4f4eabe stale likelihood); their replays are kept as corpus cases of search.")
TECHNIQUE = ("Coq proof over hand-written Gallina models (exact rationals + IEEE special values, finite sums for the matrix law, Reals for "
             "ln/derivatives) + vm_compute correspondence against the real match.main under 1-3 stand-in ranks + independent mpmath "
             "chain-rule oracle on synthetic (broader family) and real core_maths/keep_duplicates libraries fitted with the real GaussLikelihood")
