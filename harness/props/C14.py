"""C14 -- work partitioning tiles the function list; fitting stages complete on any ranks."""
import itertools
import json
import os
import shutil
import subprocess
import sys

import esrv

PROPS_V = "Props/C14.v"
TRANSLATORS = ["partition"]
TRUSTED = [
    "Coq 8.16.1 kernel + vm_compute (no native_compute)",
    "Print Assumptions: all C14 theorems closed under the global context (no axioms)",
    "translator harness/translate/partition.py + pyz.py (Python ast -> Gallina, fail-closed)",
    "coq/Common/Py.v models of divmod, list repeat, cumsum, indexing, slicing, int(np.ceil(a/float(b))) (exact for |a|,|b| < 2^53)",
    "FS model coq/Model/FsRace.v is hand-written; tied by traced os.path.isdir/os.mkdir/os.makedirs/Barrier sequences of the real constructor and get_functions",
    "MPI stand-in harness/fakempi; gating of real processes harness/lib/fsgate.py",
]
ASSUMPTIONS = [
    "float ceil(N/P) equals the integer ceiling (N, P < 2^53)",
    "mkdir's parent-exists requirement is not modelled (creation order inside rank 0 is sequential)",
    "coreutils `cat`/`sort -V` join order is exercised by the multi-rank stage runs, not proved",
]
IMPL = os.path.join(esrv.VERIF, "harness", "corr", "c14_impl.py")


def zl(l):
    return "[" + "; ".join("%d" % v if v >= 0 else "(%d)" % v for v in l) + "]"


def correspondence(ctx):
    rep = ctx.report
    nmax, pmax = (24, 9) if ctx.quick else (60, 20)
    rc, out, err = esrv.run_py(ctx.scratch, IMPL, ["arith", str(nmax), str(pmax)], timeout=1200)
    if rc != 0:
        rep.fail("broken-correspondence", "implementation driver failed", "C14:arith-driver", observed=err[-2000:],
                 theorem="arith sweep")
        ctx.arith = []
        return
    rows = json.loads(out)
    ctx.arith = rows
    # --- model side: one cases.v, evaluated with vm_compute
    si_cases, gf_cases = [], []
    for N, P, r, si, gf in rows:
        si_cases.append("(%d,%d,%d,%s)" % (N, r, P, "None" if isinstance(si, str) else "Some " + zl(si)))
        if isinstance(gf, str):
            gf_cases.append("(%d,%d,%d,None)" % (N, r, P))
        else:
            gf_cases.append("(%d,%d,%d,Some (%s,%d,%d))" % (N, r, P, zl(gf[0]), gf[1], gf[2]))
        rep.case(key=("arith", N, P, r), nontrivial=(P > 1 and N > 0),
                 sample={"N": N, "P": P, "rank": r, "split_idx": si, "get_functions": gf})
    v = """From ESRV Require Import Common.Py Common.Corr Gen.GenPartition.
Open Scope Z_scope.
Definition si_cases : list (Z*Z*Z*option (list Z)) := [%s].
Definition gf_cases : list (Z*Z*Z*option (list Z*Z*Z)) := [%s].
Definition gf_eqb (a b : option (list Z*Z*Z)) := opt_eqb (fun x y => lz_eqb (fst (fst x)) (fst (fst y)) && (snd (fst x) =? snd (fst y)) && (snd x =? snd y))%%bool a b.
Eval vm_compute in ("SI", failing (fun c => match c with (N,r,P,e) => olz_eqb (split_idx N r P) e end) si_cases).
Eval vm_compute in ("GF", failing (fun c => match c with (N,r,P,e) => gf_eqb (get_functions_slice (zrange N) r P) e end) gf_cases).
""" % ("; ".join(si_cases), "; ".join(gf_cases))
    rc, out = esrv.coq_run("Require Import String. Open Scope string_scope.\n" + v)
    flat = " ".join(out.split())
    ok = rc == 0 and '("SI", [])' in flat.replace("%string", "") and '("GF", [])' in flat.replace("%string", "")
    rep.traces += len(rows)
    if not ok:
        rep.fail("broken-correspondence", "generated model and implementation differ on the (N,P,rank) sweep",
                 "C14:arith-corr", observed=flat[-1500:], theorem="Gen/GenPartition.v vs utils.split_idx/test_all.get_functions")
    # --- FS programs: traced directory operations of the real code vs the model programs
    rc, out, err = esrv.run_py(ctx.scratch, IMPL, ["ctor_trace"], timeout=600)
    if rc != 0:
        rep.fail("broken-correspondence", "ctor_trace driver failed", "C14:fs-driver", observed=err[-2000:], theorem="FsRace tie")
        return
    tr = json.loads(out)
    like, base, outd, tmp = tr["dirs"]
    want_ctor = [["makedirs_ok", like]]
    dirs = [base, outd, tmp]
    want_gf0 = [x for d in dirs for x in (["isdir", d], ["mkdir", d])] + [["barrier", ""]]
    want_gf1 = [["barrier", ""]]
    ctx.ctor_ops = tr["ctor"]
    rep.case(key="fs-ctor", sample={"ctor_ops": tr["ctor"], "gf_rank0": tr["gf0"], "gf_rank1": tr["gf1"]})
    rep.traces += 3
    if tr["ctor"] != want_ctor:
        rep.fail("broken-correspondence", "Likelihood constructor's directory operations are not the model program ctor_programs_fixed",
                 "C14:fs-ctor-corr", observed=tr["ctor"], expected=want_ctor, theorem="C14_ctor_guarded_safe (FsRace.ctor_programs_fixed)")
    if tr["gf0"] != want_gf0 or tr["gf1"] != want_gf1:
        rep.fail("broken-correspondence", "get_functions' directory operations are not the model program gf_programs",
                 "C14:fs-gf-corr", observed=[tr["gf0"], tr["gf1"]], expected=[want_gf0, want_gf1],
                 theorem="C14_get_functions_dirs_safe (FsRace.gf_programs)")
    stage_runs(ctx)
    rep.rule = ("arith: every (N, P, rank) with N<=%d, P<=%d through the real split_idx/get_functions and the generated Coq model "
                "(non-trivial: N>0 and P>1); fs: traced directory-op sequences of the real constructor/get_functions; "
                "sched: gated two/three-process runs of the real constructor under chosen interleavings" % (nmax, pmax))
    rep.exhaustive = True


def stage_runs(ctx):
    """The four real fitting stages under several rank counts from a fresh output directory: every rank completes,
    every stage output has one row per function, and row i refers to function i."""
    import filecmp
    import numpy as np
    sys.path.insert(0, os.path.join(esrv.VERIF, "harness", "lib"))
    import fitlib
    import liboracle as lo
    rep = ctx.report
    work, repo = fitlib.work_repo(ctx.scratch, "c14s")
    ok, err = fitlib.generate(repo, "core_maths", [3])
    if not ok:
        rep.fail("failing-input", "generation fails: %s" % err[-300:], "C14:stages:generation-crash", input={"basis": "core_maths", "n": 3})
        return
    n = 3
    lib = lo.load_library(fitlib.libdir(repo, "core_maths", n), n)
    nu, na = len(lib["uniq"]), len(lib["all"])
    rng = np.random.default_rng(ctx.seed % 2 ** 31)
    x = np.linspace(0.5, 3.0, 24)
    y = 1.7 / x - 0.6 + rng.normal(0, 0.1, size=len(x))
    sig = np.full(len(x), 0.1)
    # rank counts incl. the ones that leave a rank WITHOUT functions in some stage: (P-1)*ceil(N/P) = N (N = 14 uniques: P = 8;
    # N = 24 functions: P = 7, 9, 13) and P > N
    ranks = [3, 8, 12, 16] if ctx.quick else [2, 3, 4, 6, 7, 8, 9, 11, 12, 13, 16, nu + 3, na + 2]
    files = {"negloglike_comp%d.dat" % n: nu, "codelen_comp%d_deriv.dat" % n: nu, "derivs_comp%d.dat" % n: nu,
             "codelen_matches_comp%d.dat" % n: na}
    for P in ranks:
        ddir = os.path.join(work, "data_P%d" % P)
        fitlib.write_data(ddir, "d.txt", x, y, sig)
        res = fitlib.run_stages(repo, "gauss", ddir, "d.txt", "r", "core_maths", n, nranks=P, seed=ctx.seed % 10000, timeout=1500)
        rep.case(key=("stages", P), sample={"ranks": P, "uniques": nu, "functions": na, "exit": [r[0] for r in res]})
        inp = {"basis": "core_maths", "n": n, "ranks": P, "x": x.tolist(), "y": y.tolist(), "sigma": 0.1}
        if any(r[0] != 0 for r in res):
            badr = [i for i, r in enumerate(res) if r[0] != 0]
            rep.fail("failing-input", "fitting stages do not complete on every rank with %d ranks from a fresh directory: ranks %s: %s" % (
                P, badr, res[badr[0]][2].strip().splitlines()[-1:]), "C14:stages:rank-crash", input=inp, observed=res[badr[0]][2][-1200:])
            continue
        od = fitlib.outdir(ddir, "r")
        tabs = {}
        bad = False
        for fn, want in files.items():
            t = fitlib.load_table(os.path.join(od, fn))
            tabs[fn] = t
            if t is None or len(t) != want:
                rep.fail("failing-input", "%s has %s rows with %d ranks, expected one row per function (%d)" % (fn, None if t is None else len(t), P, want),
                         "C14:stages:row-count", input=inp, observed=None if t is None else len(t), expected=want)
                bad = True
        if bad:
            continue
        # row i of the fit output refers to function i: its likelihood is reproduced by function i at row i's parameters
        for i, row in enumerate(tabs["negloglike_comp%d.dat" % n]):
            if not np.isfinite(row[0]):
                continue
            nll = fitlib.gauss_nll(lib["uniq"][i], row[1:], x, y, sig)
            if not abs(nll - row[0]) <= 1e-4 * (1 + abs(nll)):
                rep.fail("failing-input", "negloglike row %d does not refer to function %d (%s) with %d ranks: likelihood at the row's parameters is %r, row says %r" % (
                    i, i, lib["uniq"][i], P, nll, row[0]), "C14:stages:row-alignment:fit", input=dict(inp, row=i), observed=row[0], expected=nll)
                bad = True
                break
        if bad:
            continue
        # the later stages are deterministic functions of the fit output: P ranks must give the 1-rank files byte for byte
        keep = os.path.join(work, "keep_P%d" % P)
        os.makedirs(keep)
        later = [f for f in files if not f.startswith("negloglike")] + ["final_%d.dat" % n]
        for f in later:
            shutil.copy(os.path.join(od, f), os.path.join(keep, f))
        res1 = fitlib.run_stages(repo, "gauss", ddir, "d.txt", "r", "core_maths", n, stages="fisher,match,combine", nranks=1, timeout=1500)
        if res1[0][0] != 0:
            rep.fail("broken-correspondence", "1-rank re-run of the deterministic stages failed", "C14:stages:rerun", observed=res1[0][2][-800:], theorem="stage alignment")
            continue
        for f in later:
            if not filecmp.cmp(os.path.join(od, f), os.path.join(keep, f), shallow=False):
                rep.fail("failing-input", "%s produced with %d ranks differs from the 1-rank result on the same fit output: rows are not one per function in file order" % (f, P),
                         "C14:stages:row-alignment:%s" % f.split("_comp")[0], input=inp)
                break
        rep.traces += P
    shutil.rmtree(work, ignore_errors=True)


def spec_tiles(rows):
    """Direct statement of the property on the implementation's outputs."""
    bad = []
    byNP = {}
    for N, P, r, si, gf in rows:
        byNP.setdefault((N, P), []).append((r, si, gf))
    for (N, P), lst in sorted(byNP.items()):
        lst.sort()
        cur = 0
        for r, si, gf in lst:
            if isinstance(si, str) or (si != [] and len(si) != 2):
                bad.append(("split_idx", N, P, r, si)); break
            if si:
                if si[0] != cur or si[1] < si[0]:
                    bad.append(("split_idx", N, P, r, si)); break
                cur = si[1] + 1
        else:
            if cur != N:
                bad.append(("split_idx-cover", N, P, None, cur))
        got = []
        for r, si, gf in lst:
            if isinstance(gf, str):
                bad.append(("get_functions", N, P, r, gf)); break
            # the slice each later stage takes from a table with one row per function
            table = list(range(N))
            if table[gf[1]:gf[2]] != gf[0]:
                bad.append(("get_functions-slice", N, P, r, gf)); break
            got += gf[0]
        else:
            if got != list(range(N)):
                bad.append(("get_functions-cover", N, P, None, got))
    return bad


def run_ctor_schedule(ctx, nranks, sched):
    """Run the real constructor in `nranks` processes from a fresh directory, granting
    isdir/mkdir calls in the order `sched`.  Returns {rank: 'ok' | 'EXC:...'}"""
    gdir = esrv.mkscratch("gate")
    ddir = esrv.mkscratch("data")
    with open(os.path.join(ddir, "data.txt"), "w") as f:
        f.write("1.0 2.0 0.1\n2.0 3.0 0.1\n3.0 5.0 0.2\n")
    procs = []
    for r in range(nranks):
        env = esrv.py_env(ctx.scratch, extra={"FSGATE_DIR": gdir, "FSGATE_RANK": str(r)})
        procs.append(subprocess.Popen([esrv.PY, IMPL, "ctor_gated", ddir], env=env,
                                      stdout=subprocess.PIPE, stderr=subprocess.PIPE, text=True))
    sys.path.insert(0, os.path.join(esrv.VERIF, "harness", "lib"))
    import fsgate
    c = fsgate.Controller(gdir, nranks)
    try:
        res = c.run(sched)
    except Exception as e:
        res = {"controller": "EXC:%s" % e}
    for p in procs:
        try:
            p.communicate(timeout=60)
        except subprocess.TimeoutExpired:
            p.kill()
    log = c.log
    shutil.rmtree(gdir, ignore_errors=True)
    shutil.rmtree(ddir, ignore_errors=True)
    return res, log


def search(ctx):
    rep = ctx.report
    # (i) tiling, stated directly on the implementation's outputs
    for b in spec_tiles(getattr(ctx, "arith", []))[:3]:
        rep.fail("failing-input", "slices do not tile 0..N-1: %r" % (b,), "C14:tiling:%s" % b[0],
                 input={"N": b[1], "P": b[2], "rank": b[3]}, observed=b[4],
                 expected="contiguous, rank-ordered, disjoint, covering slices")
    # (ii) constructor under chosen interleavings of the ranks' directory calls (real processes)
    scheds = [(2, [0, 1, 0, 1]), (2, [0, 1, 1, 0]), (2, [0, 0, 1, 1])]
    if not ctx.quick:
        scheds += [(2, list(s)) for s in set(itertools.permutations([0, 0, 0, 1, 1, 1]))]
        scheds += [(3, [0, 1, 2, 0, 1, 2]), (3, [2, 1, 0, 0, 1, 2]), (3, [0, 1, 2, 2, 1, 0])]
    for n, s in scheds:
        res, log = run_ctor_schedule(ctx, n, s)
        rep.case(key=("sched", n, tuple(s)), sample={"ranks": n, "schedule": s, "granted_calls": log[:8], "result": res})
        badr = {r: v for r, v in res.items() if v != "ok"}
        if badr:
            rep.fail("failing-input", "Likelihood constructor fails on some rank under an interleaving of start-up "
                     "directory calls from a fresh directory: %r" % (badr,), "C14:ctor:mkdir-race",
                     input={"ranks": n, "schedule": s, "granted_calls": log}, observed=res, expected="every rank completes")
            break

LEVEL_TEXT = ("Machine-checked theorems (Coq) that the slice arithmetic of split_idx and get_functions tiles 0..N-1 for EVERY N>=0 and P>=1 "
              "(incl. P>N, N=0), stated on a model regenerated from the source by a fail-closed translator on every run, so a code change changes the "
              "theorem's subject; plus an interleaving model of start-up directory creation proved safe for every schedule and rank count "
              "(rank-0-then-barrier, makedirs(exist_ok)) and refuted for the unguarded isdir/mkdir constructor. Tests can only sample (N,P) and never control interleavings.")
LEVEL_NOTE = ("Trusted: Coq kernel/vm_compute; translator partition.py/pyz.py and Common/Py.v idiom models (validated by an exhaustive (N,P,rank) sweep against the real functions each run); "
              "hand-written FS model tied by traced os call sequences; float ceil = integer ceil below 2^53; cat/sort -V join order and numpy text I/O are exercised, not proved. "
              "No axioms (Print Assumptions: closed under the global context).")
TECHNIQUE = "Coq proof over translator-generated model (lia/nia tiling lemma) + invariant proof over an interleaving FS model; correspondence sweep and gated real-process schedule replay"
