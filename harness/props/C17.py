"""C17 -- parameter-map bookkeeping: file round trip and inverse-pair cancellation."""
import itertools
import json
import math
import os
import re
import shutil

import esrv

PROPS_V = "Props/C17.v"
# functions the hand-written model of this property was written against (normalised source stored under harness/corr/guards/;
# a difference is reported as broken-correspondence: the theorems then no longer speak about the current source)
SOURCE_GUARDS = [
    ("esr/generation/simplifier.py", "load_subs"),
]

TRANSLATORS = ["cancel", "requote", "alldup"]
TRUSTED = [
    "translator harness/translate/alldup.py: simplifier.get_all_dup is regenerated into Gen/GenAllDup.v on every run (preamble matched literally: all_a is the "
    "list of the symbols a0..a_{k-1}; str({a: -a}), str({a: 1/a}), str({a_i: a_j, a_j: a_i}) become the constructors SNeg/SInv/SRen of the hand model's "
    "abstraction of the printed strings -- sympy's printing of these dicts is trusted to be injective; itertools.combinations(np.flip(np.arange(k)), 2) "
    "is Common/Np.np_combinations2 on the reversed index list) and proved equal to the model's list for every max_param (C17_code_all_dup_is_model)",
    "Coq 8.16.1 kernel + vm_compute (no native_compute)",
    "Print Assumptions: text-side theorems, loop = cancel, all_dup_spec, removes_pairs, nan, and the rational-number (Qc) composition theorem are closed "
    "under the global context; the real-number statements (C17_all_dup_involutive, C17_cancel_preserves_composition) list the standard-library Reals axioms "
    "ClassicalDedekindReals.sig_forall_dec and FunctionalExtensionality.functional_extensionality_dep",
    "hand-written models coq/Model/InvSubsText.v (str.replace, the four replaces, a literal_eval fragment, csv rows without quoting, array_split/gather, "
    "the emitted template family) and coq/Model/SubsCancel.v (get_all_dup, the index loop of simplify_inv_subs, simultaneous substitution semantics), "
    "tied to the source by the correspondence runs below on every check",
    "translator harness/translate/cancel.py + pyz.py (fail-closed Python ast -> Gallina): simplifier.simplify_inv_subs is regenerated into coq/Gen/GenCancel.v on every run "
    "and proved equal to the hand model for every chain (C17_code_is_model), so the cancellation theorems (C17_code_*) are about the code as it is now",
    "sympy's str() of the value expressions, sympify of the key/value strings, csv module, numpy array_split: exercised (whole bounded family, 1-5+ ranks), not proved",
    "MPI stand-in harness/fakempi (pickling gather/bcast for >1 rank)",
]
ASSUMPTIONS = [
    "the simplifier records only members of the modelled template family (every cell produced by real generation runs and by sympy_simplify on crafted "
    "inputs is classified into the family on each run; an unclassifiable cell is a correspondence failure)",
    "chain elements are compared as strings (duplicate_checker loads with use_sympy=False); the abstraction string -> sub is injective",
    "float exponent 1/3 is printed with 15 digits: written and reloaded value agree to 1e-12, not bit for bit",
    "composition is compared where the original chain is defined (all reciprocal arguments non-zero, no nan step)",
    "real mpi4py's `isinstance(all_subs, int)` work-around branch in load_subs is not reachable with the stand-in and is not modelled",
]
IMPL = os.path.join(esrv.VERIF, "harness", "corr", "c17_impl.py")
BASIS = [["x", "a"], ["inv", "sqrt_abs", "square", "exp", "log_abs"], ["+", "*", "-", "/", "pow"]]
POINTS = [[0.7, -1.3, 2.1, -0.4, 1.9, -2.2], [-1.9, 0.6, -0.8, 1.7, -0.3, 0.9], [3.2, 2.5, 0.9, 1.1, 0.5, 1.4]]

# ------------------------------------------------------------------ descriptors


def classify(s):
    """cell string -> template descriptor (the inverse of the model's show_tmpl); None if outside the family"""
    if s == "nan":
        return ["nan"]
    m = re.match(r'^\{(.+)\}$', s)
    if not m:
        return None
    items = m.group(1).split(", ")
    kv = []
    for it in items:
        mm = re.match(r'^a(0|[1-9]\d*): (.+)$', it)
        if not mm:
            return None
        kv.append((int(mm.group(1)), mm.group(2)))
    if all(re.match(r'^a(0|[1-9]\d*)$', v) for _, v in kv):
        if len(set(k for k, _ in kv)) != len(kv):
            return None
        return ["ren", [[k, int(v[1:])] for k, v in kv]]
    if len(kv) != 1:
        return None
    i, v = kv[0]
    P = "a%d" % i
    N = r'([1-9]\d*)'
    if v == "-" + P:
        return ["neg", i]
    if v == "1/" + P:
        return ["inv", i]
    mm = re.match(r'^(-?)(?:' + N + r'\*)?' + re.escape(P) + r'(?:/' + N + r')?$', v)
    if mm:
        n = int(mm.group(2) or 1)
        d = int(mm.group(3) or 1)
        if (n, d) == (1, 1) or n == 1 and mm.group(2) or d == 1 and mm.group(3) or math.gcd(n, d) != 1:
            return None
        return ["scale", i, 1 if mm.group(1) else 0, n, d]
    mm = re.match(r'^' + re.escape(P) + r'\*\*\((-?)1/' + N + r'\)$', v)
    if mm and int(mm.group(2)) >= 2:
        return ["root", i, 1 if mm.group(1) else 0, int(mm.group(2))]
    A = "Abs(%s)" % P
    fixed = {A: ["absroot", i, 0, 1], "1/" + A: ["absroot", i, 1, 1],
             "sqrt(%s)" % A: ["absroot", i, 0, 2], "1/sqrt(%s)" % A: ["absroot", i, 1, 2],
             "sqrt(%s)*sign(%s)" % (A, P): ["absrootsign", i, 0, 2], "sign(%s)/sqrt(%s)" % (P, A): ["absrootsign", i, 1, 2],
             "exp(%s)" % P: ["exp", i], "log(%s)" % A: ["logabs", i], P + "**0.333333333333333": ["fcbrt", i],
             A + "**0.333333333333333": ["absfcbrt", i], "nan": ["valnan", i]}
    if v in fixed:
        return fixed[v]
    mm = re.match(r'^' + re.escape(A) + r'\*\*\((-?)1/' + N + r'\)$', v)
    if mm and int(mm.group(2)) >= 3:
        return ["absroot", i, 1 if mm.group(1) else 0, int(mm.group(2))]
    mm = re.match(r'^' + re.escape(A) + r'\*\*\(1/' + N + r'\)\*sign\(' + re.escape(P) + r'\)$', v)
    if mm and int(mm.group(1)) >= 3:
        return ["absrootsign", i, 0, int(mm.group(1))]
    mm = re.match(r'^sign\(' + re.escape(P) + r'\)/' + re.escape(A) + r'\*\*\(1/' + N + r'\)$', v)
    if mm and int(mm.group(1)) >= 3:
        return ["absrootsign", i, 1, int(mm.group(1))]
    mm = re.match(r'^' + re.escape(P) + r'\*\*' + N + r'$', v)
    if mm and int(mm.group(1)) >= 2:
        return ["intpow", i, int(mm.group(1))]
    return None


def cb(b):
    return "true" if b else "false"


def coq_tmpl(d):
    k = d[0]
    if k == "nan":
        return "TNan"
    if k == "ren":
        return "(TRename [%s])" % "; ".join("(%d,%d)" % (a, b) for a, b in d[1])
    if k in ("neg", "inv", "exp", "logabs", "fcbrt", "absfcbrt", "valnan"):
        return "(%s %d)" % ({"neg": "TNeg", "inv": "TInv", "exp": "TExp", "logabs": "TLogAbs", "fcbrt": "TFloatCbrt",
                             "absfcbrt": "TAbsFloatCbrt", "valnan": "TValNan"}[k], d[1])
    if k == "scale":
        return "(TScale %d %s %d %d)" % (d[1], cb(d[2]), d[3], d[4])
    if k in ("root", "absroot", "absrootsign"):
        return "(%s %d %s %d)" % ({"root": "TRoot", "absroot": "TAbsRoot", "absrootsign": "TAbsRootSign"}[k], d[1], cb(d[2]), d[3])
    if k == "intpow":
        return "(TIntPow %d %d)" % (d[1], d[2])
    raise ValueError(d)


def coq_sub(s, others):
    """chain element (string or 'nan') -> Coq term of type sub; `others` numbers the opaque strings"""
    d = classify(s)
    if d is not None:
        if d[0] == "nan":
            return "SNan"
        if d[0] == "neg":
            return "(SNeg %d)" % d[1]
        if d[0] == "inv":
            return "(SInv %d)" % d[1]
        if d[0] == "ren":
            return "(SRen [%s])" % "; ".join("(%d,%d)" % (a, b) for a, b in d[1])
    if s not in others:
        others[s] = len(others)
    return "(SOther %d)" % others[s]


def coq_str(s):
    return '"' + s.replace('"', '""') + '"'


def cellstr(c):
    """canonical text of a read cell: nan | k@v#k@v (the generated Coq files print the model's cells the same way)"""
    if c == "nan":
        return "nan"
    return "#".join("%s@%s" % (k, v) for k, v in c)


HEAD = """From Coq Require Import String Ascii List Arith NArith Bool.
From ESRV Require Import Common.Corr Model.InvSubsText Model.SubsCancel.
Import ListNotations.
Open Scope string_scope.
Definition s2 (l : str) : string := string_of_list_ascii l.
Fixpoint joinw (sep : str) (l : list str) : str :=
  match l with [] => [] | [x] => x | x :: r => (x ++ sep ++ joinw sep r)%list end.
Definition cellstr (c : cell) : str :=
  match c with
  | CNan => lit "nan"
  | CError => lit "ERROR"
  | CDict d => joinw (lit "#") (map (fun kv => (fst kv ++ lit "@" ++ snd kv)%list) d)
  end.
Definition rowstr (r : list cell) : str := joinw (lit ";") (map cellstr r).
Definition tablestr (t : list (list cell)) : string := s2 (joinw (lit "!") (map rowstr t)).
Definition sub_tmpl (s : sub) : tmpl :=
  match s with SNan => TNan | SNeg i => TNeg i | SInv i => TInv i | SRen l => TRename l | SOther _ => TNan end.
Definition eqs (a : str) (b : string) : bool := str_eqb a (lit b).
"""


def coq_strings(out):
    return re.findall(r'"((?:[^"]|"")*)"', out)


def tag_ok(out, tag):
    flat = " ".join(out.split()).replace("%string", "")
    return ('("%s", [])' % tag) in flat


def impl(ctx, args, stdin=None, timeout=1500):
    rc, out, err = esrv.run_py(ctx.scratch, IMPL, args, stdin=stdin, timeout=timeout,
                               extra={"ESR_VERIF_BASIS": json.dumps(BASIS)})
    if rc != 0:
        raise RuntimeError("c17_impl %s failed rc=%s: %s" % (args[0], rc, err[-1500:]))
    return json.loads(out)


# ------------------------------------------------------------------ correspondence

def corr_family(ctx):
    """(i-a) every member of the model's family: show_tmpl is sympy's str of the object the simplifier builds;
       (i-b) written with the real csv path, reloaded by the real load_subs under several rank counts, compared
       with the model's read_cell."""
    rep = ctx.report
    rng = esrv.rng(ctx.seed, "C17/family")
    if ctx.quick:
        # all of family 3 12, plus a seeded sample of the members of family 4 12 that mention a3
        extra = []
        for _ in range(220):
            ln = rng.randint(1, 4)
            keys = rng.sample(range(4), ln)
            l = [[k, rng.randrange(4)] for k in keys]
            if any(3 in kv for kv in l):
                extra.append(["ren", l])
        for _ in range(120):
            kind = rng.choice(["scale", "root", "absroot", "absrootsign", "intpow", "neg", "inv", "exp", "logabs", "fcbrt", "absfcbrt", "valnan"])
            if kind == "scale":
                n_, d_ = rng.randint(1, 12), rng.randint(1, 12)
                if math.gcd(n_, d_) != 1 or (n_, d_) == (1, 1):
                    continue
                extra.append(["scale", 3, rng.randint(0, 1), n_, d_])
            elif kind == "root":
                extra.append(["root", 3, rng.randint(0, 1), rng.choice([3, 5, 7, 9, 11, 13])])
            elif kind == "absroot":
                extra.append(["absroot", 3, rng.randint(0, 1), rng.randint(1, 13)])
            elif kind == "absrootsign":
                extra.append(["absrootsign", 3, rng.randint(0, 1), rng.randint(2, 13)])
            elif kind == "intpow":
                extra.append(["intpow", 3, rng.randint(2, 12)])
            else:
                extra.append([kind, 3])
        fam = "(family 3 12 ++ [%s])%%list" % "; ".join(coq_tmpl(d) for d in extra)
        famdesc = "family 3 12 plus %d seeded members of family 4 12 that mention a3" % len(extra)
    else:
        fam = "(family 4 12)"
        famdesc = "family 4 12 (all members)"
    ctx.famdesc = famdesc
    v = HEAD + """
Definition fam : list tmpl := %s.
Eval vm_compute in ("INFAM", failing tmpl_ok fam).
Eval vm_compute in (map (fun t => s2 (show_tmpl t)) fam, map (fun t => s2 (cellstr (read_cell (show_tmpl t)))) fam).
""" % fam
    rc, out = esrv.coq_run(v, timeout=1500)
    okfam = tag_ok(out, "INFAM")
    out = out.split('"INFAM"', 1)[1] if '"INFAM"' in out else out
    strs = coq_strings(out)
    if rc != 0 or len(strs) % 2 or not strs or not okfam:
        rep.fail("broken-correspondence", "could not evaluate the model family", "C17:family-eval", observed=out[-1500:], theorem="family 4 12")
        return
    n = len(strs) // 2
    shown, read = strs[:n], strs[n:]
    ctx.family = shown
    descs = [classify(s) for s in shown]
    bad = [s for s, d in zip(shown, descs) if d is None]
    if bad:
        rep.fail("broken-correspondence", "harness classifier does not recognise model family members: %r" % bad[:5], "C17:classify",
                 observed=bad[:20], theorem="show_tmpl / classify")
        return
    built = impl(ctx, ["build"], stdin=json.dumps(descs))
    diff = [(s, b) for s, b in zip(shown, built) if s != b]
    for s in shown[:3] + shown[-3:]:
        rep.case(key=("show", s), sample={"template": s})
    rep.evaluations += max(0, n - 6)
    for s in shown:
        rep.nontrivial.add(("show", s))
    if diff:
        rep.fail("broken-correspondence", "model show_tmpl differs from sympy's str of the object the simplifier builds: %r" % diff[:5],
                 "C17:show", observed=diff[:20], theorem="emitted_family_clean (show_tmpl)")
    # --- file round trip with the real writer path and the real load_subs
    rng = esrv.rng(ctx.seed, "C17/rows")
    idx = list(range(n))
    rng.shuffle(idx)
    rows, pos = [], 0
    while pos < len(idx):
        ln = rng.choice([0, 1, 1, 2, 3, 5, 8])
        rows.append(idx[pos:pos + ln])
        pos += ln
    rows += [[], []]
    d = esrv.mkscratch("c17f")
    try:
        spec = {"rows": [[descs[i] for i in row] for row in rows], "max_param": 4, "points": POINTS}
        impl(ctx, ["mkfile", d], stdin=json.dumps(spec))
        written = json.load(open(os.path.join(d, "written.json")))["rows"]
        ranks = [1, 2, 3, 5] if ctx.quick else [1, 2, 3, 4, 5, 8]
        ctx.loads = {}
        for P in ranks:
            res = esrv.run_mpi(ctx.scratch, IMPL, ["load", d, "4"] + (["num"] if P == ranks[0] else []), P, timeout=1500)
            if any(r[0] != 0 for r in res):
                rep.fail("broken-correspondence", "real load_subs failed under %d ranks" % P, "C17:load-crash:%d" % P,
                         observed=[r[2][-600:] for r in res if r[0] != 0][:2], theorem="rows_preserved")
                continue
            outs = [json.loads(r[1])[0] for r in res]
            ctx.loads[P] = (outs, rows, written)
            got = outs[0]["rows"]
            # model: row i = map read_cell (cells of row i), for every P (rows_preserved)
            want = [[read[i] for i in row] for row in rows]
            gots = [[("nan" if c.get("nan") else cellstr(c["kv"]) if "kv" in c else "OTHER") for c in row] for row in got]
            if gots != want:
                first = next((j for j in range(max(len(gots), len(want))) if j >= len(gots) or j >= len(want) or gots[j] != want[j]), None)
                rep.fail("broken-correspondence", "real load_subs under %d ranks differs from the model's load_subs (first differing row %r)" % (P, first),
                         "C17:load-corr:%d" % P, observed=gots[first] if first is not None and first < len(gots) else None,
                         expected=want[first] if first is not None and first < len(want) else None, theorem="rows_preserved / requote_roundtrip")
            txt = outs[0]["txt"]
            wtxt = [[shown[i] for i in row] for row in rows]
            if txt != wtxt:
                first = next((j for j in range(len(wtxt)) if j >= len(txt) or txt[j] != wtxt[j]), None)
                rep.fail("broken-correspondence", "load_subs(use_sympy=False) under %d ranks does not give back the written strings (row %r)" % (P, first),
                         "C17:load-txt:%d" % P, observed=txt[first] if first is not None and first < len(txt) else None,
                         expected=wtxt[first] if first is not None else None, theorem="chain elements are the written strings")
            rep.traces += sum(len(r) for r in rows)
            rep.case(key=("load", P), sample={"ranks": P, "rows": len(rows), "cells": sum(len(r) for r in rows), "first_rows": gots[:3]})
    finally:
        shutil.rmtree(d, ignore_errors=True)


def corr_rows(ctx):
    """row structure: a small file (empty rows, fewer rows than ranks) through the real load_subs and the model's
       load_subs P for many P, whole nested structure compared."""
    rep = ctx.report
    rng = esrv.rng(ctx.seed, "C17/smallrows")
    pool = ["{a0: -a0}", "nan", "{a0: 1/a0}", "{a1: a0, a0: a1}", "{a0: 2*a0/3}", "{a2: sign(a2)/Abs(a2)**(1/4)}", "{a0: a1, a1: a2, a2: a0}",
            "{a1: log(Abs(a1))}", "{a3: a3**0.333333333333333}"]
    files = []
    for nrows in ([0, 1, 2, 3, 7, 12] if ctx.quick else [0, 1, 2, 3, 4, 5, 7, 12, 23]):
        rows = [[rng.choice(pool) for _ in range(rng.choice([0, 0, 1, 2, 3]))] for _ in range(nrows)]
        files.append(rows)
    Ps = [1, 2, 3, 4, 5] if ctx.quick else [1, 2, 3, 4, 5, 6, 7, 9, 13]
    dirs, models = [], []
    try:
        for rows in files:
            descs = [[classify(c) for c in row] for row in rows]
            d = esrv.mkscratch("c17r")
            dirs.append(d)
            impl(ctx, ["mkfile", d], stdin=json.dumps({"rows": descs, "max_param": 4, "points": POINTS[:1]}))
            lines = [";".join(r) for r in rows]
            raw = open(os.path.join(d, "subs.txt"), newline="").read()
            if raw != "".join(l + "\r\n" for l in lines):
                rep.fail("broken-correspondence", "csv writer output is not the rows joined by ';' (model csv_write_row)", "C17:csv-write",
                         observed=raw[:300], expected=lines[:5], theorem="csv_roundtrip")
            v = HEAD + "Definition lines : list str := map lit [%s].\n" % "; ".join(coq_str(l) for l in lines)
            v += "Eval vm_compute in [%s].\n" % "; ".join("tablestr (load_subs %d lines)" % P for P in Ps)
            rc, out = esrv.coq_run(v)
            model = coq_strings(out) if rc == 0 else None
            if model is None or len(model) != len(Ps):
                rep.fail("broken-correspondence", "could not evaluate the model's load_subs", "C17:rows-eval", observed=out[-1000:], theorem="rows_preserved")
                model = None
            models.append(model)
        for pi, P in enumerate(Ps):
            res = esrv.run_mpi(ctx.scratch, IMPL, ["load", ",".join(dirs), "4", "small"], P, timeout=900)
            if any(r[0] != 0 for r in res):
                rep.fail("broken-correspondence", "real load_subs failed under %d ranks on the small files" % P, "C17:rows-crash",
                         input={"files": files, "ranks": P}, observed=[r[2][-500:] for r in res if r[0] != 0][:2], theorem="rows_preserved")
                continue
            allouts = [json.loads(r[1]) for r in res]
            for fi, rows in enumerate(files):
                if models[fi] is None:
                    continue
                mt = models[fi][pi]
                outs = [o[fi] for o in allouts]
                got = outs[0]["rows"]
                gt = "!".join(";".join(("nan" if c.get("nan") else cellstr(c["kv"]) if "kv" in c else "OTHER") for c in row) for row in got)
                rep.case(key=("rows", len(rows), P), nontrivial=(len(rows) > 0), sample={"rows": rows, "ranks": P, "loaded": gt})
                if not hasattr(ctx, "small_loads"):
                    ctx.small_loads = []
                ctx.small_loads.append((P, rows, got))
                rep.traces += 1
                if gt != mt or len(got) != len(rows):
                    rep.fail("broken-correspondence", "real load_subs (%d rows, %d ranks) differs from the model" % (len(rows), P), "C17:rows-corr",
                             input={"rows": rows, "ranks": P}, observed=gt, expected=mt, theorem="rows_preserved")
                if len(set(o["digest"] for o in outs)) != 1:
                    rep.fail("broken-correspondence", "ranks disagree on the broadcast result (%d rows, %d ranks)" % (len(rows), P), "C17:rows-bcast",
                             input={"rows": rows, "ranks": P}, theorem="rows_preserved (bcast)")
                if any(not o["only0_is_none"] for o in outs[1:]) or outs[0]["only0_is_none"]:
                    rep.fail("broken-correspondence", "bcast_res=False: rank 0 must hold the list and the others None", "C17:rows-only0",
                             input={"rows": rows, "ranks": P}, theorem="load_subs(bcast_res=False)")
    finally:
        for d in dirs:
            shutil.rmtree(d, ignore_errors=True)


ALPHA2 = ["{a0: -a0}", "{a1: -a1}", "{a0: 1/a0}", "{a1: 1/a1}", "{a1: a0, a0: a1}", "{a0: a1, a1: a0}", "nan", "{a0: 2*a0}", "{a1: a0}"]
ALPHA3 = ["{a0: -a0}", "{a2: 1/a2}", "{a2: a0, a0: a2}", "{a0: a2, a2: a0}", "{a2: a1, a1: a2}", "{a0: a1, a1: a2, a2: a0}", "nan", "{a1: exp(a1)}"]


def corr_chains(ctx, alpha, k, L, tag):
    """(ii) every chain over the alphabet up to length L through the real simplify_inv_subs(chain, get_all_dup(k))
       against the model's index loop (sis_chain) and the structural cancel."""
    rep = ctx.report
    res = impl(ctx, ["chains"], stdin=json.dumps({"alphabet": alpha, "L": L, "k": k}))
    enc = res["enc"]
    others = {}
    terms = [coq_sub(s, others) for s in alpha]
    A = len(alpha)
    code = "Definition alpha : list sub := [%s].\n" % "; ".join(terms)
    code += """Fixpoint pos_in (s : sub) (l : list sub) (i : N) : N :=
  match l with
  | [] => 0%%N
  | x :: r => match s, x with
              | SNan, SNan => i
              | _, _ => if sub_eqb x s then i else pos_in s r (i + 1)%%N
              end
  end.
Definition enc (c : list sub) : N := fold_left (fun v s => (v * %d + pos_in s alpha 1)%%N) c 0%%N.
Fixpoint chains (L : nat) : list (list sub) :=
  match L with O => [[]] | S L' => flat_map (fun a => map (cons a) (chains L')) alpha end.
Definition upto (L : nat) : list (list sub) := flat_map chains (seq 0 (S L)).
Definition chk_loop (p : list sub * N) : bool :=
  match sis_chain (fst p) (all_dup %d) with Some c => N.eqb (enc c) (snd p) | None => false end.
Definition chk_struct (p : list sub * N) : bool := N.eqb (enc (cancel (all_dup %d) (fst p))) (snd p).
""" % (A + 1, k, k)
    nchains = sum(A ** l for l in range(L + 1))
    if len(enc) != nchains:
        rep.fail("broken-correspondence", "chain driver returned %d results for %d chains" % (len(enc), nchains), "C17:chains-driver", theorem="cancel")
        return
    shard = 8000      # a 40 000-element literal overflowed Coq's stack once (thorough tier)
    all_chains = None
    for s0 in range(0, nchains, shard):
        part = enc[s0:s0 + shard]
        v = HEAD + code + "Definition expected : list N := [%s]%%N.\n" % "; ".join(part)
        v += "Definition cases := combine (firstn %d (skipn %d (upto %d))) expected.\n" % (len(part), s0, L)
        v += 'Eval vm_compute in ("LEN", if Nat.eqb (length cases) %d then [] else [0]).\n' % len(part)
        v += 'Eval vm_compute in ("LOOP", failing chk_loop cases).\n'
        v += 'Eval vm_compute in ("STRUCT", failing chk_struct cases).\n'
        rc, out = esrv.coq_run(v, timeout=1500)
        if not (rc == 0 and tag_ok(out, "LEN") and tag_ok(out, "LOOP") and tag_ok(out, "STRUCT")):
            # decode the first failing index for the report
            m = re.search(r'\("(LOOP|STRUCT)",\s*\[(\d+)', " ".join(out.split()).replace("%string", ""))
            bad = None
            if m:
                gi = s0 + int(m.group(2))
                if all_chains is None:
                    all_chains = [c for l in range(L + 1) for c in itertools.product(range(A), repeat=l)]
                bad = [alpha[i] for i in all_chains[gi]]
            rep.fail("broken-correspondence", "real simplify_inv_subs and the model (index loop / cancel) differ on a chain over %s" % tag,
                     "C17:chains-corr:%s" % tag, input={"chain": bad, "k": k}, observed=out[-800:], theorem="C17_loop_is_cancel / cancel")
            break
    rep.traces += nchains
    rep.evaluations += nchains
    rep.nontrivial.add(("chains", tag, L))
    rep.case(key=("chains", tag, L, "n"), sample={"alphabet": alpha, "k": k, "max_length": L, "chains": nchains})
    # get_all_dup(k) as a list of strings, in order
    dups = res["all_dup"]
    v = HEAD + "Eval vm_compute in [%s].\n" % "; ".join(
        "s2 (joinw (lit \"|\") (map (fun s => show_tmpl (sub_tmpl s)) (all_dup %d)))" % kk for kk in range(7))
    rc, out = esrv.coq_run(v)
    model = coq_strings(out)
    want = ["|".join(dups[str(kk)]) for kk in range(7)]
    if rc != 0 or model != want:
        rep.fail("broken-correspondence", "real get_all_dup(k), k=0..6, differs from the model all_dup", "C17:all-dup", observed=want[:4],
                 expected=model[:4], theorem="C17_all_dup_spec")
    rep.traces += 7


def corr_emitted(ctx):
    """cells recorded by the REAL simplifier (crafted sympy_simplify inputs and a real generation run) are members of the
       family with show_tmpl = the recorded text; the final file of the generation run is the model's cancel of the
       concatenated per-round rows."""
    rep = ctx.report
    em = impl(ctx, ["emit"])
    cells = set()
    for r in em:
        for c in (r["cells"] or []):
            cells.add(c)
    C = 4 if ctx.quick else 5
    gen = impl(ctx, ["gen", str(C)], timeout=2400)
    ctx.gen = gen
    for g in gen:
        for rd in g["rounds"]:
            for row in rd["rows"]:
                cells.update(row)
        for row in g["final"]:
            cells.update(row)
    cells = sorted(cells)
    ctx.emitted = cells
    descs = [classify(c) for c in cells]
    bad = [c for c, d in zip(cells, descs) if d is None]
    if bad:
        rep.fail("broken-correspondence", "the simplifier records a substitution outside the modelled family: %r" % bad[:5],
                 "C17:family-escape", observed=bad[:20], theorem="emitted_family_clean (family)")
    ok = [(c, d) for c, d in zip(cells, descs) if d is not None]
    v = HEAD + "Definition cs : list (tmpl * string) := [%s].\n" % "; ".join("(%s, %s)" % (coq_tmpl(d), coq_str(c)) for c, d in ok)
    v += 'Eval vm_compute in ("EMIT", failing (fun p => andb (eqs (show_tmpl (fst p)) (snd p)) (tmpl_ok (fst p))) cs).\n'
    rc, out = esrv.coq_run(v)
    for c, d in ok:
        rep.case(key=("emitted", c), sample={"cell": c, "descriptor": d})
    if not (rc == 0 and tag_ok(out, "EMIT")):
        rep.fail("broken-correspondence", "a cell recorded by the real simplifier is not reproduced by show_tmpl or fails the side condition",
                 "C17:emit-show", observed=out[-1200:], theorem="emitted_family_clean")
    # --- end-to-end: per function, rounds concatenated -> cancel -> row written by duplicate_checker.main
    for g in gen:
        K = g["max_param"]
        chains = [[] for _ in range(g["ntot"])]
        for rd in g["rounds"]:
            for row, j in zip(rd["rows"], rd["idx"]):
                chains[j] = chains[j] + row
        pre = g["pre"]
        others = {}
        sym = {}

        def t(s):
            if s not in sym:
                sym[s] = coq_sub(s, others)
            return sym[s]
        items = [(ch, pre[j] if j < len(pre) else None) for j, ch in enumerate(chains) if ch or (j < len(pre) and pre[j])]
        if len(pre) != g["ntot"]:
            rep.fail("broken-correspondence", "final inv_subs file has %d rows for %d functions" % (len(pre), g["ntot"]), "C17:gen-rows",
                     theorem="row i stays row i")
        table = sorted(set(s for ch, fr in items for s in ch + (fr or [])))
        for s in table:
            t(s)
        if not items:
            continue
        v = HEAD + "Definition tb : list sub := [%s].\n" % "; ".join(sym[s] for s in table)
        v += "Definition dec (l : list nat) : list sub := map (fun i => nth i tb SNan) l.\n"
        v += """Fixpoint pos_in (s : sub) (l : list sub) (i : nat) : nat :=
  match l with [] => 0 | x :: r => match s, x with SNan, SNan => i | _, _ => if sub_eqb x s then i else pos_in s r (S i) end end.
Definition same (a : list sub) (b : list nat) : bool := list_eqb Nat.eqb (map (fun s => pos_in s tb 0) a) b.
"""
        ix = {s: i for i, s in enumerate(table)}
        v += "Definition cs : list (list nat * list nat) := [%s].\n" % "; ".join(
            "([%s],[%s])" % (";".join(str(ix[s]) for s in ch), ";".join(str(ix[s]) for s in (fr or []))) for ch, fr in items)
        v += ('Eval vm_compute in ("GEN", failing (fun p => match sis_chain (dec (fst p)) (all_dup %d) with Some c => same c (snd p) | None => false end) cs).\n' % K)
        rc, out = esrv.coq_run(v, timeout=900)
        rep.traces += len(items)
        nt = sum(1 for ch, fr in items if fr is not None and len(fr) != len(ch))
        rep.case(key=("gen", g["compl"]), nontrivial=nt > 0,
                 sample={"complexity": g["compl"], "functions_with_chain": len(items), "chains_shortened": nt, "max_param": K})
        if not (rc == 0 and tag_ok(out, "GEN")):
            m = re.search(r'\("GEN",\s*\[(\d+)', " ".join(out.split()).replace("%string", ""))
            badc = items[int(m.group(1))] if m else None
            rep.fail("broken-correspondence", "complexity %d: a row of the final inv_subs file is not the model's cancellation of the concatenated rounds" % g["compl"],
                     "C17:gen-corr", input={"rounds_concatenated": badc[0] if badc else None, "max_param": K},
                     observed=badc[1] if badc else out[-600:], theorem="C17_loop_is_cancel (end to end)")
        # rows blanked by check_results stay aligned: final row is the pre row or empty
        moved = [j for j in range(min(len(pre), len(g["final"]))) if g["final"][j] != pre[j] and g["final"][j] != []]
        if moved or len(g["final"]) != len(pre):
            rep.fail("broken-correspondence", "check_results changed rows of the inv_subs file other than by blanking", "C17:gen-final",
                     observed=moved[:5], theorem="row i stays row i")


def corr_literal_eval(ctx):
    """the model's literal_eval fragment and the necessity examples of Props/C17.v on the real ast.literal_eval"""
    rep = ctx.report
    script = r'''
import ast, json, sys
def rq(s):
    s = s.replace("{", "{'"); s = s.replace("}", "'}"); s = s.replace(", ", "', '"); s = s.replace(": ", "': '"); return s
out = []
for s in json.load(sys.stdin):
    try:
        d = ast.literal_eval(rq(s))
        out.append([[k, v] for k, v in d.items()] if isinstance(d, dict) else "NOTDICT")
    except Exception as e:
        out.append("EXC")
json.dump(out, sys.stdout)
'''
    samples = ["{a0: Max(a0, a1)}", "{}", "{a0: a1, a1: a0}", "{a0: x: y}", "{a0: it's}", "{a0: a\\b}", "{a0: {a1}}", "{a0: -a0, a0: 1/a0}", "{a0 + a1: a1}",
               "{a0: a1,, a1: a0}", "{ a0:  a1}", "{a0:: a1}"]
    p = os.path.join(esrv.mkscratch("c17l"), "le.py")
    open(p, "w").write(script)
    rc, out, err = esrv.run_py(ctx.scratch, p, [], stdin=json.dumps(samples))
    real = json.loads(out)
    v = HEAD + "Eval vm_compute in [%s].\n" % "; ".join("s2 (cellstr (read_cell (lit %s)))" % coq_str(s) for s in samples)
    rc, out = esrv.coq_run(v)
    model = coq_strings(out) if rc == 0 else []
    for s, r, m in zip(samples, real, model):
        rm = "ERROR" if r in ("EXC", "NOTDICT") else cellstr(r)
        rep.case(key=("literal_eval", s), sample={"cell": s, "real": rm, "model": m})
        # the model may refuse more than Python (fragment), never disagree on an accepted input
        if m != "ERROR" and m != rm:
            rep.fail("broken-correspondence", "model literal_eval accepts %r with a different result than ast.literal_eval" % s, "C17:literal-eval",
                     input=s, observed=rm, expected=m, theorem="literal_eval_dict")
    if len(model) != len(samples):
        rep.fail("broken-correspondence", "could not evaluate read_cell samples", "C17:literal-eval-run", observed=out[-600:], theorem="literal_eval_dict")


def correspondence(ctx):
    rep = ctx.report
    corr_family(ctx)
    corr_rows(ctx)
    corr_chains(ctx, ALPHA2, 2, 4 if ctx.quick else 5, "k2")
    corr_chains(ctx, ALPHA3, 3, 3 if ctx.quick else 6, "k3")
    corr_emitted(ctx)
    corr_literal_eval(ctx)
    rep.rule = ("family: %s (model show_tmpl vs sympy str of the object built as in sympy_simplify); file: the same members written by the real "
                "csv path into rows of 0-8 cells, reloaded by the real load_subs under several rank counts vs model read_cell/load_subs; rows: small files "
                "(0-23 rows, empty rows) x rank counts up to more ranks than rows; chains: every chain over a 9-letter (k=2) and an 8-letter (k=3) alphabet of real "
                "strings up to the length bound through the real simplify_inv_subs vs the model loop and cancel; emitted: every cell recorded by the real "
                "simplifier on crafted inputs and by a real generation run, and each final row vs cancel of the concatenated rounds"
                % getattr(ctx, "famdesc", "?"))
    rep.exhaustive = True


# ------------------------------------------------------------------ search (spec side)

def close(a, b, tol=1e-9):
    if isinstance(a, str) or isinstance(b, str):
        return a == b
    za, zb = complex(*a), complex(*b)
    if math.isinf(za.real) or math.isinf(zb.real) or math.isinf(za.imag) or math.isinf(zb.imag):
        return repr(za) == repr(zb)
    return abs(za - zb) <= tol * max(1.0, abs(za), abs(zb))


def search(ctx):
    rep = ctx.report
    # (1) written vs reloaded maps, stated on the implementation's objects: same row, same number of cells, nan <-> nan,
    #     same keys in the same order, numerically equal values (1e-12), for every rank count
    nbad = 0
    for P, (outs, rows, written) in sorted(getattr(ctx, "loads", {}).items()):
        got = outs[0]["rows"]
        if len(got) != len(written):
            rep.fail("failing-input", "load_subs under %d ranks returns %d rows for a file of %d rows" % (P, len(got), len(written)),
                     "C17:roundtrip:row-count", input={"ranks": P, "rows": len(written)}, observed=len(got), expected=len(written))
            continue
        if len(set(o["digest"] for o in outs)) != 1:
            rep.fail("failing-input", "ranks hold different results after the broadcast (%d ranks)" % P, "C17:roundtrip:bcast",
                     input={"ranks": P}, observed=[o["digest"] for o in outs], expected="equal")
        for j, (grow, wrow) in enumerate(zip(got, written)):
            if nbad >= 3:
                break
            if len(grow) != len(wrow):
                nbad += 1
                rep.fail("failing-input", "row %d has %d cells after reload, %d were written (%d ranks)" % (j, len(grow), len(wrow), P),
                         "C17:roundtrip:row-shift", input={"ranks": P, "row": j, "written": [c["s"] for c in wrow]}, observed=len(grow), expected=len(wrow))
                continue
            for gc, wc in zip(grow, wrow):
                rep.evaluations += 1
                if wc.get("nan"):
                    if not gc.get("nan"):
                        nbad += 1
                        rep.fail("failing-input", "an unrecoverable step (nan) is not read back as nan (%d ranks)" % P, "C17:roundtrip:nan-lost",
                                 input={"ranks": P, "row": j, "cell": "nan"}, observed=gc, expected="nan")
                    continue
                if "kv" not in gc:
                    nbad += 1
                    rep.fail("failing-input", "cell %r is read back as %r (%d ranks)" % (wc["s"], gc, P), "C17:roundtrip:cell-lost",
                             input={"ranks": P, "row": j, "cell": wc["s"]}, observed=gc, expected=wc["kv"])
                    continue
                if [k for k, _ in gc["kv"]] != [k for k, _ in wc["kv"]]:
                    nbad += 1
                    rep.fail("failing-input", "keys of %r change in the round trip (%d ranks)" % (wc["s"], P), "C17:roundtrip:keys",
                             input={"ranks": P, "row": j, "cell": wc["s"]}, observed=gc["kv"], expected=wc["kv"])
                    continue
                if "num" in gc:
                    for pt, gn, wn in zip(POINTS, gc["num"], wc["num"]):
                        if not all(close(a, b, 1e-12) for a, b in zip(gn, wn)):
                            nbad += 1
                            rep.fail("failing-input", "value of %r changes in the round trip: %r at a=%r" % (wc["s"], gc["kv"], pt[:4]),
                                     "C17:roundtrip:value", input={"cell": wc["s"], "point": pt[:4], "ranks": P}, observed=gn, expected=wn)
                            break
        # ... and once more through the text mode: the rows load_subs(use_sympy=False) returns, written back the way
        # duplicate_checker.main writes inv_subs_<n>.txt and read again, are still the recorded mappings
        got2 = outs[0].get("rows_second")
        if got2 is not None:
            for j, (grow, wrow) in enumerate(zip(got2, written)):
                if nbad >= 3:
                    break
                if len(grow) != len(wrow):
                    nbad += 1
                    rep.fail("failing-input", "row %d has %d cells after the text-mode rewrite, %d were recorded (%d ranks)" % (j, len(grow), len(wrow), P),
                             "C17:roundtrip2:row-shift", input={"ranks": P, "row": j, "written": [c["s"] for c in wrow]}, observed=len(grow), expected=len(wrow))
                    continue
                for gc, wc in zip(grow, wrow):
                    rep.evaluations += 1
                    if wc.get("nan") or "num" not in gc:
                        if bool(wc.get("nan")) != bool(gc.get("nan")):
                            nbad += 1
                            rep.fail("failing-input", "cell %r comes back as %r after the text-mode rewrite (%d ranks)" % (wc["s"], gc, P),
                                     "C17:roundtrip2:cell", input={"ranks": P, "row": j, "cell": wc["s"]}, observed=gc, expected=wc.get("kv", "nan"))
                        continue
                    if [k for k, _ in gc["kv"]] != [k for k, _ in wc["kv"]]:
                        nbad += 1
                        rep.fail("failing-input", "keys of %r change when the text-mode rows are written back and read again (%d ranks)" % (wc["s"], P),
                                 "C17:roundtrip2:keys", input={"ranks": P, "row": j, "cell": wc["s"]}, observed=gc["kv"], expected=wc["kv"])
                        continue
                    for pt, gn, wn in zip(POINTS, gc["num"], wc["num"]):
                        if not all(close(a, b, 1e-12) for a, b in zip(gn, wn)):
                            nbad += 1
                            rep.fail("failing-input", "value of %r changes when the text-mode rows are written back and read again: %r at a=%r" % (
                                wc["s"], gc["kv"], pt[:4]), "C17:roundtrip2:value", input={"cell": wc["s"], "point": pt[:4], "ranks": P},
                                observed=gn, expected=wn)
                            break
        rep.case(key=("roundtrip", P), sample={"ranks": P, "rows": len(written)})
    # (1b) the small files (0..23 rows, fewer rows than ranks, empty rows): row i stays row i, with as many steps, nan <-> nan and the
    #      same keys, for every rank count -- stated on what was written, not on the model
    seen_small = set()
    for P, rows, got in getattr(ctx, "small_loads", []):
        shape_w = [[("nan" if c == "nan" else sorted(re.findall(r"(a\d+):", c))) for c in row] for row in rows]
        shape_g = [[("nan" if c.get("nan") else sorted(k for k, _ in c["kv"]) if "kv" in c else "?") for c in row] for row in got]
        rep.evaluations += 1
        if shape_g != shape_w and (len(rows), P) not in seen_small and len(seen_small) < 3:
            seen_small.add((len(rows), P))
            first = next((j for j in range(max(len(shape_g), len(shape_w))) if j >= len(shape_g) or j >= len(shape_w) or shape_g[j] != shape_w[j]), None)
            rep.fail("failing-input", "a file of %d rows read by %d ranks comes back with %d rows; first differing row %r" % (len(rows), P, len(got), first),
                     "C17:roundtrip:small-file", input={"rows": rows, "ranks": P},
                     observed=shape_g[first] if first is not None and first < len(shape_g) else "missing",
                     expected=shape_w[first] if first is not None and first < len(shape_w) else "no such row")
    # (2) composed map before/after the real cancellation, numerically, on the real objects
    rng = esrv.rng(ctx.seed, "C17/compose")
    fam3 = ["{a0: -a0}", "{a1: -a1}", "{a2: -a2}", "{a0: 1/a0}", "{a1: 1/a1}", "{a2: 1/a2}", "{a1: a0, a0: a1}", "{a0: a1, a1: a0}",
            "{a2: a0, a0: a2}", "{a2: a1, a1: a2}", "{a0: a2, a2: a0}", "{a0: 2*a0}", "{a1: -a1/3}", "{a0: exp(a0)}", "{a2: log(Abs(a2))}",
            "{a1: sqrt(Abs(a1))}", "{a0: a0**2}", "{a0: a1, a1: a2, a2: a0}", "{a2: a0}", "{a1: Abs(a1)**(1/4)*sign(a1)}", "{a0: a0**(1/3)}",
            "{a2: 1/sqrt(Abs(a2))}", "nan"]
    chains = []
    # exhaustive short chains over the self-inverse members plus two others, then random longer ones biased to repeats
    core = fam3[:8] + ["{a0: 2*a0}", "nan"]
    for L in range(0, 4 if ctx.quick else 5):
        if len(core) ** L <= (1200 if ctx.quick else 12000):
            chains += [list(c) for c in itertools.product(core, repeat=L)]
    nrand = 600 if ctx.quick else 6000
    for _ in range(nrand):
        L = rng.randint(2, 8)
        ch = []
        while len(ch) < L:
            s = rng.choice(fam3)
            ch.append(s)
            if rng.random() < 0.45:
                ch.append(s)
            if rng.random() < 0.15:
                ch.append(s)
        chains.append(ch[:9])
    rng.shuffle(chains)
    pts = [[rng.choice([-1, 1]) * rng.uniform(0.3, 2.5) for _ in range(3)] for _ in range(2)]
    res = []
    step = 1500
    for s0 in range(0, len(chains), step):
        res += impl(ctx, ["compose"], stdin=json.dumps({"chains": chains[s0:s0 + step], "k": 3, "points": pts, "convert_params": (80 if ctx.quick else 600) if s0 == 0 else 0}), timeout=2400)
    nfail = 0
    st = {"chains": len(chains), "shortened": 0, "points_compared": 0, "points_outside_domain": 0, "with_nan": 0, "convert_params_compared": 0}
    rep.extra["search_stats"] = st
    for ch, r in zip(chains, res):
        shortened = len(r["after"]) != len(ch)
        st["shortened"] += shortened
        rep.case(key=("compose", tuple(ch)), nontrivial=shortened, sample={"chain": ch, "after_cancellation": r["after"]} if shortened else None)
        if nfail >= 3:
            continue
        if r["nan_before"] != r["nan_after"]:
            nfail += 1
            rep.fail("failing-input", "cancellation changes whether the chain is unrecoverable (contains nan)", "C17:cancel:nan",
                     input={"chain": ch, "max_param": 3}, observed=r["after"], expected="nan kept")
            continue
        # only adjacent equal pairs of self-inverse strings may disappear
        if "before" not in r:
            st["with_nan"] += 1
            continue
        for pt, vb, va in zip(pts, r["before"], r["aft"]):
            if any(isinstance(x, str) for x in vb):
                st["points_outside_domain"] += 1
                continue          # original chain undefined at this point: outside the common domain
            st["points_compared"] += 1
            if not all(close(a, b, 1e-9) for a, b in zip(vb, va)):
                nfail += 1
                rep.fail("failing-input", "composition of the chain changes under simplify_inv_subs at a=%r" % (pt,), "C17:cancel:composition",
                         input={"chain": ch, "after": r["after"], "point": pt, "max_param": 3}, observed=va, expected=vb)
                break
        if "cp" in r:
            for (b, a) in r["cp"]:
                if isinstance(b, str) or isinstance(a, str):
                    continue
                st["convert_params_compared"] += 1
                if not all(close(x, y, 1e-7) for x, y in zip(b, a)):
                    nfail += 1
                    rep.fail("failing-input", "convert_params gives different parameters before/after simplify_inv_subs", "C17:cancel:convert-params",
                             input={"chain": ch, "after": r["after"], "point": pts[0], "max_param": 3}, observed=a, expected=b)
    # (3) the final file of the real generation run: composition of concatenated rounds == composition of the written row
    gen = getattr(ctx, "gen", None) or []
    gch = []
    for g in gen:
        if g["max_param"] != 3 and not (g["max_param"] <= 3):
            continue
        chs = [[] for _ in range(g["ntot"])]
        for rd in g["rounds"]:
            for row, j in zip(rd["rows"], rd["idx"]):
                chs[j] = chs[j] + row
        for j, ch in enumerate(chs):
            if ch and j < len(g["pre"]) and len(g["pre"][j]) != len(ch):
                gch.append((g["compl"], j, ch, g["pre"][j]))
    gch = gch[: (150 if ctx.quick else 1500)]
    if gch:
        res = impl(ctx, ["compose"], stdin=json.dumps({"chains": [c[2] for c in gch], "k": 3, "points": pts}), timeout=2400)
        for (compl, j, ch, fr), r in zip(gch, res):
            rep.case(key=("gen-compose", compl, j), sample={"complexity": compl, "function": j, "rounds": ch, "written": fr})
            if r["after"] != fr and nfail < 3:
                nfail += 1
                rep.fail("failing-input", "complexity %d function %d: the row written by duplicate_checker is not simplify_inv_subs of its rounds" % (compl, j),
                         "C17:gen:row", input={"rounds": ch, "complexity": compl, "function": j}, observed=fr, expected=r["after"])
            if "before" in r:
                for pt, vb, va in zip(pts, r["before"], r["aft"]):
                    if any(isinstance(x, str) for x in vb):
                        continue
                    if not all(close(a, b, 1e-9) for a, b in zip(vb, va)) and nfail < 3:
                        nfail += 1
                        rep.fail("failing-input", "generated chain changes its composition under cancellation", "C17:cancel:composition",
                                 input={"chain": ch, "after": r["after"], "point": pt, "max_param": 3}, observed=va, expected=vb)


LEVEL_TEXT = ("Machine-checked theorems (Coq): for EVERY dict whose key/value strings avoid { } ' \\ CR LF NUL and the substrings ', ' and ': ' (pairwise different keys, "
              "non-empty), load_subs' four replaces followed by literal_eval return the same keys in the same order with the same value strings; every one of the 8977 "
              "templates the simplifier can record for up to 4 parameters and integers up to 12 satisfies that condition (and the csv one); nan stays nan and only nan; for EVERY "
              "rank count P>=1 array_split/scatter/gather keeps row i at row i (empty rows stay empty). The index loop of simplify_inv_subs (i += 2, del_idx) is proved equal to a "
              "structural cancel for every chain; get_all_dup(k) is exactly sign flips, reciprocals and swaps below k, each an involution; for every chain, every meaning of the "
              "other steps and every parameter vector where the original chain is defined the kept chain has the same composition (over the reals and, axiom-free, the rationals); "
              "only adjacent equal members of all_dup are removed and nan is never removed. simplify_inv_subs itself is translated from the source on every run (Gen/GenCancel.v) and "
              "proved equal to that model for every chain, so these statements hold of the code as written. Tests can only sample templates, rank counts and chains.")
LEVEL_NOTE = ("Trusted: Coq kernel/vm_compute; the hand-written models (str.replace as left-to-right non-overlapping scan, a literal_eval fragment that refuses more than Python but never "
              "disagrees, csv rows without quoting, array_split division points) tied on every run to the real writer path, load_subs under 1-5(+) stand-in ranks, get_all_dup, "
              "simplify_inv_subs (all chains to the length bound), sympy_simplify on crafted inputs and a real generation run; sympy str/sympify are exercised on the whole family, "
              "not proved; float exponent 0.333333333333333 agrees to 1e-12 only. Reals statements depend on the stdlib axioms sig_forall_dec and functional_extensionality_dep; "
              "all others are closed.")
TECHNIQUE = ("Coq proofs over translator-generated simplify_inv_subs and get_all_dup (ast -> Gallina, refinement to the structural cancel / the model list) and hand-written models of the text pipeline (replace/literal_eval/csv/array_split) and of the cancellation loop with substitution semantics; "
             "finite family check by vm_compute with the bounds in the statement; correspondence by evaluating the model in Coq against the real code on the whole family, "
             "all short chains and real generation output")
