"""C04 -- exhaustive search is never beaten by a function it enumerated (MDL optimality)."""
import json
import math
import os
import shutil
import sys

import numpy as np

import esrv

sys.path.insert(0, os.path.join(esrv.VERIF, "harness", "lib"))

PROPS_V = "Props/C04.v"
TRANSLATORS = ["partition"]
TRUSTED = [
    "Coq 8.16.1 kernel + vm_compute; Print Assumptions: C04 theorems closed under the global context",
    "the Combine model (coq/Model/Combine.v) is tied to combine_DL.main by C06's correspondence on synthetic tables (exact) and here by re-stating the theorem on the real tables",
    "optimiser (scipy BFGS multi-start) and numerical Hessian (numdifftools) are oracles: their results enter the theorem as hypotheses and are tested against closed forms",
    "independent closed forms (weighted least squares, exact Hessian, MDL snapping rule, k ln n + sum ln|c|) in harness/lib/fitlib.py use no ESR code",
]
ASSUMPTIONS = [
    "C04 is partial: that BFGS and the numerical Hessian deliver the true minimiser/curvature is tested (tolerances below), not proved",
    "closed forms exist only for trees affine in their parameters; other trees are covered by the row-reproducibility clause only",
    "tolerances: DL(top) <= DL*(v) + 0.02 + 1e-3*|DL*|; likelihood re-evaluation 1e-5 relative (files carry 7 significant digits)",
]
LEVEL_TEXT = ("Coq theorems on the ranking model: the top row's description length is <= the pipeline's description length of EVERY variant of EVERY unique (all tables, all rank counts), "
              "every row is the sum of its three terms, and conditional optimality w.r.t. independently computed description lengths under the stated oracle contract. "
              "The contract and the real pipeline are then exercised: the four real stages run on data sets with planted truths, every final row is re-evaluated independently, and the top row is "
              "compared with the closed-form description length of every affine-in-parameters tree of the library.")
LEVEL_NOTE = ("Partial by nature: convergence of the optimiser and accuracy of the numerical Hessian are oracle contracts (tested, not proved). The table-level theorems are closed (no axioms) and "
              "rest on the Combine model tied by C06. Closed forms cover affine-in-parameter trees under Gaussian noise.")
TECHNIQUE = "Coq proof of table-level optimality on the combine_DL model (from C06 lemmas) + real four-stage pipeline runs checked against independent closed-form description lengths"


def datasets(ctx, lib, n, count, marginal_count=0):
    """planted truths drawn from the library's own variants (preferring variants with a non-empty chain), noise, seeds"""
    import liboracle as lo
    import fitlib
    rng = esrv.rng(ctx.seed, "c04-data-%d" % n)
    cand = []
    for i, (s, labels, subs) in enumerate(zip(lib["all"], lib["trees"], lib["subs"])):
        k = fitlib.nparams_of(s)
        if 1 <= k <= 2 and "zoo" not in s and "nan" not in s and "x" in s:
            chain = [c for c in subs if c.strip()]
            cand.append((0 if chain and "nan" not in chain else 1, i))
    cand.sort()
    # uniques whose cheapest recoverable variant needs a non-empty parameter map: their ranking depends on the transfer (C05)
    import collections
    byu = collections.defaultdict(list)
    for i, (m, subs, a) in enumerate(zip(lib["matches"], lib["subs"], lib["aifeyn"])):
        ch = [c for c in subs if c.strip()]
        byu[m].append((a, "empty" if not ch else ("nan" if "nan" in ch else "chain"), i))
    needs_chain = set()
    for u, vs in byu.items():
        e = [a for a, k, i in vs if k == "empty"]
        c = [(a, i) for a, k, i in vs if k == "chain"]
        if c and (not e or min(c)[0] < min(e) - 1e-9):
            needs_chain.add(min(c)[1])
    pri = [(p, i) for p, i in cand if i in needs_chain]
    # variants whose recorded chain has two or more different steps (the order of composition matters); parameter-only trees allowed
    multi = []
    for i, (s, subs) in enumerate(zip(lib["all"], lib["subs"])):
        ch = [c for c in subs if c.strip()]
        if len(set(ch)) >= 2 and "nan" not in ch and 1 <= fitlib.nparams_of(s) <= 2 and "zoo" not in s:
            multi.append(i)
    # a transferred parameter that is tiny or huge: the unresolved-parameter / zero-snapping branches of the matching stage
    def _sing(i):
        return any(t in lib["all"][i] for t in ("1/a", "/a", "**(-", "inv("))
    singular = [i for _, i in pri if _sing(i)] or [i for _, i in pri]
    # ... preferably uniques ALL of whose variants are singular when the parameter is set to zero (no sibling can stand in)
    allsing = [i for i in singular if all(_sing(j) for _, _, j in byu[lib["matches"][i]])]
    if allsing:
        singular = allsing
    # a one-parameter truth measured at about 3 sigma, so that |theta| is just below one coding step (|theta| sqrt(I/12) = 0.92): the
    # variants of its unique then part ways -- one that is defined at theta = 0 is snapped there (no parameter code, worse likelihood),
    # one that is singular at theta = 0 keeps the parameter for log 2 -- and only the minimum over the full description length
    # (likelihood included) ranks the unique correctly
    marginal = [i for _, i in cand if fitlib.nparams_of(lib["all"][i]) == 1 and _sing(i)
                and any(not _sing(j) for _, _, j in byu[lib["matches"][i]])]
    marginal = marginal or [i for _, i in cand if fitlib.nparams_of(lib["all"][i]) == 1]
    modes = ["chain", "extreme", "multi", "any", "extreme", "multi", "chain", "any"]
    out = []
    x = np.linspace(0.5, 3.0, 30)
    import mpmath as mp

    def margin(rec):
        """how far the planted tree's description length lies below that of every tree of another unique (affine trees, closed form):
        a data set where another function describes the data as well cannot show a mis-ranking of the planted unique"""
        nm = fitlib.mdl_numeric(rec["truth"], lib["trees"][rec["truth_index"]], 1, rec["x"], rec["y"], rec["sig"], rec["theta"])
        if nm is None or not math.isfinite(nm["DL"]):
            return -1e9
        mu = lib["matches"][rec["truth_index"]]
        best = float("inf")
        for j, (sj, lj) in enumerate(zip(lib["all"], lib["trees"])):
            kj = fitlib.nparams_of(sj)
            if lib["matches"][j] == mu or kj > 2 or "zoo" in sj or "nan" in sj:
                continue
            cf = fitlib.mdl_closed_form(sj, lj, kj, rec["x"], rec["y"], rec["sig"])
            if cf is not None and math.isfinite(cf["DL"]):
                best = min(best, cf["DL"])
        return best - nm["DL"]

    def attempt(mode, nextreme):
        scale = "moderate"
        if mode == "marginal" and marginal:
            i = marginal[rng.randrange(len(marginal))]
        elif mode == "multi" and multi:
            i = multi[rng.randrange(len(multi))]
        elif mode == "extreme" and singular:
            i = singular[rng.randrange(len(singular))]
            scale = "large" if nextreme % 2 == 0 else "small"
        elif mode == "chain" and pri:
            _, i = pri[rng.randrange(len(pri))]
        else:
            _, i = cand[rng.randrange(min(len(cand), 40))] if rng.random() < 0.7 else cand[rng.randrange(len(cand))]
        s = lib["all"][i]
        k = fitlib.nparams_of(s)
        lo_, hi_ = {"moderate": (0.5, 2.5), "large": (20.0, 80.0), "small": (0.01, 0.05)}[scale]
        if mode == "marginal":
            lo_, hi_ = 0.3, 5.0
        th = [rng.choice([-1, 1]) * rng.uniform(lo_, hi_) for _ in range(k)]
        try:
            y0 = np.array([float(lo.eval_string(s, mp.mpf(float(xi)), [mp.mpf(t) for t in th])) for xi in x])
        except Exception:
            return None
        if mode == "marginal" and k == 1 and np.mean(y0) > 0:
            # prefer the sign of the parameter that makes the curve negative: powers of x (positive) then cannot stand in for the truth,
            # so the planted unique is the one the ranking has to get right
            try:
                y1 = np.array([float(lo.eval_string(s, mp.mpf(float(xi)), [mp.mpf(-th[0])])) for xi in x])
                if np.all(np.isfinite(y1)) and np.mean(y1) < 0:
                    th, y0 = [-th[0]], y1
            except Exception:
                pass
        if not np.all(np.isfinite(y0)) or (np.ptp(y0) < 1e-3 and "x" in s) or np.max(np.abs(y0)) > 1e3:
            return None
        # the optimiser is an oracle of C04 (partial): truths with a singularity inside (or just outside) the data range give a
        # needle optimum that multi-start BFGS does not find -- recorded as a known finding on one stored data set
        # (harness/corpus/C04_pole.json); the generated data sets stay clear of that situation
        try:
            fine = np.array([float(lo.eval_string(s, mp.mpf(float(xi)), [mp.mpf(t) for t in th])) for xi in np.linspace(0.3, 3.2, 2000)])
        except Exception:
            return None
        if not np.all(np.isfinite(fine)) or np.max(np.abs(fine)) > 3 * (1 + np.max(np.abs(y0))):
            return None
        noise = rng.choice([0.05, 0.2, 0.5])
        nrng = np.random.default_rng(rng.randrange(10 ** 9))
        e = nrng.normal(0, 1, size=len(x))
        if mode == "marginal" and k == 1:
            h = 1e-6 * abs(th[0])
            try:
                g = np.array([float(lo.eval_string(s, mp.mpf(float(xi)), [mp.mpf(th[0] + h)]) - lo.eval_string(s, mp.mpf(float(xi)), [mp.mpf(th[0] - h)]))
                              for xi in x]) / (2 * h)
            except Exception:
                return None
            if not np.all(np.isfinite(g)) or g @ g < 1e-12:
                return None
            e -= g * (e @ g) / (g @ g)              # the maximum-likelihood parameter stays (to first order) the planted one
            e *= math.sqrt(len(x) - 1) / np.linalg.norm(e)
            noise = float(abs(th[0]) * math.sqrt(g @ g) / (0.92 * math.sqrt(12.0)))
        y = y0 + noise * e
        return ({"truth_index": i, "truth": s, "needs_chain": i in needs_chain, "mode": mode, "scale": scale, "chain": [c for c in lib["subs"][i] if c.strip()], "theta": th, "noise": noise, "x": x.tolist(), "y": y.tolist(), "sig": [noise] * len(x)})

    tries = 0
    for _ in range(marginal_count if marginal else 0):
        pool = []
        for _t in range(40):
            rec = attempt("marginal", 0)
            if rec is not None:
                rec["margin"] = margin(rec)
                pool.append(rec)
                if len(pool) >= 8:
                    break
        if pool:
            out.append(max(pool, key=lambda d: d["margin"]))
    count += len(out)
    while len(out) < count and tries < 200 and cand:
        tries += 1
        mode = modes[(len(out) + tries // 12) % len(modes)]
        rec = attempt(mode, sum(1 for d in out if d["mode"] == "extreme"))
        if rec is not None:
            out.append(rec)
    return out


def correspondence(ctx):
    import fitlib
    import liboracle as lo
    rep = ctx.report
    ctx.runs = []
    # (basis, complexity, data sets, of which additionally "marginal" ones)
    plan = ([("core_maths", 3, 2, 1), ("core_maths", 4, 4, 1), ("ext_maths", 4, 3, 0), ("base_e_maths", 3, 1, 0)] if ctx.quick else
            [("core_maths", 3, 4, 2), ("core_maths", 4, 4, 2), ("ext_maths", 3, 2, 1), ("ext_maths", 4, 2, 1), ("keep_duplicates", 3, 2, 1), ("core_maths", 5, 1, 0),
             ("base_e_maths", 3, 2, 1), ("base_e_maths", 4, 2, 0), ("base10_maths", 3, 1, 0)])
    work, repo = fitlib.work_repo(ctx.scratch, "c04")
    for runname, n, nds, nmarg in plan:
        ok, err = fitlib.generate(repo, runname, [n])
        if not ok:
            rep.fail("failing-input", "generation fails %s n=%d: %s" % (runname, n, err[-300:]), "C04:generation-crash", input={"basis": runname, "n": n})
            continue
        lib = lo.load_library(fitlib.libdir(repo, runname, n), n)
        for di, ds in enumerate(datasets(ctx, lib, n, nds, nmarg)):
            ddir = os.path.join(work, "data_%s_%d_%d" % (runname, n, di))
            fitlib.write_data(ddir, "d.txt", ds["x"], ds["y"], ds["sig"])
            res = fitlib.run_stages(repo, "gauss", ddir, "d.txt", "r", runname, n, seed=ctx.seed % 100000 + di)
            if res[0][0] != 0:
                rep.fail("failing-input", "pipeline stage crashes (%s n=%d, truth %s): %s" % (runname, n, ds["truth"], res[0][2].strip().splitlines()[-1:]),
                         "C04:pipeline-crash", input={"basis": runname, "n": n, "dataset": ds}, observed=res[0][2][-1500:])
                continue
            od = fitlib.outdir(ddir, "r")
            final = fitlib.load_final(os.path.join(od, "final_%d.dat" % n))
            cm = fitlib.load_table(os.path.join(od, "codelen_matches_comp%d.dat" % n))
            ctx.runs.append({"basis": runname, "n": n, "ds": ds, "final": final, "cm": cm, "lib": lib})
            rep.case(key=(runname, n, di), sample={"basis": runname, "n": n, "truth": ds["truth"], "theta": ds["theta"], "noise": ds["noise"],
                                                   "top": final[0] if final else None})
            # the theorem C04_top_le_every_variant, re-stated on the real tables
            if final and cm and len(cm) == len(lib["aifeyn"]):
                dls = [r[0] + r[1] + a for r, a in zip(cm, lib["aifeyn"])]
                good = [d for d in dls if not math.isnan(d)]
                rep.traces += 1
                if good and final[0]["DL"] > min(good) + 1e-9 * (1 + abs(min(good))):
                    rep.fail("broken-correspondence", "real final table's top row (%r) is larger than a variant's description length (%r): the Combine model does not describe combine_DL" % (final[0]["DL"], min(good)),
                             "C04:top-vs-variants", theorem="C04_top_le_every_variant", observed={"top": final[0], "min_variant": min(good)})
            elif final is None or cm is None or len(cm) != len(lib["aifeyn"]):
                rep.fail("failing-input", "stage outputs missing or misaligned: codelen_matches rows %s vs functions %d" % (None if cm is None else len(cm), len(lib["aifeyn"])),
                         "C04:row-count", input={"basis": runname, "n": n, "dataset": ds})
    # corpus: the stored data set of the known finding C04:optimiser:pole-inside-data-range (same stages, same checks in search())
    cpath = os.path.join(esrv.VERIF, "harness", "corpus", "C04_pole.json")
    if os.path.exists(cpath):
        c = json.load(open(cpath))
        ok, err = fitlib.generate(repo, c["basis"], [c["n"]])
        if ok:
            lib = lo.load_library(fitlib.libdir(repo, c["basis"], c["n"]), c["n"])
            ti = [i for i, t in enumerate(lib["trees"]) if t == c["labels"]]
            ddir = os.path.join(work, "data_corpus_pole")
            fitlib.write_data(ddir, "d.txt", c["x"], c["y"], c["sig"])
            res = fitlib.run_stages(repo, "gauss", ddir, "d.txt", "r", c["basis"], c["n"], seed=20261001 % 100000)
            if ti and res[0][0] == 0:
                final = fitlib.load_final(os.path.join(fitlib.outdir(ddir, "r"), "final_%d.dat" % c["n"]))
                ds = {"truth_index": ti[0], "truth": c["truth"], "theta": c["theta"], "noise": c["noise"], "x": c["x"], "y": c["y"], "sig": c["sig"],
                      "needs_chain": False, "mode": "corpus", "scale": "pole", "chain": []}
                ctx.runs.append({"basis": c["basis"], "n": c["n"], "ds": ds, "final": final, "cm": None, "lib": lib,
                                 "known_key": "C04:optimiser:pole-inside-data-range"})
                rep.case(key=("corpus", "pole"), sample={"basis": c["basis"], "n": c["n"], "truth": c["truth"], "theta": c["theta"], "top": final[0] if final else None})
    shutil.rmtree(work, ignore_errors=True)
    rep.rule = ("real four-stage pipeline (Gaussian likelihood) on data sets with planted truths drawn from the library (variants with recoverable non-empty maps preferred), noise in {0.05,0.2,0.5}; "
                "each final row re-evaluated independently; top row vs closed-form description length of every affine-in-parameter tree")


def search(ctx):
    import fitlib
    rep = ctx.report
    stats = {"rows_reevaluated": 0, "linear_trees_compared": 0, "truth_is_linear": 0}
    for run in getattr(ctx, "runs", []):
        ds, final, lib, n = run["ds"], run["final"], run["lib"], run["n"]
        if not final:
            continue
        x, y, sig = ds["x"], ds["y"], ds["sig"]
        base_in = {"basis": run["basis"], "n": n, "dataset": {k: ds[k] for k in ("truth", "theta", "noise", "x", "y", "sig")}}
        # (a) every row is reproducible
        for row in final:
            if not math.isfinite(row["DL"]):
                continue
            if abs(row["DL"] - (row["nll"] + row["codelen"] + row["aifeyn"])) > 1e-8 * (1 + abs(row["DL"])):
                rep.fail("failing-input", "final row %d: DL %r is not the sum of its three terms" % (row["rank"], row["DL"]), "C04:row-sum", input=dict(base_in, row=row))
                continue
            nll = fitlib.gauss_nll(row["fcn"], row["params"], x, y, sig)
            stats["rows_reevaluated"] += 1
            if not (abs(nll - row["nll"]) <= 2e-5 * (1 + abs(nll)) + 1e-6 * abs(row["nll"])):
                rep.fail("failing-input", "final row %d (%s): likelihood at the reported parameters is %r but the row reports %r" % (row["rank"], row["fcn"], nll, row["nll"]),
                         "C04:row-nll-not-reproducible", input=dict(base_in, row=row), observed=row["nll"], expected=nll)
        # (b0) top row vs the independently computed description length of the planted tree itself (any tree with 1-2 parameters)
        ti = ds["truth_index"]
        kt = fitlib.nparams_of(lib["all"][ti])
        nm = fitlib.mdl_numeric(lib["all"][ti], lib["trees"][ti], kt, x, y, sig, ds["theta"])
        if nm is not None:
            stats["planted_numeric"] = stats.get("planted_numeric", 0) + 1
            if final[0]["DL"] > nm["DL"] + 0.02 + 1e-3 * abs(nm["DL"]):
                rep.fail("failing-input", "top-ranked DL %.6f exceeds the independently computed DL %.6f of the planted tree %r (%s)" % (
                    final[0]["DL"], nm["DL"], lib["trees"][ti], lib["all"][ti]), run.get("known_key") or "C04:beaten-by-enumerated-tree",
                    input=dict(base_in, tree_index=ti, labels=lib["trees"][ti], string=lib["all"][ti]), observed=final[0], expected=nm)
                continue
        # (b) top row vs independent description length of every affine-in-parameter tree
        top = final[0]["DL"]
        for i, (s, labels) in enumerate(zip(lib["all"], lib["trees"])):
            k = fitlib.nparams_of(s)
            if k > 3 or "zoo" in s or "nan" in s:
                continue
            cf = fitlib.mdl_closed_form(s, labels, k, x, y, sig)
            if cf is None or not math.isfinite(cf["DL"]):
                continue
            stats["linear_trees_compared"] += 1
            if i == ds["truth_index"]:
                stats["truth_is_linear"] += 1
            if top > cf["DL"] + 0.02 + 1e-3 * abs(cf["DL"]):
                rep.fail("failing-input", "top-ranked DL %.6f exceeds the independently computed DL %.6f of tree %r (%s)" % (top, cf["DL"], labels, s),
                         "C04:beaten-by-enumerated-tree", input=dict(base_in, tree_index=i, labels=labels, string=s), observed=final[0], expected=cf)
                break
    rep.extra["search"] = stats
