"""C01 -- exhaustive, duplicate-free enumeration of expression trees."""
import collections
import concurrent.futures
import itertools
import json
import os

import esrv

PROPS_V = "Props/C01.v"
# functions the hand-written model of this property was written against (normalised source stored under harness/corr/guards/;
# a difference is reported as broken-correspondence: the theorems then no longer speak about the current source)
SOURCE_GUARDS = [
    ("esr/generation/generator.py", "shape_to_functions"),
    ("esr/generation/generator.py", "generate_equations"),
]

TRANSLATORS = ["ctree", "allowed"]
TRUSTED = [
    "translator harness/translate/ctree.py: generator.check_tree is regenerated into Gen/GenShapes.v on every run (checked attribute stores, fuelled for/while loops "
    "left with break, possibly-unbound variables as options) and proved equal to the hand model on every string (C01_code_check_tree_is_model); the check_tree "
    "theorems are restated on the generated function (C01_code_check_tree_iff / _prune_sound / _arrays / _crash)",
    "translator harness/translate/allowed.py: generator.get_allowed_shapes is regenerated into Gen/GenAllowed.v on every run (typed, fail-closed translation of "
    "its numpy idioms -- np.array of itertools.product, column reads, boolean-mask row selection, prefix comparison, np.prod/np.where, index-array assignment, "
    "for-range with carried state, the rank-0/bcast frame -- into the total functions of coq/Common/Np.v, which is hand-written and states what each idiom means, "
    "None where numpy raises; a width-1 broadcast in the prefix comparison is modelled as an error and proved not to arise) and proved equal to the hand model for "
    "every complexity (C01_code_allowed_is_model), hence exact for n >= 1 (C01_code_allowed_exact)",
    "Coq 8.16.1 kernel + vm_compute (no native_compute)",
    "Print Assumptions: all C01 theorems closed under the global context (no axioms)",
    "hand-written Gallina models coq/Model/Shapes.v (check_tree with parent/left/right arrays, get_allowed_shapes with "
    "product/pre-filters/failed-prefix mask) and coq/Model/Labels.v (shape_to_functions label loops, 'a' -> 'a%i' renaming, "
    "generate_equations shape loop), tied to the source on every run by the correspondence below",
    "numpy semantics used by the code (itertools.product order, boolean-mask row selection and assignment, np.prod/np.where "
    "prefix match: coq/Common/Np.v; dtype U100 label array: Model/Labels.v) are modelled as list operations and exercised, not proved",
    "pprint/str(numpy array) line format of orig_trees_<n>.txt is parsed by the harness (labels without quotes/whitespace)",
    "MPI stand-in harness/fakempi (single rank): rank 0 computes the shapes and writes the files; other ranks receive them by bcast",
]
ASSUMPTIONS = [
    "basis lists are duplicate-free (hypothesis of C01_enumeration); for the no-duplicate-line clause additionally no basis "
    "label has the form a<digits> and the three arity classes are disjoint (true of the six shipped bases: C01_ex_shipped_clean)",
    "complexity n >= 1 (n = 0 raises IndexError in get_allowed_shapes; modelled as Crash and checked)",
    "labels are shorter than 100 characters (numpy dtype U100 truncation is not modelled)",
    "the split of find_additional_trees work over ranks and the extra (rewritten) trees are outside C01 (C11, C14)",
]
IMPL = os.path.join(esrv.VERIF, "harness", "corr", "c01_impl.py")

SHIPPED = collections.OrderedDict([
    ("core_maths", [["x", "a"], ["inv"], ["+", "*", "-", "/", "pow"]]),
    ("ext_maths", [["x", "a"], ["inv", "sqrt_abs", "square", "exp"], ["+", "*", "-", "/", "pow"]]),
    ("keep_duplicates", [["x", "a"], ["square", "exp", "inv", "sqrt_abs", "log_abs"], ["+", "*", "-", "/", "pow"]]),
    ("osc_maths", [["x", "a"], ["inv", "sin"], ["+", "*", "-", "/", "pow"]]),
    ("base10_maths", [["x", "a"], ["tenexp", "inv", "log10_abs"], ["+", "*", "-", "/", "pow"]]),
    ("base_e_maths", [["x", "a"], ["inv", "exp", "log_abs"], ["+", "*", "-", "/", "pow"]]),
])
UNARY_POOL = ["inv", "sqrt_abs", "square", "exp", "log_abs", "sin", "tenexp", "log10_abs"]
BINARY_POOL = ["+", "*", "-", "/", "pow"]

HEADER = """From Coq Require Import String.
From Coq Require Import List Arith Bool.
From ESRV Require Import Common.Corr Model.Shapes Model.Labels.
Import ListNotations.
Open Scope string_scope.
Open Scope list_scope.
Open Scope nat_scope.
"""


def nl(l):
    return "[" + ";".join("%d" % v for v in l) + "]"


def sl(l):
    return "[" + ";".join('"%s"' % v.replace('"', '""') for v in l) + "]"


def basis_v(b):
    return "(mkBasis %s %s %s)" % (sl(b[0]), sl(b[1]), sl(b[2]))


def coq_flat(out):
    return " ".join(out.split()).replace("%string", "").replace("%nat", "").replace("%list", "")


# ------------------------------------------------------------------ random inputs

def rand_code(rng, n):
    """prefix arity code of a random unary-binary tree with n nodes"""
    if n == 1:
        return [0]
    if n == 2 or rng.random() < 0.4:
        return [1] + rand_code(rng, n - 1)
    k = rng.randint(1, n - 2)
    return [2] + rand_code(rng, k) + rand_code(rng, n - 1 - k)


def extra_strings(rng, lo, hi, count):
    out = []
    for i in range(count):
        n = rng.randint(lo, hi)
        kind = i % 4
        if kind == 0:      # uniformly random (mostly invalid)
            s = [rng.randint(0, 2) for _ in range(n)]
        elif kind == 1:    # a valid code
            s = rand_code(rng, n)
        elif kind == 2:    # a valid code with one symbol changed
            s = rand_code(rng, n)
            j = rng.randrange(n)
            s[j] = (s[j] + rng.randint(1, 2)) % 3
        else:              # a valid code followed by junk / truncated
            s = rand_code(rng, n)
            s = s + [rng.randint(0, 2) for _ in range(rng.randint(1, 3))] if rng.random() < 0.5 else s[:-rng.randint(1, min(3, n - 1))]
        out.append(s)
    return out


def random_bases(rng, count):
    out = []
    for _ in range(count):
        b0 = rng.choice([["x"], ["a"], ["x", "a"], ["a", "x"], ["x", "a"], ["a", "x"]])
        b1 = rng.sample(UNARY_POOL, rng.randint(0, 3))
        b2 = rng.sample(BINARY_POOL, rng.randint(0, 3))
        out.append([list(b0), b1, b2])
    return out


# ------------------------------------------------------------------ correspondence

def shard(l, k):
    return [l[i:i + k] for i in range(0, len(l), k)]


def coq_many(vtexts, timeout=1800, workers=4):
    """Evaluate several throw-away files concurrently; returns [(rc, flat_output)] in order."""
    with concurrent.futures.ThreadPoolExecutor(max_workers=workers) as ex:
        res = list(ex.map(lambda v: esrv.coq_run(v, timeout=timeout), vtexts))
    return [(rc, coq_flat(o)) for rc, o in res]


def correspondence(ctx):
    rep = ctx.report
    ctx.shapes = None
    ctx.gen = None
    # ---- 1. check_tree: every string over {0,1,2} up to maxlen + random longer ones
    maxlen = 7 if ctx.quick else 9
    extras = extra_strings(esrv.rng(ctx.seed, "C01/check_tree"), maxlen + 1, 16, 240 if ctx.quick else 1500)
    rc, out, err = esrv.run_py(ctx.scratch, IMPL, ["check_tree", str(maxlen)], stdin=json.dumps(extras), timeout=1200)
    if rc != 0:
        rep.fail("broken-correspondence", "check_tree driver failed", "C01:check_tree-driver", observed=err[-2000:],
                 theorem="check_tree sweep")
        rows = []
    else:
        rows = json.loads(out)
    nbad = 0
    shards = shard(rows, 1000)
    vts = [HEADER + ("Definition cases : list (list nat * list nat) := [%s].\n"
                     "Eval vm_compute in (\"CT\", failing (fun c => list_nat_eqb (enc_check (check_tree (fst c))) (snd c)) cases).\n"
                     % "; ".join("(%s,%s)" % (nl(s), nl(enc)) for s, enc, exc in sh)) for sh in shards]
    for sh, (rc, flat) in zip(shards, coq_many(vts)):
        if not (rc == 0 and '("CT", [])' in flat):
            nbad += 1
            if nbad <= 2:
                # diagnose: which strings, and what the model says
                idx = []
                if '("CT", [' in flat:
                    try:
                        idx = [int(x) for x in flat.split('("CT", [')[1].split("]")[0].split(";") if x.strip()]
                    except ValueError:
                        idx = []
                bad = [sh[i] for i in idx[:3]]
                diag = ""
                if bad:
                    rc2, o2 = esrv.coq_run(HEADER + "".join("Eval vm_compute in enc_check (check_tree %s).\n" % nl(b[0]) for b in bad))
                    diag = coq_flat(o2)[-600:]
                rep.fail("broken-correspondence", "model check_tree and generator.check_tree differ (success flag / part_considered / "
                         "parent-left-right arrays / exception)", "C01:check_tree-corr",
                         input=[b[0] for b in bad], observed={"impl": [b[1:] for b in bad], "model": diag, "coq": flat[-400:]},
                         theorem="Model/Shapes.v check_tree vs generator.check_tree")
    for s, enc, exc in rows:
        rep.case(key=("ct", tuple(s)), nontrivial=len(s) >= 2,
                 sample={"s": s, "impl_encoding(tag,success,len(part)+1,part,(type,parent+1,left+1,right+1)*)": enc, "exception": exc})
    rep.traces += len(rows)
    ctx.ct_rows = rows

    # ---- 2. get_allowed_shapes(n), order included
    nmax = 8 if ctx.quick else 10
    rc, out, err = esrv.run_py(ctx.scratch, IMPL, ["shapes", str(nmax)], timeout=1800)
    if rc != 0:
        rep.fail("broken-correspondence", "shapes driver failed", "C01:shapes-driver", observed=err[-2000:], theorem="shapes sweep")
    else:
        shapes = json.loads(out)
        ctx.shapes = shapes
        vts = []
        for n, rws in shapes:
            exp = "None" if isinstance(rws, str) else "Some [%s]" % ";".join(nl(r) for r in rws)
            vts.append(HEADER + ("Eval vm_compute in (\"SH\", opt_eqb llnat_eqb (enc_allowed (allowed %d)) (%s)).\n" % (n, exp)))
        for (n, rws), (rc, flat) in zip(shapes, coq_many(vts)):
            rep.case(key=("shapes", n), nontrivial=n >= 2, sample={"n": n, "get_allowed_shapes": rws if isinstance(rws, str) else rws[:6]})
            rep.traces += 1
            if not (rc == 0 and '("SH", true)' in flat):
                rep.fail("broken-correspondence", "model get_allowed_shapes(%d) and the implementation differ (rows or order)" % n,
                         "C01:shapes-corr", input={"n": n}, observed={"impl": rws if isinstance(rws, str) else rws[:40], "coq": flat[-400:]},
                         theorem="Model/Shapes.v allowed vs generator.get_allowed_shapes")

    # ---- 3. orig_trees_<n>.txt of the real generation vs Model/Labels.v generate, in order
    nship = 4 if ctx.quick else 5
    cases = [[0, SHIPPED["core_maths"]]]
    for name, b in SHIPPED.items():
        for n in range(1, nship + 1):
            cases.append([n, b])
    if not ctx.quick:
        for name, b in SHIPPED.items():
            cases.append([6, b])
    rb = random_bases(esrv.rng(ctx.seed, "C01/bases"), 12 if ctx.quick else 30)
    for b in rb:
        for n in range(1, (4 if ctx.quick else 5) + 1):
            cases.append([n, b])
    # directed: unary-only bases with long operator names (one tree line longer than 80 characters: every tree must still be one
    # line of orig_trees_<n>.txt), a basis whose symbols are all one character long (parameter names a0, a1 are longer than any of them)
    cases += [[7, [["x", "a"], ["log10_abs"], []]], [8, [["x", "a"], ["sqrt_abs"], []]], [9, [["x"], ["tenexp"], []]]]
    cases += [[n, [["x", "a"], [], ["+", "*"]]] for n in (1, 3, 5)] + [[3, [["a"], [], ["+"]]]]
    # five parameters in one tree (a0..a4): only from 9 nodes on  (11 nodes = six parameters costs 20 minutes: thorough tier only)
    cases += [[9, [["x", "a"], [], ["*"]]]] + ([] if ctx.quick else [[11, [["a"], [], ["+"]]]])
    rc, out, err = esrv.run_py(ctx.scratch, IMPL, ["gen"], stdin=json.dumps(cases), timeout=3000)
    if rc != 0:
        rep.fail("broken-correspondence", "generation driver failed", "C01:gen-driver", observed=err[-2000:], theorem="generation sweep")
        return
    gen = json.loads(out)
    ctx.gen = gen
    # group cases into files of bounded size
    files, cur, cursize = [], [], 0
    for k, g in enumerate(gen):
        sz = len(g.get("trees", [])) * max(1, g["n"])
        if cur and cursize + sz > 12000:
            files.append(cur)
            cur, cursize = [], 0
        cur.append(k)
        cursize += sz
    if cur:
        files.append(cur)
    vts = []
    for ks in files:
        v = HEADER
        for k in ks:
            g = gen[k]
            if "exc" in g:
                v += ("Eval vm_compute in (\"GEN\", %d, match generate %d %s with Crash => true | _ => false end).\n"
                      % (k, g["n"], basis_v(g["basis"])))
            elif any(isinstance(t, dict) for t in g["trees"]):
                v += "Eval vm_compute in (\"GEN\", %d, false).\n" % k
            else:
                # long list literals overflow Coq's stack: give the expected lines in chunks
                chunks = shard(g["trees"], 4000) or [[]]
                for ci, ch in enumerate(chunks):
                    v += "Definition e%d_%d : list (list string) := [%s].\n" % (k, ci, ";".join(sl(t) for t in ch))
                v += ("Eval vm_compute in (\"GEN\", %d, match generate %d %s with Ok l => llstr_eqb l (%s) | _ => false end).\n"
                      % (k, g["n"], basis_v(g["basis"]), " ++ ".join("e%d_%d" % (k, ci) for ci in range(len(chunks)))))
        vts.append(v)
    for ks, (rc, flat) in zip(files, coq_many(vts)):
        for k in ks:
            g = gen[k]
            rep.case(key=("gen", g["n"], json.dumps(g["basis"])), nontrivial=g["n"] >= 3 and len(g.get("trees", [])) > 1,
                     sample={"n": g["n"], "basis": g["basis"], "lines": len(g.get("trees", [])), "first": g.get("trees", [])[:3],
                             "exc": g.get("exc")})
            rep.traces += 1
            if not (rc == 0 and ('("GEN", %d, true)' % k) in flat):
                rep.fail("broken-correspondence", "orig_trees_%d.txt written by generate_equations and the model's label lists differ "
                         "(content or order) for basis %r" % (g["n"], g["basis"]), "C01:gen-corr",
                         input={"n": g["n"], "basis": g["basis"]},
                         observed={"impl_first_lines": g.get("trees", [])[:8], "impl_count": len(g.get("trees", [])),
                                   "exc": g.get("exc"), "coq": flat[-300:] if rc != 0 else "compared false"},
                         theorem="Model/Labels.v generate vs generator.generate_equations/shape_to_functions")
    rep.rule = ("check_tree: ALL strings over {0,1,2} of length 0..%d plus %d random strings of length %d..16 (uniform / valid codes / "
                "one-symbol mutations / extended or truncated codes), compared on success flag, part_considered, parent/left/right arrays "
                "and exceptions; get_allowed_shapes(n) for n=0..%d with row order; orig_trees_<n>.txt of the real generate_equations for the "
                "six shipped bases n<=%d%s and %d random sub-bases (random nullary order, 0-3 unary, 0-3 binary operators) n<=%d, compared "
                "line by line in order with the model (non-trivial: |s|>=2; n>=2; n>=3 with more than one tree)"
                % (maxlen, len(extras), maxlen + 1, nmax, nship, "" if ctx.quick else " (and n=6)",
                   len(rb), 4 if ctx.quick else 5))
    rep.exhaustive = True


# ------------------------------------------------------------------ spec-side search on the implementation's outputs

def spec_codes(n, memo={}):
    """all prefix arity codes of unary-binary trees with n nodes (recursion on the tree, not on strings)"""
    if n in memo:
        return memo[n]
    if n == 1:
        r = [(0,)]
    else:
        r = [(1,) + c for c in spec_codes(n - 1)]
        for k in range(1, n - 1):
            r += [(2,) + a + b for a in spec_codes(k) for b in spec_codes(n - 1 - k)]
    memo[n] = r
    return r


def spec_trees(n, basis, memo):
    """all labelled trees with n nodes as nested tuples (label, children...) with raw basis labels"""
    if n in memo:
        return memo[n]
    if n == 1:
        r = [(x,) for x in basis[0]]
    else:
        r = [(f, t) for f in basis[1] for t in spec_trees(n - 1, basis, memo)]
        for k in range(1, n - 1):
            r += [(g, a, b) for g in basis[2] for a in spec_trees(k, basis, memo) for b in spec_trees(n - 1 - k, basis, memo)]
    memo[n] = r
    return r


def spec_render(t):
    """prefix label list with the parameter leaves numbered in depth-first left-to-right order"""
    out = []
    count = [0]

    def walk(u):
        if len(u) == 1:
            if u[0] == "a":
                out.append("a%d" % count[0])
                count[0] += 1
            else:
                out.append(u[0])
        else:
            out.append(u[0])
            for c in u[1:]:
                walk(c)
    walk(t)
    return tuple(out)


def search(ctx):
    rep = ctx.report
    # (i) the shapes considered are exactly the valid tree shapes
    for n, rws in (ctx.shapes or []):
        if n == 0:
            continue
        if isinstance(rws, str):
            rep.fail("failing-input", "get_allowed_shapes(%d) raised %s" % (n, rws), "C01:shapes:exception", input={"n": n},
                     observed=rws, expected="the valid shapes")
            continue
        got = collections.Counter(tuple(r) for r in rws)
        want = set(spec_codes(n))
        missing = sorted(want - set(got))
        extra = sorted(set(got) - want)
        dup = sorted(k for k, c in got.items() if c > 1)
        for kind, lst in (("missing", missing), ("invalid", extra), ("duplicate", dup)):
            if lst:
                rep.fail("failing-input", "get_allowed_shapes(%d): %s shape %r" % (n, kind, list(lst[0])), "C01:shapes:" + kind,
                         input={"n": n, "shape": list(lst[0])}, observed={"count_returned": len(rws), kind: [list(x) for x in lst[:5]]},
                         expected="exactly the %d prefix codes of unary-binary trees with %d nodes, each once" % (len(want), n))
    # (ii) the emitted trees are exactly all labelled trees, each once, parameters numbered in order
    for g in (ctx.gen or []):
        n, basis = g["n"], g["basis"]
        if n == 0:
            continue
        if "exc" in g:
            rep.fail("failing-input", "generate_equations(%d, %r) raised %s" % (n, basis, g["exc"]), "C01:gen:exception",
                     input={"n": n, "basis": basis}, observed=g["exc"], expected="all labelled trees")
            continue
        mal = [t for t in g["trees"] if isinstance(t, dict)]
        if mal:
            rep.fail("failing-input", "orig_trees_%d.txt has an unparsable line: %r" % (n, mal[0]["malformed"]), "C01:gen:malformed",
                     input={"n": n, "basis": basis, "tree": mal[0]["malformed"]}, observed=mal[:3], expected="one label list per line")
            continue
        got = collections.Counter(tuple(t) for t in g["trees"])
        want = collections.Counter(spec_render(t) for t in spec_trees(n, basis, {}))
        clean = (len(set(basis[0])) == len(basis[0]) and len(set(basis[1])) == len(basis[1]) and len(set(basis[2])) == len(basis[2]))
        missing = sorted(set(want) - set(got))
        extra = sorted(set(got) - set(want))
        dup = sorted(k for k in got if got[k] > want.get(k, 0) and k in want)
        for kind, lst in (("missing", missing), ("malformed", extra), ("duplicated", dup)):
            if lst:
                rep.fail("failing-input", "generation n=%d basis=%r: %s tree %r" % (n, basis, kind, list(lst[0])), "C01:gen:" + kind,
                         input={"n": n, "basis": basis, "tree": list(lst[0])},
                         observed={"lines": len(g["trees"]), kind: [list(x) for x in lst[:5]]},
                         expected="every labelled tree with %d nodes over the basis exactly once (%d trees), parameters a0,a1,.. in prefix order"
                                  % (n, sum(want.values())))
        f1, f2 = g.get("files1"), g.get("files2")
        if f1 and f1.get("trees") is not None and f1["trees"] != (f1.get("orig_trees") or 0) + (f1.get("extra_trees") or 0):
            rep.fail("failing-input", "generation n=%d basis=%r: trees_%d.txt has %s lines but orig_trees + extra_trees have %s + %s" % (
                n, basis, n, f1["trees"], f1.get("orig_trees"), f1.get("extra_trees")), "C01:gen:trees-file", input={"n": n, "basis": basis}, observed=f1)
        if f1 and f2 and (f2 != f1 or not g.get("trees2_same", True)):
            rep.fail("failing-input", "generation n=%d basis=%r run a second time into the same directory does not list every tree once: file line counts %r "
                     "after the first run, %r after the second" % (n, basis, f1, f2), "C01:gen:regenerated", input={"n": n, "basis": basis, "runs": 2},
                     observed=f2, expected=f1)
        if g.get("announced") is not None and g["announced"] != len(g["trees"]) and clean:
            rep.fail("failing-input", "generation n=%d basis=%r announces %d trees but writes %d" % (n, basis, g["announced"], len(g["trees"])),
                     "C01:gen:count", input={"n": n, "basis": basis}, observed=len(g["trees"]), expected=g["announced"])


LEVEL_TEXT = ("Machine-checked theorems (Coq) for EVERY complexity n>=1 and EVERY duplicate-free operator basis: the pointer-array algorithm "
              "check_tree accepts a string iff it is the prefix code of a unary-binary tree (invariant proof over the parent/left/right arrays, "
              "termination of the climbing loop, no exception) and on success returns exactly the parent/left/right indexing of that tree, failed-prefix pruning never discards a valid shape, get_allowed_shapes(n) returns "
              "exactly the tree shapes with n nodes once each, and the label loops of shape_to_functions/generate_equations emit a permutation of "
              "an independently defined recursive enumeration of all labelled trees with parameters numbered in prefix order, without repeated "
              "lines. A test suite can compare sets only for the few (n, basis) it runs; the theorems cover all n and all bases.")
LEVEL_NOTE = ("Trusted: Coq kernel/vm_compute; the hand-written models Shapes.v/Labels.v, tied to the source each run by exhaustive comparison "
              "with the real check_tree (all strings up to length 7/9 + random longer), get_allowed_shapes (n<=8/10, order included) and the "
              "orig_trees files of real generation runs (six shipped bases + random sub-bases, line by line); numpy product/mask semantics and "
              "the pprint line format are exercised, not proved. Hypotheses: duplicate-free basis lists; for the no-repeated-line clause no basis "
              "label of the form a<digits> and disjoint arity classes (proved for the shipped bases). No axioms (Print Assumptions: closed under "
              "the global context).")
TECHNIQUE = ("Coq proof over translator-generated check_tree and get_allowed_shapes (ast -> Gallina, refinement to the hand model): Lukasiewicz criterion <-> tree code; loop invariant over the parent/left/right arrays (free-right-slot ancestor stack) "
             "for check_tree; prefix-determinism for pruning; bijection labelled trees <-> (shape, label tuples) with NoDup/Permutation; "
             "correspondence by vm_compute on generated cases; spec-side multiset comparison with an independent recursive enumerator")
