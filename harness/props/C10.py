"""C10 -- parameter optimisation reaches the maximum-likelihood point on well-posed fits (partial).

Proved (Coq, coq/Props/C10.v): the bookkeeping of optimise_fun for EVERY behaviour of scipy's minimize (any sequence of
results incl. NaN, +-inf, ties, failures, exceptions), every random-start stream, every Niter/Nconv polynomial.
Oracle (not proved): that BFGS converges from random starts.  The real fits in search() are TESTING and are reported so."""
import itertools
import json
import os
from concurrent.futures import ThreadPoolExecutor

import esrv

PROPS_V = "Props/C10.v"
# functions the hand-written model of this property was written against (normalised source stored under harness/corr/guards/;
# a difference is reported as broken-correspondence: the theorems then no longer speak about the current source)
SOURCE_GUARDS = [
    ("esr/fitting/test_all.py", "optimise_fun"),
    ("esr/fitting/test_all.py", "chi2_fcn"),
    ("esr/fitting/test_all.py", "main"),
]

TRANSLATORS = ["countparams"]
IMPL = os.path.join(esrv.VERIF, "harness", "corr", "c10_impl.py")
TRUSTED = [
    "translator harness/translate/countparams.py: simplifier.count_params is regenerated into Gen/GenCountParams.v on every run (nested loops, the inner one "
    "descending and left with break, store into the result array; the substring test 'a<j>' in fcn is an abstract predicate) and proved equal to the model's "
    "count_params for every predicate, number of functions and max_param (C10_code_count_params_is_model, _spec)",
    "Coq 8.16.1 kernel + vm_compute (no native_compute)",
    "Print Assumptions: all C10 theorems closed under the global context (no axioms)",
    "hand-written model coq/Model/Optimise.v of optimise_fun's control flow (minimize, np.random.uniform, the likelihood and the NaN-on-data "
    "test are arguments); tied each run by scripted-oracle runs of the REAL optimise_fun compared with the model under vm_compute "
    "(returned value, parameters, and the (start, signs) arguments of every minimize call)",
    "numpy semantics used by the model: IEEE comparisons with NaN/inf, np.argmin returning the first NaN, np.pad refusing negative widths",
    "scripted values are multiples of 1/8 (or 2^k) and scripted log-space exponents are integers in 0..6, so the float arithmetic of the "
    "real code (fun - chi2_min, 10.**x * mult) is exact",
]
ASSUMPTIONS = [
    "BFGS (scipy.optimize.minimize) is an oracle: C10_conditional assumes that some executed iteration returns the global minimiser",
    "oracle contract of params_reproduce_chi2: each result satisfies fun == chi2_fcn(x, signs) exactly and len(x) == nparam "
    "(scipy returns the objective value at the returned point)",
    "10**x[i] in chi2_fcn (scalar pow) and 10.**np.array(best.x) (array pow) are the same float: both are kept symbolic (Pow10) in the model",
    "likelihood.negloglike / eq_numpy do not raise in the NaN-on-data sweep (a raise there is the generic `except Exception` -> NaN row)",
    "count_params is modelled on the list of occurring 'a<j>' substrings, not on strings",
    "previous_eqns_<comp>.txt exists when comp > 1 and ignore_previous_eqns (a missing file raises before the try block; not modelled)",
    "the iteration that trips the 50-infinities test is left before the best-update, so a -inf arriving as the 50th infinity is dropped "
    "(C10_neginf_dropped_witness, replayed on the real code by a directed script); a likelihood bounded below never produces it",
    "search(): real fits on Gaussian data are testing, not proof",
]

HUGE = 8 * 2 ** 333          # the float 2^333 ~ 1.7e100: finite but not < 1.e100
NEARBIG = 8 * 2 ** 332       # 2^332 ~ 8.7e99 < 1.e100


# ------------------------------------------------------------------------------ Coq literals

def zs(v):
    return "%d" % v if v >= 0 else "(%d)" % v


def zl(l):
    return "[" + "; ".join(zs(v) for v in l) + "]"


def bl(l):
    return "[" + "; ".join("true" if b else "false" for b in l) + "]"


def b(x):
    return "true" if x else "false"


def xz(v):
    return {"inf": "PInf", "-inf": "NInf", "nan": "NaN"}[v] if isinstance(v, str) else "(Fin %s)" % zs(v)


def ans(a):
    if a[0] == "raise":
        return "(Raise %s)" % {"timeout": "ETimeout", "name": "EName", "other": "EOther"}[a[1]]
    return "(Res %s %s %s)" % (zl(a[1]), xz(a[2]), b(a[3]))


def signs_v(s):
    if s is None:
        return "None"
    return "(Some [" + "; ".join({0: "SNone", 1: "SPlus", 2: "SMinus"}[k] for k in s) + "])"


def cfg_v(c):
    sym = ("(SymOk %s)" % b(c["sym_has_a0"])) if c["sym"] == "ok" else \
        "(SymExc %s)" % {"timeout": "ETimeout", "name": "EName", "other": "EOther"}[c["sym"]]
    return "(mkCfg %s %d %s %s %s %s %s %s %s %s %s (table_nanpat [%s]))" % (
        bl(c["has"]), c["max_param"], zs(c["comp"]), b(c["ignore_prev"]), b(c["in_prev"]), b(c["log_opt"]),
        b(c["test_success"]), zl(c["Niter_params"]), zl(c["Nconv_params"]), sym, b(c["xvar"]),
        "; ".join(bl(p) for p in c["nanpats"]))


def eret_v(r):
    if r[0] == "ret":
        return "(ERet %s %s)" % (xz(r[1]), zl(r[2]))
    return {"ValueError": "EValueError", "NameError": "ENameError"}[r[0]]


def case_v(c, out):
    log = "[" + "; ".join("(%s, %s)" % (zl(st), signs_v(sg)) for st, sg in out["log"]) + "]"
    return "(mkCase %s %s [%s] %s %s %s %s)" % (
        cfg_v(c), xz(c["chi2_nil"]), "; ".join(ans(a) for a in c["script"]), ans(c["dflt"]), zl(c["rnd"]),
        eret_v(out["ret"]), log)


# ------------------------------------------------------------------------------ script generation

def count_params_py(has, mp):
    n = 0
    for j, h in enumerate(has[:mp]):
        if h:
            n = j + 1
    return n


def poly(P, n):
    return sum(c * n ** i for i, c in enumerate(P))


def gen_poly(r, n, target):
    """A coefficient list whose value at n is `target` (so the generator can steer; the expectation comes from Coq)."""
    k = r.choice([1, 1, 2, 2, 3])
    if k == 1 or n == 0:
        return [target] + [r.randint(-3, 3) for _ in range(k - 1)]
    hi = [r.randint(-2, 3) for _ in range(k - 1)]
    rest = sum(c * n ** (i + 1) for i, c in enumerate(hi))
    return [target - rest] + hi


def gen_value(r, base, kind):
    u = r.random()
    if kind == "infs":
        if u < 0.90:
            return "inf"
        if u < 0.93:
            return "-inf"
        if u < 0.96:
            return "nan"
    else:
        if u < 0.06:
            return "inf"
        if u < 0.08:
            return "-inf"
        if u < 0.16:
            return "nan"
        if u < 0.19:
            return r.choice([HUGE, NEARBIG, -HUGE, 8 * 2 ** 340])
    off = r.choice([0, 0, 0, 1, -1, 2, -2, 3, -3, 4, -4, 5, -5, 8, -8, 15, -15, 16, -16, 17, -17, 24, -24, 40, -40, 100, -100])
    return base + off


def gen_case(r, regime, flavour=None):
    """regime = (nparam target 0..4, log_opt)"""
    npar, log_opt = regime
    flavour = flavour or r.choice(["plain"] * 6 + ["infs", "long", "early", "exc"])
    mp = r.choice([4, 4, 4, 5, 6]) if npar <= 4 else 6
    if r.random() < 0.08:
        mp = r.choice([2, 3, 4])
    has = [r.random() < 0.6 for _ in range(max(npar - 1, 0))] + ([True] if npar else [])
    if npar and r.random() < 0.85:
        has[0] = True
    if r.random() < 0.1:
        has = has + [r.random() < 0.5 for _ in range(r.randint(1, 2))]
    nparam = count_params_py(has, mp)
    c = dict(has=[int(h) for h in has], max_param=mp, nparam=nparam, log_opt=log_opt)
    c["comp"] = r.choice([0, 1, 2, 3, 5])
    c["ignore_prev"] = r.random() < 0.6
    c["in_prev"] = r.random() < (0.5 if flavour == "early" else 0.06)
    c["test_success"] = r.random() < 0.35
    # Niter / Nconv
    if flavour in ("infs", "long"):
        niter = r.choice([50, 51, 55, 60, 100])
    else:
        niter = r.randint(1, 12)
    nconv = r.randint(1, min(niter, r.choice([1, 2, 3, 4, 6])))
    if flavour == "early" and r.random() < 0.5:
        niter, nconv = r.choice([(0, 1), (3, 0), (2, 3), (-1, -1), (5, -2), (4, 5)])
    c["Niter_params"] = gen_poly(r, nparam, niter)
    c["Nconv_params"] = gen_poly(r, nparam, nconv)
    # sympify
    u = r.random()
    c["sym"] = "ok" if (u > 0.06 and flavour != "early") or u > 0.45 else r.choice(["timeout", "name", "other"])
    natural = bool(has and has[0])
    c["sym_has_a0"] = natural if r.random() > 0.04 else (not natural)
    c["xvar"] = r.random() > (0.3 if flavour == "early" else 0.03)
    pats = [list(p) for p in itertools.product([0, 1], repeat=nparam)] if nparam else []
    u = r.random()
    if not pats or u < 0.55:
        c["nanpats"] = []
    elif u < (0.75 if flavour == "early" else 0.95):
        c["nanpats"] = [p for p in pats if r.random() < 0.5]
        if len(c["nanpats"]) == len(pats):
            c["nanpats"] = c["nanpats"][1:]
    else:
        c["nanpats"] = pats
    c["chi2_nil"] = gen_value(r, r.randint(-80, 800), "plain")
    # oracle script
    md_nb = 1
    if log_opt and nparam == 1:
        md_nb = 2
    if log_opt and nparam == 2:
        md_nb = 4
    base = r.randint(-80, 800)
    kind = "infs" if flavour == "infs" else "plain"
    lo, hi = (0, 6) if (log_opt and nparam <= 2) else (-9, 9)

    def one():
        ln = max(nparam, 1)
        if r.random() < 0.02:
            ln = r.choice([ln + 1, ln + 2, mp + 1])
        return ["res", [r.randint(lo, hi) for _ in range(ln)], gen_value(r, base, kind), r.random() > 0.15]
    ncalls = max(niter, 1) * md_nb
    if flavour in ("infs", "long"):
        nlit = r.randint(0, 30)
    else:
        nlit = r.randint(0, ncalls + 1)
    c["script"] = [one() for _ in range(nlit)]
    if flavour == "exc" and c["script"]:
        c["script"][r.randrange(len(c["script"]))] = ["raise", r.choice(["timeout", "timeout", "name", "other"])]
    u = r.random()
    if flavour == "infs":
        c["dflt"] = ["res", [r.randint(lo, hi) for _ in range(max(nparam, 1))], r.choice(["inf", "inf", "inf", "-inf", "nan"]), True]
    elif u < 0.8:
        c["dflt"] = one()
    else:
        c["dflt"] = ["raise", r.choice(["timeout", "name", "other"])]
    c["rnd"] = [r.randint(-5, 9) for _ in range(r.randint(0, 16))]
    c["pmin"], c["pmax"] = r.choice([(0, 3), (-1, 1), (0, 1)])
    return c


def directed_cases():
    """Hand-made scripts for the corners of the inf_count / count_lowest logic."""
    def mk(nparam, log_opt, niter, nconv, script, dflt, test_success=False):
        return dict(has=[1] * nparam, max_param=4, nparam=nparam, log_opt=log_opt, comp=0, ignore_prev=True, in_prev=False,
                    test_success=test_success, Niter_params=[niter], Nconv_params=[nconv], sym="ok", sym_has_a0=True, xvar=True,
                    nanpats=[], chi2_nil=0, script=script, dflt=dflt, rnd=[1, 2, 3], pmin=0, pmax=3)
    inf = ["res", [1], "inf", True]
    ninf = ["res", [2], "-inf", True]
    nan = ["res", [3], "nan", True]

    def fin(v, x=4, ok=True):
        return ["res", [x], v, ok]
    out = [
        mk(1, False, 60, 5, [inf] * 49 + [ninf], fin(8)),                 # 50th infinity is -inf: dropped
        mk(1, False, 60, 5, [inf] * 50, fin(8)),                           # stop after 50
        mk(1, False, 60, 5, [inf] * 49 + [nan] * 5 + [inf], fin(8)),       # NaNs do not count
        mk(1, False, 60, 5, [fin(8)] + [inf] * 49 + [ninf, fin(0)], fin(8)),   # inf_count passes 50 with a finite best
        mk(1, False, 60, 5, [fin(8)] + [inf] * 50 + [ninf, fin(0)], fin(8)),
        mk(1, False, 60, 5, [fin(8)] + [inf] * 48 + [ninf, inf, fin(0)], fin(8)),
        mk(1, False, 60, 5, [ninf] + [inf] * 49, fin(8)),                  # chi2_min = -inf counts as "nothing finite"
        mk(1, False, 100, 3, [fin(800), fin(796), fin(793), fin(790), fin(787), fin(784)], fin(0)),   # creeping best
        mk(1, False, 100, 3, [fin(800), fin(800), fin(783), fin(783), fin(783)], fin(0)),
        mk(1, False, 100, 2, [fin(800), fin(804), fin(797)], fin(0)),
        mk(1, True, 10, 2, [fin(80), fin(80), fin(80), nan, nan, fin(40), fin(80, 5), fin(80, 6)], fin(80)),
        mk(2, True, 10, 2, [["res", [1, 2], 80, True]] * 3 + [["res", [3, 0], 72, True]], ["res", [2, 2], 72, True]),
        mk(2, True, 10, 2, [["res", [1, 2], 80, True], ["res", [1, 3], 72, True], ["res", [4, 0], 72, True], ["res", [5, 5], 80, True]],
           ["res", [2, 2], 72, True]),
        mk(2, True, 10, 1, [["res", [1, 2], 80, True], ["res", [1, 3], 80, True], ["res", [4, 0], 64, True], ["res", [5, 5], 80, True]],
           ["res", [2, 2], 64, True]),
        mk(2, True, 60, 2, [["res", [1, 2], "inf", True]] * 196 + [["res", [1, 2], "-inf", True]], ["res", [2, 2], "inf", True]),
        mk(3, True, 10, 2, [["res", [1, -2, 3], 80, False], ["res", [4, 5, 6], 96, True]], ["res", [7, 8, 9], 96, True], True),
        mk(1, False, 10, 2, [fin(80, ok=False), fin(96)], ["raise", "timeout"], True),
        mk(1, True, 10, 2, [fin(HUGE), fin(HUGE)], ["raise", "timeout"]),
        mk(1, True, 3, 2, [fin(HUGE), fin(HUGE), fin(NEARBIG, 2), fin(HUGE)], fin(8 * 2 ** 340)),
    ]
    return out


def run_impl_scripts(ctx, cases):
    chunks = [cases[i:i + 400] for i in range(0, len(cases), 400)]

    def go(ch):
        rc, out, err = esrv.run_py(ctx.scratch, IMPL, ["scripts"], stdin=json.dumps(ch), timeout=1500)
        if rc != 0:
            raise RuntimeError("c10_impl scripts failed: " + err[-1500:])
        return json.loads(out)
    with ThreadPoolExecutor(max_workers=8) as ex:
        res = list(ex.map(go, chunks))
    return [x for ch in res for x in ch]


def coq_check(cases, outs, shard=250):
    """Returns the list of indices on which the model disagrees (and raw output on failure to evaluate)."""
    jobs = []
    for s in range(0, len(cases), shard):
        body = ";\n ".join(case_v(c, o) for c, o in zip(cases[s:s + shard], outs[s:s + shard]))
        v = ("Require Import String.\nFrom ESRV Require Import Common.XZ Common.Corr Model.Optimise.\nOpen Scope Z_scope.\n"
             "Definition cases : list tcase := [\n %s].\n"
             "Eval vm_compute in (\"C10S\"%%string, failing case_ok cases).\n" % body)
        jobs.append((s, v))

    def go(j):
        s, v = j
        rc, out = esrv.coq_run(v, timeout=1200)
        flat = " ".join(out.split()).replace("%string", "")
        return s, rc, flat
    bad, errs = [], []
    with ThreadPoolExecutor(max_workers=8) as ex:
        for s, rc, flat in ex.map(go, jobs):
            if rc != 0 or '("C10S", [' not in flat:
                errs.append(flat[-1200:])
                continue
            inner = flat.split('("C10S", [', 1)[1].split("]", 1)[0].strip()
            if inner:
                bad += [s + int(t.replace("%nat", "")) for t in inner.split(";")]
    return bad, errs


def model_output(case, out):
    v = ("From ESRV Require Import Common.XZ Model.Optimise.\nOpen Scope Z_scope.\n"
         "Definition t := %s.\nEval vm_compute in (let o := run_case t in (o_ret o, o_calls o, o_iters o, o_stop o)).\n" % case_v(case, out))
    rc, o = esrv.coq_run(v)
    return " ".join(o.split())[-1500:]


def case_key(c, out):
    nb = 4 if (c["log_opt"] and c["nparam"] == 2) else 2 if (c["log_opt"] and c["nparam"] == 1) else 1
    return (min(c["nparam"], 3), c["log_opt"], out["ret"][0] if out["ret"][0] != "ret" else
            ("fin" if not isinstance(out["ret"][1], str) else out["ret"][1]), min(len(out["log"]) // nb, 50))


def correspondence(ctx):
    rep = ctx.report
    r = esrv.rng(ctx.seed, "C10-scripts")
    n = 500 if ctx.quick else 8000
    regimes = [(1, False), (1, True), (2, False), (2, True), (3, False), (3, True), (4, False), (4, True), (0, False), (0, True)]
    weights = [5, 7, 5, 8, 5, 2, 2, 1, 1, 1]
    cases = directed_cases()
    while len(cases) < n:
        cases.append(gen_case(r, r.choices(regimes, weights)[0]))
    outs = run_impl_scripts(ctx, cases)
    good_c, good_o = [], []
    for i, (c, o) in enumerate(zip(cases, outs)):
        if "driver_error" in o or o.get("problems") or o["ret"][0].startswith("other") or \
                (o["ret"][0] == "ret" and (isinstance(o["ret"][1], list) or any(isinstance(q, list) for q in o["ret"][2]))):
            rep.fail("broken-correspondence", "scripted run of the real optimise_fun left the scripted domain (case %d): %r" % (
                i, {k: o.get(k) for k in ("driver_error", "problems", "ret")}), "C10:script-driver", input=c, observed=o,
                theorem="scripted-oracle tie")
            continue
        good_c.append(c)
        good_o.append(o)
        rep.case(key=case_key(c, o), nontrivial=len(o["log"]) > 0,
                 sample={"cfg": {k: c[k] for k in ("has", "max_param", "log_opt", "Niter_params", "Nconv_params", "test_success")},
                         "script_head": c["script"][:4], "returned": o["ret"], "oracle_calls": len(o["log"])})
    bad, errs = coq_check(good_c, good_o)
    rep.traces += len(good_c)
    for e in errs[:2]:
        rep.fail("broken-correspondence", "Coq could not evaluate the model on the generated cases", "C10:script-eval", observed=e,
                 theorem="Model/Optimise.v run_case")
    for i in bad[:3]:
        rep.fail("broken-correspondence", "model and real optimise_fun differ on a scripted oracle run "
                 "(returned value / parameters / minimize call log)", "C10:script-corr", input=good_c[i],
                 observed={"implementation": good_o[i], "model": model_output(good_c[i], good_o[i])},
                 theorem="Model/Optimise.v optimise vs test_all.optimise_fun")
    ctx.script_cases = list(zip(good_c, good_o))
    # --- chi2_fcn's decode
    jobs = []
    for _ in range(60 if ctx.quick else 400):
        ln = r.randint(0, 4)
        sg = None if r.random() < 0.2 else [r.choice([0, 1, 2]) for _ in range(ln)]
        xs = [r.randint(0, 6) for _ in range(ln + (r.randint(0, 2) if r.random() < 0.2 else 0))]
        jobs.append([sg, xs])
    rc, out, err = esrv.run_py(ctx.scratch, IMPL, ["chi2fcn"], stdin=json.dumps(jobs), timeout=600)
    if rc != 0:
        rep.fail("broken-correspondence", "chi2fcn driver failed", "C10:chi2fcn-driver", observed=err[-1500:], theorem="decode tie")
    else:
        got = json.loads(out)
        odd = [[j, g] for j, g in zip(jobs, got) if any(not isinstance(q, int) for q in g)]
        if odd:
            rep.fail("broken-correspondence", "chi2_fcn raised or produced a non-integer parameter on integer exponents: %r" % (odd[:3],),
                     "C10:decode-corr", observed=odd[:5], theorem="decode vs chi2_fcn")
            got = [g if all(isinstance(q, int) for q in g) else ["raise", "odd"] for g in got]
        terms = "; ".join("(%s, %s, %s)" % (signs_v(sg), zl(xs), zl(g)) for (sg, xs), g in zip(jobs, got) if not (g and g[0] == "raise"))
        v = ("Require Import String.\nFrom ESRV Require Import Common.XZ Common.Corr Model.Optimise.\nOpen Scope Z_scope.\n"
             "Definition cs : list (option (list sgn) * list Z * list Z) := [%s].\n"
             "Eval vm_compute in (\"C10D\"%%string, failing (fun c => match c with (s, x, e) => lz_eqb (map par_eval (decode s x)) e end) cs).\n" % terms)
        rc, o = esrv.coq_run(v)
        flat = " ".join(o.split()).replace("%string", "")
        rep.traces += len(jobs)
        if rc != 0 or '("C10D", [])' not in flat:
            rep.fail("broken-correspondence", "chi2_fcn's +-10**x decoding differs from Model/Optimise.v decode", "C10:decode-corr",
                     observed=flat[-800:], theorem="decode vs chi2_fcn")
    # --- main(): rows of negloglike_comp<n>.dat
    main_rows(ctx, r)
    rep.rule = ("scripts: %d runs of the real optimise_fun with minimize replaced by a scripted oracle (finite values on a 1/8 grid around a base, "
                "+-inf, NaN, >=1e100, success flags, raised Timeout/NameError/other, wrong-length x) and np.random.uniform by a scripted stream; "
                "regimes nparam 0..4 x log_opt, max_param 2..6, comp / previous-equation skip, valid and invalid Niter/Nconv polynomials, "
                "run_sympify outcomes, missing xvar, NaN-on-data tables; %d directed scripts for the 50-infinities and count_lowest corners; "
                "non-trivial = at least one minimize call; keyed by (nparam, mode, kind of result, iterations). "
                "decode: chi2_fcn on random sign lists; main: rows written by the real main() for scripted per-function behaviours" % (
                    len(cases), len(directed_cases())))
    rep.exhaustive = False


def main_rows(ctx, r):
    rep = ctx.report
    for comp, try_int in ([(1, True), (5, False), (13, True)] if ctx.quick else
                          [(c, t) for c in (1, 2, 5, 9, 11, 13, 16) for t in (True, False)]):
        rows = []
        for _ in range(r.randint(4, 9)):
            k = r.choice(["ret", "ret", "name", "name-then-ret", "value", "other", "timeout"])
            rows.append([k, gen_value(r, r.randint(-40, 400), "plain") if r.random() < 0.8 else r.choice(["inf", "nan"])])
        rows = [[k, (v if not (isinstance(v, int) and abs(v) > 10 ** 6) else 8)] for k, v in rows]
        job = dict(comp=comp, try_integration=try_int, log_opt=r.random() < 0.5, rows=rows, Niter_params=[3, 0], Nconv_params=[1, 5])
        rc, out, err = esrv.run_py(ctx.scratch, IMPL, ["mainrows"], stdin=json.dumps(job), timeout=600)
        if rc != 0:
            rep.fail("broken-correspondence", "mainrows driver failed", "C10:main-driver", observed=err[-1500:], theorem="main_row tie")
            return
        got = json.loads(out)
        terms = []
        for (k, v), (gv, gp) in zip(rows, got["rows"]):
            has = "[true]" if k == "value" else "[]"
            sym1 = {"ret": "(SymOk false)", "name": "(SymExc EName)", "name-then-ret": "(SymExc EName)", "value": "(SymOk true)",
                    "other": "(SymExc EOther)", "timeout": "(SymExc ETimeout)"}[k]
            if k == "name-then-ret" and not try_int:     # the stub raises NameError only when asked to integrate
                sym1 = "(SymOk false)"
            sym2 = "(SymOk false)" if k == "name-then-ret" else sym1
            terms.append("(%s, %s, %s, %s, %s, %s)" % (has, sym1, sym2, xz(v), xz(gv), zl(gp)))
        v = ("Require Import String.\nFrom ESRV Require Import Common.XZ Common.Corr Model.Optimise.\nOpen Scope Z_scope.\n"
             "Definition mp := Z.to_nat (main_max_param %d).\n"
             "Definition run (has : list bool) (sy : sym_outcome) (nv : xz) := o_ret (optimise (nil_chi2 nv) (script_oracle [] (Raise EOther)) (stream [])\n"
             "  (mkCfg has mp %d false false %s false [3; 0] [1; 5] sy true (table_nanpat []))).\n"
             "Definition rows : list (list bool * sym_outcome * sym_outcome * xz * xz * list Z) := [%s].\n"
             "Eval vm_compute in (\"C10M\"%%string, failing (fun c => match c with (has, s1, s2, nv, ev, ep) =>\n"
             "  let '(v, p) := main_row mp %s (run has s1 nv) (run has s2 nv) in xz_same v ev && lz_eqb (map par_eval p) ep end) rows).\n" % (
                 comp, comp, b(job["log_opt"]), "; ".join(terms), b(try_int)))
        rc, o = esrv.coq_run(v)
        flat = " ".join(o.split()).replace("%string", "")
        rep.traces += len(rows)
        rep.case(key=("main", comp, try_int), sample={"main_rows": rows, "file_rows": got["rows"]})
        if rc != 0 or '("C10M", [])' not in flat or len(got["rows"]) != len(rows):
            rep.fail("broken-correspondence", "rows written by the real main() differ from Model/Optimise.v main_row", "C10:main-corr",
                     input=job, observed={"impl": got, "coq": flat[-600:]}, theorem="main_row vs test_all.main")


# ------------------------------------------------------------------------------ search (spec side)

def spec_scripts(ctx):
    """The proved statements, re-stated directly on the observable outputs of the scripted real runs
    (no model involved): the returned value is the least non-NaN selected `fun` of the processed iterations, and the
    returned parameters are the back-transformed x of the call that produced it."""
    rep = ctx.report
    for c, o in getattr(ctx, "script_cases", []):
        if o["ret"][0] != "ret" or not o["log"] or c["test_success"]:
            continue
        v = o["ret"][1]
        answers = [(c["script"][k] if k < len(c["script"]) else c["dflt"]) for k in range(len(o["log"]))]
        log = o["log"]
        raises = [k for k, a in enumerate(answers) if a[0] == "raise"]
        if raises:
            # a time limit that fires after some minimize calls have completed: the handler salvages the best point found so far, and
            # the same statement holds for it (the calls before the interrupt); other exceptions propagate or give NaN (not judged here)
            if answers[raises[0]][1] != "timeout" or raises[0] == 0:
                continue
            answers, log = answers[:raises[0]], log[:raises[0]]
        if isinstance(v, str) or v >= 8 * 10 ** 100:
            continue
        if any(len(a[1]) != c["nparam"] for a in answers):       # outside the oracle contract (len(x) == nparam)
            continue

        def num(t):
            return {"inf": float("inf"), "-inf": float("-inf"), "nan": float("nan")}[t] if isinstance(t, str) else t
        # every answer is >= the returned value unless it is NaN or shadowed by a NaN in its iteration (np.argmin) --
        # the plain spec: the returned value occurs among the answers, with matching back-transformed parameters
        hits = []
        for (st, sg), a in zip(log, answers):
            if num(a[2]) == v:
                if sg is None:
                    p = list(a[1])
                else:
                    p = [(10 ** xx if s == 1 else -10 ** xx) for s, xx in zip(sg, a[1])]
                p = p + [0] * (c["max_param"] - len(p))
                hits.append(p)
        if o["ret"][2] not in hits:
            rep.fail("failing-input", "returned parameters are not the back-transformed x of any minimize result whose fun equals the returned value",
                     "C10:params-do-not-reproduce-value", input=c, observed=o["ret"], expected=hits[:4])
            return


FIT_MODELS = [("a0", 1), ("a0*x", 1), ("a0+a1*x", 2), ("a0*x+a1*x**2", 2), ("a0+a1*x+a2*x**2", 3)]
TOL = 2e-2     # upstream tests/test_esr.py: np.isclose(logL, ..., atol=2e-2)


def fit_jobs(ctx):
    r = esrv.rng(ctx.seed, "C10-fits")
    nseeds = 3 if ctx.quick else 20
    jobs = []
    for model, npar in FIT_MODELS:
        for signs in itertools.product([1, -1], repeat=npar):
            for log_opt in (False, True):
                for s in range(nseeds):
                    # magnitudes inside the search box: pmin=0, pmax=3 is 1..1000 in log space, 0..3 in linear space
                    if log_opt and npar <= 2:
                        mags = [10 ** r.uniform(0.05, 2.95) for _ in range(npar)]
                    else:
                        mags = [r.uniform(0.05, 2.95) for _ in range(npar)]
                    jobs.append(dict(model=model, true=[sg * m for sg, m in zip(signs, mags)], log_opt=log_opt, pmin=0, pmax=3,
                                     seed=r.randrange(2 ** 31), data_seed=r.randrange(2 ** 31), sigma=0.5, npoints=24))
    # weakly constrained single parameters (0.6 - 0.9 sigma from zero), both signs, both modes: in log mode the two sign branches
    # then end within 0.5 of each other -- the branch with the lower value must still be the one returned
    for model in ("a0", "a0*x"):
        for sign in (1, -1):
            for log_opt in (False, True):
                for s in range(2 if ctx.quick else 10):
                    jobs.append(dict(model=model, true=[sign * 10 ** r.uniform(0.1, 0.45)], log_opt=log_opt, pmin=0, pmax=3,
                                     seed=r.randrange(2 ** 31), data_seed=r.randrange(2 ** 31), sigma=0.5, npoints=24,
                                     weak=r.uniform(0.6, 0.9)))
    # five parameters (one more than the predefined parameter symbols)
    for s in range(1 if ctx.quick else 4):
        jobs.append(dict(model="a0+a1*sin(x)+a2*cos(x)+a3*sin(2*x)+a4*cos(2*x)", true=[r.choice([1, -1]) * r.uniform(0.3, 2.5) for _ in range(5)],
                         log_opt=bool(s % 2), pmin=0, pmax=3, seed=r.randrange(2 ** 31), data_seed=r.randrange(2 ** 31), sigma=0.3, npoints=40))
    return jobs


def run_fits(ctx, jobs):
    chunks = [jobs[i::8] for i in range(8)]
    chunks = [c for c in chunks if c]

    def go(ch):
        rc, out, err = esrv.run_py(ctx.scratch, IMPL, ["fits"], stdin=json.dumps(ch), timeout=3000)
        if rc != 0:
            raise RuntimeError("c10_impl fits failed: " + err[-1500:])
        return json.loads(out)
    with ThreadPoolExecutor(max_workers=8) as ex:
        res = list(ex.map(go, chunks))
    out = [None] * len(jobs)
    for k, ch in enumerate(res):
        for i, x in enumerate(ch):
            out[k + 8 * i] = x
    return out


PARAMFREE = ["x", "x**2", "inv(x)", "x+x**2", "pow(x,x)"]
NAN_ON_DATA = ["(-x-a0**2)**0.5", "(-x-a0**2-a1**2)**0.5", "(-x-a0**2)**0.5+a1+a2"]


def direct_checks(ctx):
    """Parameter-free functions are evaluated directly; functions NaN on the data give +inf (real likelihood, real minimize)."""
    rep = ctx.report
    r = esrv.rng(ctx.seed, "C10-direct")
    job = dict(data_seed=r.randrange(2 ** 31), functions=PARAMFREE + NAN_ON_DATA)
    rc, out, err = esrv.run_py(ctx.scratch, IMPL, ["direct"], stdin=json.dumps(job), timeout=900)
    if rc != 0:
        rep.fail("broken-correspondence", "direct driver failed", "C10:direct-driver", observed=err[-1500:], theorem="search")
        return
    for o in json.loads(out):
        rep.case(key=("direct", o["fcn"], o["log_opt"]), sample={"TESTING": "direct", **o})
        zero = all(q == 0 for q in o["params"]) and o["minimize_calls"] == 0
        if o["fcn"] in PARAMFREE:
            if not (zero and o["value"] == o["direct"]):
                rep.fail("failing-input", "parameter-free function %s is not evaluated directly" % o["fcn"], "C10:paramfree-not-direct",
                         input=dict(job, fcn=o["fcn"]), observed=o, expected="value == negloglike([]) , zero parameters, no minimize call")
        else:
            if not (zero and o["value"] == float("inf")):
                rep.fail("failing-input", "function %s is NaN on the data for every parameter sign but is not reported as +inf" % o["fcn"],
                         "C10:nan-on-data-not-inf", input=dict(job, fcn=o["fcn"]), observed=o, expected="(+inf, zeros), no minimize call")


def search(ctx):
    rep = ctx.report
    spec_scripts(ctx)
    direct_checks(ctx)
    jobs = fit_jobs(ctx)
    res = run_fits(ctx, jobs)
    nfit = nmiss = 0
    worst = 0.0
    suspects = []
    for jb, rs in zip(jobs, res):
        nfit += 1
        sg = tuple(1 if t > 0 else -1 for t in jb["true"])
        rep.case(key=("fit", jb["model"], sg, jb["log_opt"]),
                 sample={"TESTING": "real scipy fit", "model": jb["model"], "true": jb["true"], "log_opt": jb["log_opt"],
                         "returned": rs["value"], "closed_form_min": rs["nll_wls"]})
        repro = abs(rs["nll_at_returned"] - rs["value"]) <= 1e-6 * max(1.0, abs(rs["value"]))
        if not repro:
            rep.fail("failing-input", "likelihood at the returned parameters (%r) is not the returned value (%r)" % (
                rs["nll_at_returned"], rs["value"]), "C10:fit:params-do-not-reproduce-value", input=jb, observed=rs,
                expected="negloglike(params) == value")
            continue
        gap = rs["value"] - rs["nll_wls"]
        worst = max(worst, gap) if gap == gap else worst
        if not (gap <= TOL):
            suspects.append((jb, rs))
    # a fit that misses the closed-form minimum is re-run with three other optimiser seeds; flagged only when all miss
    for jb, rs in suspects[:12]:
        r2 = esrv.rng(ctx.seed, "C10-refit-%d" % jb["seed"])
        again = [dict(jb, seed=r2.randrange(2 ** 31)) for _ in range(3)]
        res2 = run_fits(ctx, again)
        if all(not (x["value"] - x["nll_wls"] <= TOL) for x in res2):
            nmiss += 1
            sg = "".join("+" if t > 0 else "-" for t in jb["true"])
            rep.fail("failing-input", "real fit of %s (true parameter signs %s, log_opt=%s) ends %.3g above the closed-form weighted-least-squares "
                     "minimum in the first run and in 3 re-runs with other seeds (tolerance %g)" % (jb["model"], sg, jb["log_opt"],
                                                                                                 rs["value"] - rs["nll_wls"], TOL),
                     "C10:fit-misses-wls:%s:%s:%s" % (jb["model"], sg, "log" if jb["log_opt"] else "lin"),
                     input=jb, observed={"first": rs, "reruns": res2}, expected="value <= closed-form minimum + %g" % TOL)
    rep.extra["testing_real_fits"] = dict(
        note="TESTING, not proof: real scipy BFGS fits of linear-in-parameter models on Gaussian data vs closed-form WLS",
        fits=nfit, single_run_misses=len(suspects), persistent_misses=nmiss, worst_gap=worst, tolerance=TOL,
        models=[m for m, _ in FIT_MODELS], seeds_per_cell=3 if ctx.quick else 20)


LEVEL_TEXT = ("Machine-checked theorems (Coq) about optimise_fun's bookkeeping for EVERY behaviour of the minimiser (any sequence of results incl. NaN, "
              "+-inf, ties, failures and raised exceptions), every random-start stream and every Niter/Nconv polynomial: the returned parameters, "
              "back-transformed from log space with the recorded signs and unpadded, reproduce the returned value (all three regimes, both modes); the "
              "returned value is the least non-NaN selected result of the processed iterations; the loop ends only on count_lowest = Nconv, the cap, or "
              "50 infinities with no finite best; log mode tries every orthant for <= 2 parameters; parameter-free functions are evaluated directly; "
              "NaN-on-data functions give +inf; and, conditionally on the oracle returning the global minimiser once, the routine returns the global minimum. "
              "Tests cannot quantify over the optimiser's behaviours; the upstream suite fits one data set with positive parameters.")
LEVEL_NOTE = ("Partial: BFGS convergence from random starts is an oracle and is only TESTED (search(): real fits vs closed-form WLS, all sign patterns). "
              "The model of the control flow is hand-written and tied by scripted-oracle runs of the real optimise_fun and main() (value, parameters, "
              "every minimize call's start and signs). Values are exact multiples of 1/8; 10**x is symbolic. No axioms.")
TECHNIQUE = ("Coq invariant proof over a hand-written model of the optimiser loop with the minimiser, start stream and likelihood as arguments (count_params translator-generated and proved equal to the model's); "
             "scripted-oracle correspondence on the real optimise_fun/main under vm_compute; real-fit testing against closed-form WLS")
