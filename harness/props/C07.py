"""C07 -- parameter code length and zero-snapping follow the MDL formula."""
import json
import math
import os
import re
from fractions import Fraction as Fr

import esrv

PROPS_V = "Props/C07.v"
# functions the hand-written model of this property was written against (normalised source stored under harness/corr/guards/;
# a difference is reported as broken-correspondence: the theorems then no longer speak about the current source)
SOURCE_GUARDS = [
    ("esr/fitting/test_all_Fisher.py", "convert_params"),
]

TRANSLATORS = []
TRUSTED = [
    "Coq 8.16.1 kernel + vm_compute (no native_compute)",
    "Print Assumptions: theorems about R (snap-test equivalences, codelen_formula, kept_iff, all_dropped_zero_len) use the standard "
    "library's axioms of Reals: ClassicalDedekindReals.sig_not_dec, sig_forall_dec, FunctionalExtensionality.functional_extensionality_dep, "
    "and Classical_Prop.classic (codelen_formula/all_dropped_zero_len, via ln); all other C07 theorems are closed under the global context",
    "hand-written model coq/Model/Fisher.v of test_all_Fisher.convert_params, tied each run by running the REAL convert_params "
    "(nd.Hessian replaced harness-side by a scripted stub, table-driven likelihood) and the model (vm_compute) on the same generated cases",
    "numpy/IEEE float arithmetic is exact on the generated inputs at the decisions (thresholds hit with I=12*4^j, theta=2^-j; "
    "other inputs at relative distance >= 2^-11 from the threshold; rounded-Delta keys at distance >= 1e-9 from a rounding boundary unless exactly dyadic)",
    "scipy.stats.mode (scipy >= 1.11 semantics: mode(a)[0][0] scalar, smallest most frequent value) and Python's format(.,'.3e') are "
    "modelled by Fisher.mode / Fisher.rkey and validated only by the correspondence",
]
ASSUMPTIONS = [
    "theta_ML and the incoming negloglike are finite floats (main() skips functions whose nll is NaN/inf)",
    "numdifftools.Hessian is not modelled: the matrices it returns are inputs of the model (tested separately against the analytic "
    "Hessian of linear-Gaussian models, tolerance 1e-4 -- a TEST, not a proof)",
    "nparam is read off the string by simplifier.count_params; lambdify succeeds (its failure path raises UnboundLocalError, outside the model)",
    "float rounding of log/sqrt in the final formula is not modelled: the structure's real value is compared with the float within 1e-12",
]
IMPL = os.path.join(esrv.VERIF, "harness", "corr", "c07_impl.py")
KEY_DEFECT = "C07:subset-search:inner-break-discards-larger-subset"

# ------------------------------------------------------------------ numbers
SPECIAL = ("inf", "-inf", "nan")


def jnum(v):
    """harness number (Fraction | 'inf' | '-inf' | 'nan') -> JSON value, exactly representable as a double"""
    if isinstance(v, str):
        return v
    f = float(v)
    assert Fr(f) == v, "not a double: %r" % (v,)
    return f


def from_out(v):
    if isinstance(v, str):
        return v
    return Fr(v)


def cq(v):
    v = Fr(v)
    n = "%d" % v.numerator if v.numerator >= 0 else "(%d)" % v.numerator
    return "(%s # %d)%%Q" % (n, v.denominator)


def cx(v):
    if isinstance(v, str):
        return {"inf": "PInf", "-inf": "NInf", "nan": "NaN"}[v]
    return "Fin " + cq(v)


def clist(items):
    return "[" + "; ".join(items) + "]"


def cmat(m):
    return clist(clist("(%s)" % cx(v) if not isinstance(v, str) else cx(v) for v in row) for row in m)


# ------------------------------------------------------------------ guards on float exactness
def is_dyadic_square(v):
    """v = (p/2^s)^2 exactly with sqrt(v) a double -> float sqrt(12/I) is exact"""
    n, d = v.numerator, v.denominator
    rn, rd = math.isqrt(n), math.isqrt(d)
    return rn * rn == n and rd * rd == d and (rd & (rd - 1)) == 0 and rn < 2 ** 50


def key_ok(q):
    """rounded Delta = float(format(sqrt(12/q), '.<d>e')) is robustly the exact rounding (d = 3 and 1)"""
    v = Fr(12) / q
    if is_dyadic_square(v) and Fr(float(v)) == v:
        return True
    L = 0
    while Fr(10) ** (L + 1) <= v:
        L += 1
    while Fr(10) ** L > v:
        L -= 1
    e = L // 2
    for d in (3, 1):
        s = d - e
        X = v * Fr(10) ** (2 * s)
        n = math.isqrt(X.numerator // X.denominator)
        b = Fr((2 * n + 1) ** 2)
        if abs(4 * X - b) / b < Fr(1, 10 ** 9):
            return False
    return True


# ------------------------------------------------------------------ case generation
def pow2(e):
    return Fr(2) ** e


def dy(rng, lo=-5, hi=5, bits=3):
    return Fr(rng.randrange(1, 2 ** bits)) * pow2(rng.randint(lo, hi))


def gen_param(rng):
    """(theta, I, tag): theta^2 I relative to 12"""
    j = rng.randint(-5, 5)
    t0, i0 = pow2(-j), 12 * pow2(2 * j)
    sg = rng.choice((1, -1))
    k = rng.randint(1, 10)
    cat = rng.choice(("at", "at", "below_t", "above_t", "below_i", "above_i", "zero", "rand", "rand", "far_below", "far_above"))
    if cat == "at":
        return sg * t0, i0, cat
    if cat == "below_t":
        return sg * t0 * (1 - pow2(-k)), i0, cat
    if cat == "above_t":
        return sg * t0 * (1 + pow2(-k)), i0, cat
    if cat == "below_i":
        return sg * t0, i0 * (1 - pow2(-k)), cat
    if cat == "above_i":
        return sg * t0, i0 * (1 + pow2(-k)), cat
    if cat == "zero":
        return Fr(0), 3 * dy(rng), cat
    if cat == "far_below":
        return sg * t0 * pow2(-rng.randint(1, 6)), i0, cat
    if cat == "far_above":
        return sg * t0 * pow2(rng.randint(1, 6)), i0, cat
    return sg * dy(rng), rng.choice((1, 3)) * dy(rng), cat


def gen_value(rng, p_bad):
    if rng.random() < p_bad:
        return rng.choice(("inf", "inf", "nan", "-inf"))
    return Fr(rng.randint(-40, 400), 8)


def offdiag(rng, n, diag):
    m = [[Fr(rng.randint(-16, 16), 4) for _ in range(n)] for _ in range(n)]
    for i in range(n):
        for j2 in range(i):
            m[i][j2] = m[j2][i]
        m[i][i] = diag[i]
    return m


def gen_case(rng, idx):
    n = rng.choice((1, 2, 2, 3, 3, 3, 4, 4)) if rng.random() > 0.02 else 0
    maxp = rng.randint(max(n, 1), 5)
    while True:
        ps = [gen_param(rng) for _ in range(n)]
        theta = [p[0] for p in ps]
        I = [p[1] for p in ps]
        below = [i for i in range(n) if theta[i] ** 2 * I[i] < 12]
        # table over zero patterns
        p_bad = rng.choice((0.0, 0.3, 0.6, 0.9))
        table = {}
        for mask in range(2 ** n):
            key = "".join("1" if (mask >> i) & 1 else "0" for i in range(n))
            table[key] = gen_value(rng, p_bad)
        if below and rng.random() < 0.6:
            allkey = "".join("1" if (i in below or theta[i] == 0) else "0" for i in range(n))
            table[allkey] = rng.choice(("inf", "nan"))
        own = "".join("1" if t == 0 else "0" for t in theta)
        if rng.random() < 0.85:
            if isinstance(table[own], str):
                table[own] = Fr(rng.randint(0, 400), 8)
            nll = table[own]
        else:
            nll = Fr(rng.randint(0, 400), 8)
        dflt = Fr(977, 8)
        if rng.random() < 0.3:  # drop some keys: default value used
            for key in list(table):
                if rng.random() < 0.3 and key != own:
                    del table[key]
        H0 = offdiag(rng, n, I)
        mats, seq = [], []
        if n and rng.random() < 0.38:
            # the first Hessian is bad -> fallback sweep over 48 scripted matrices
            bi = rng.randrange(n)
            H0[bi][bi] = rng.choice((Fr(0), -I[bi], "nan", "inf", "-inf"))
            scales = [Fr(1), Fr(1), 1 + pow2(-16), 1 + pow2(-6), 1 + pow2(-2), 1 - pow2(-5), Fr(3), 1 + pow2(-9)]
            ngood = rng.choice((1, 2, 2, 3, 4))
            good = []
            for _ in range(ngood):
                if n >= 2 and rng.random() < 0.3:
                    # permuted diagonal: exercises "first row in which ANY column equals the mode of column 0"
                    perm = list(range(n))
                    rng.shuffle(perm)
                    dg = [I[perm[i]] * rng.choice(scales) for i in range(n)]
                else:
                    dg = [I[i] * rng.choice(scales) for i in range(n)]
                good.append(offdiag(rng, n, dg))
            bad = []
            for _ in range(2):
                b = offdiag(rng, n, list(I))
                kind = rng.choice(("nan_off", "inf_off", "neg_diag", "zero_diag", "nan_diag"))
                i1, i2 = rng.randrange(n), rng.randrange(n)
                if kind == "nan_off":
                    b[i1][i2] = "nan"
                elif kind == "inf_off":
                    b[i1][i2] = rng.choice(("inf", "-inf"))
                elif kind == "neg_diag":
                    b[i1][i1] = -Fr(3)
                elif kind == "zero_diag":
                    b[i1][i1] = Fr(0)
                else:
                    b[i1][i1] = "nan"
                bad.append(b)
            mats = good + bad
            nslots = rng.choice((0, 1, 2, 2, 3, 5, 10, 48))
            slots = set(rng.sample(range(48), nslots))
            distinct_first = rng.random() < 0.5
            seq = []
            used = 0
            for s in range(48):
                if s in slots:
                    if distinct_first and used < ngood:
                        seq.append(used)
                    else:
                        seq.append(rng.randrange(ngood))
                    used += 1
                else:
                    seq.append(ngood + rng.randrange(2))
            if not all(key_ok(g[i][i]) for g in good for i in range(n)):
                continue
        # float exactness of the inputs
        try:
            for v in theta + I + [nll, dflt] + [v for v in table.values()] + [v for m in [H0] + mats for r in m for v in r]:
                jnum(v)
        except AssertionError:
            continue
        return dict(id=idx, n=n, maxp=maxp, theta=theta, I=I, H0=H0, mats=mats, seq=seq, nll=nll, table=table, dflt=dflt,
                    tags=[p[2] for p in ps])


CORPUS = [
    # the replay of the repaired defect: all three below threshold; {0,1,2} -> inf, {0,1} -> 3, singletons -> inf
    dict(id="corpus-inner-break", n=3, maxp=4, theta=[Fr(1, 2), Fr(1, 4), Fr(1, 8)], I=[Fr(12)] * 3,
         H0=[[Fr(12), Fr(0), Fr(0)], [Fr(0), Fr(12), Fr(0)], [Fr(0), Fr(0), Fr(12)]], mats=[], seq=[], nll=Fr(5),
         table={"111": "inf", "110": Fr(3), "100": "inf", "010": "inf", "001": "inf"}, dflt=Fr(7), tags=["corpus"] * 3),
    # single below-threshold parameter whose snap is not finite: restored
    dict(id="corpus-single-restore", n=2, maxp=2, theta=[Fr(1, 2), Fr(3)], I=[Fr(12), Fr(12)],
         H0=[[Fr(12), Fr(1)], [Fr(1), Fr(12)]], mats=[], seq=[], nll=Fr(5), table={"10": "inf", "00": Fr(5)}, dflt=Fr(7),
         tags=["corpus"] * 2),
    # exactly at the threshold: kept
    dict(id="corpus-at-threshold", n=1, maxp=1, theta=[Fr(1)], I=[Fr(12)], H0=[[Fr(12)]], mats=[], seq=[], nll=Fr(5),
         table={"0": Fr(5), "1": Fr(6)}, dflt=Fr(7), tags=["corpus"]),
]


def to_json_case(c):
    return dict(n=c["n"], maxp=c["maxp"], theta=[jnum(v) for v in c["theta"]],
                H0=[[jnum(v) for v in r] for r in c["H0"]],
                mats=[[[jnum(v) for v in r] for r in m] for m in c["mats"]], seq=c["seq"], nll=jnum(c["nll"]),
                table={k: jnum(v) for k, v in c["table"].items()}, dflt=jnum(c["dflt"]))


def upper_from_deriv(deriv, n, maxp):
    rows = []
    for i in range(n):
        start = int(i * maxp - (i - 1) * i / 2)
        rows.append(deriv[start:start + n - i])
    return rows


def to_coq_case(c, out):
    n, maxp = c["n"], c["maxp"]
    tbl = clist("(%s, %s)" % (clist("true" if ch == "1" else "false" for ch in k), cx(v)) for k, v in c["table"].items())
    if "exc" in out:
        ep, en, eu = "[]", "NaN", "[]"
    else:
        ep = clist(cq(from_out(v)) for v in out["params"])
        en = cx(from_out(out["nll"]))
        eu = clist(clist(cx(from_out(v)) for v in row) for row in upper_from_deriv(out["deriv"], n, maxp))
    return ("(mkCase %d%%nat %s %s %s %s (%s) %s (%s) %s (%s) %s)"
            % (maxp, clist(cq(v) for v in c["theta"]), cmat(c["H0"]), clist(cmat(m) for m in c["mats"]),
               clist("%d%%nat" % i for i in c["seq"]), cx(c["nll"]), tbl, cx(c["dflt"]), ep, en, eu))


def eval_struct(enc):
    """value of the model's code-length structure (list of ints printed by Coq), in high precision"""
    import mpmath
    mpmath.mp.dps = 40
    if enc[0] == 0:
        return "nan"
    if enc[0] < 0:
        return "crash%d" % enc[0]
    k = enc[1]
    rest = enc[2:]
    assert len(rest) % 5 == 0
    tot = -mpmath.mpf(k) / 2 * mpmath.log(3)
    neginf = False
    for t in range(0, len(rest), 5):
        tag, inum, iden, tnum, tden = rest[t:t + 5]
        if tag != 1 or inum <= 0:
            return "undef"
        if tnum == 0:
            neginf = True
            continue
        tot += mpmath.log(mpmath.mpf(inum) / iden) / 2 + mpmath.log(abs(mpmath.mpf(tnum)) / tden)
    return "-inf" if neginf else tot


def parse_coq_lists(flat, tag):
    m = re.search(r'\("%s",\s*(\[.*?\])\s*\)\s*:' % tag, flat)
    if not m:
        return None
    txt = m.group(1).replace("%Z", "").replace("%nat", "").replace("(", "").replace(")", "").replace(";", ",")
    return json.loads(txt)


def run_cases(ctx, cases, label):
    """real routine + model on the same cases; returns list of (case, impl_out, model_enc | None)"""
    rep = ctx.report
    rc, out, err = esrv.run_py(ctx.scratch, IMPL, ["run"], stdin=json.dumps([to_json_case(c) for c in cases]), timeout=1500)
    if rc != 0:
        rep.fail("broken-correspondence", "implementation driver failed (%s)" % label, "C07:impl-driver",
                 observed=err[-2000:], theorem="correspondence")
        return []
    outs = json.loads(out)
    results = []
    SH = 250
    for s0 in range(0, len(cases), SH):
        chunk = list(zip(cases[s0:s0 + SH], outs[s0:s0 + SH]))
        v = ("Require Import String.\nFrom Coq Require Import QArith ZArith List Bool.\n"
             "From ESRV Require Import Model.Fisher.\nImport ListNotations.\n"
             "Close Scope Q_scope. Close Scope Z_scope. Open Scope string_scope. Open Scope list_scope.\n"
             "Definition cases : list ccase := [\n%s\n].\n"
             "Eval vm_compute in (\"CHK\", failing_from check_case 0%%nat cases).\n"
             "Eval vm_compute in (\"LEN\", map (fun c => enc_out (fst (run_case c))) cases).\n"
             % ";\n".join(to_coq_case(c, o) for c, o in chunk))
        rc, cout = esrv.coq_run(v, timeout=1200)
        flat = " ".join(cout.split()).replace("%string", "")
        bad = parse_coq_lists(flat, "CHK")
        lens = parse_coq_lists(flat, "LEN")
        if rc != 0 or bad is None or lens is None or len(lens) != len(chunk):
            rep.fail("broken-correspondence", "cases.v did not evaluate (%s shard %d)" % (label, s0 // SH), "C07:coq-run",
                     observed=flat[-1500:], theorem="Model/Fisher.v convert")
            results += [(c, o, None, False) for c, o in chunk]
            continue
        for i, (c, o) in enumerate(chunk):
            results.append((c, o, lens[i], i not in bad))
    return results


def describe(c):
    return dict(id=c["id"], n=c["n"], maxp=c["maxp"], theta=[str(v) for v in c["theta"]],
                H0=[[str(v) for v in r] for r in c["H0"]], sweep_mats=[[[str(v) for v in r] for r in m] for m in c["mats"]],
                sweep_seq=c["seq"], nll=str(c["nll"]), table={k: str(v) for k, v in c["table"].items()}, dflt=str(c["dflt"]))


def undescribe(d):
    def num(v):
        return v if v in SPECIAL else Fr(v)
    return dict(id="replay:%s" % d.get("id"), n=d["n"], maxp=d["maxp"], theta=[Fr(v) for v in d["theta"]],
                I=[num(d["H0"][i][i]) if num(d["H0"][i][i]) not in SPECIAL else Fr(1) for i in range(d["n"])],
                H0=[[num(v) for v in r] for r in d["H0"]], mats=[[[num(v) for v in r] for r in m] for m in d["sweep_mats"]],
                seq=d["sweep_seq"], nll=num(d["nll"]), table={k: num(v) for k, v in d["table"].items()}, dflt=num(d["dflt"]),
                tags=["replay"] * d["n"])


def compare_len(o, enc):
    """float code length of the implementation vs the value of the model's structure"""
    ref = eval_struct(enc)
    cl = o["codelen"]
    if isinstance(ref, str):
        return cl == ref, ref
    if isinstance(cl, str):
        return False, float(ref)
    return abs(cl - float(ref)) <= 1e-12 * max(1.0, abs(float(ref))), float(ref)


def correspondence(ctx):
    rep = ctx.report
    rng = esrv.rng(ctx.seed, "C07-cases")
    N = 600 if ctx.quick else 10000
    cases = list(CORPUS) + [gen_case(rng, i) for i in range(N)]
    rp = getattr(ctx, "replay", None)
    if rp and isinstance(rp.get("input"), dict) and "theta" in rp["input"]:
        cases.insert(0, undescribe(rp["input"]))       # --replay file: that case runs first
    results = run_cases(ctx, cases, "table")
    ctx.c07 = results
    nbad = 0
    for c, o, enc, ok in results:
        below = [i for i in range(c["n"]) if c["theta"][i] ** 2 * c["I"][i] < 12]
        rep.case(key=("case", c["id"]), nontrivial=bool(below) or bool(c["seq"]),
                 sample=dict(input=describe(c), implementation={k: o.get(k) for k in ("params", "nll", "codelen", "exc")},
                             model_len=enc))
        if enc is None:
            continue
        rep.traces += 1
        why = None
        if "exc" in o:
            why = "implementation raised %s; the model returns a value" % o["exc"]
        elif not ok:
            why = "params / nll / deriv differ from the model"
        else:
            same, ref = compare_len(o, enc)
            if not same:
                why = "code length %r differs from the model structure's value %r" % (o["codelen"], ref)
        if why and nbad < 3:
            nbad += 1
            rep.fail("broken-correspondence", "model and implementation disagree: " + why, "C07:corr",
                     input=describe(c), observed=o, expected=dict(model_codelen_structure=enc),
                     theorem="Model/Fisher.v convert vs test_all_Fisher.convert_params")
    rep.extra["branch_coverage"] = branch_stats(results)
    # ---- TEST (not proof): real numdifftools Hessian vs the analytic Hessian of linear-Gaussian models
    hc = gauss_cases(ctx)
    rc, out, err = esrv.run_py(ctx.scratch, IMPL, ["hess"], stdin=json.dumps(hc), timeout=1500)
    ctx.c07_gauss = []
    if rc != 0:
        rep.fail("broken-correspondence", "hess driver failed", "C07:hess-driver", observed=err[-2000:], theorem="nd.Hessian test")
    else:
        outs = json.loads(out)
        ctx.c07_gauss = list(zip(hc, outs))
        worst = 0.0
        for c, o in ctx.c07_gauss:
            if "exc" in o:
                rep.fail("broken-correspondence", "real routine raised on a linear-Gaussian model: %s" % o["exc"], "C07:hess-exc",
                         input=c, theorem="nd.Hessian test")
                break
            H = analytic_hessian(c)
            up = upper_from_deriv(o["deriv"], c["n"], c["maxp"])
            for i in range(c["n"]):
                for j in range(i, c["n"]):
                    got = up[i][j - i]
                    relerr = abs(got - H[i][j]) / max(1.0, abs(H[i][j])) if not isinstance(got, str) else float("inf")
                    worst = max(worst, relerr)
        rep.extra["TEST_real_nd_Hessian_vs_analytic"] = dict(models=len(hc), worst_rel_error=worst, tolerance=1e-4,
                                                             passed=worst <= 1e-4)
        if worst > 1e-4:
            rep.fail("broken-correspondence", "numdifftools Hessian deviates from the analytic Hessian by %g" % worst, "C07:hess-accuracy",
                     theorem="nd.Hessian test (assumption of the model)")
    rep.rule = ("%d generated cases + %d corpus cases through the REAL convert_params (scripted Hessian stub incl. the 48-matrix fallback sweep, "
                "table-driven likelihood over all zero patterns of <= 4 parameters with finite/inf/-inf/NaN values) and through the Coq model "
                "(vm_compute): params, nll, Hessian written to deriv compared exactly in Coq, code length as float vs the model structure's value "
                "(1e-12); parameters at (I=12*4^j, theta=2^-j), just below/above (factor 1 +- 2^-k, k<=10), far from the threshold, and theta=0; "
                "non-trivial = some parameter below threshold or a sweep; plus %d linear-Gaussian models with the real nd.Hessian (TEST)"
                % (N, len(CORPUS), len(hc)))


def branch_stats(results):
    """which branches of the routine the generated cases exercised (from the implementation's own call logs)"""
    st = {}

    def inc(k):
        st[k] = st.get(k, 0) + 1
    for c, o, enc, ok in results:
        if "exc" in o:
            inc("exception")
            continue
        n = c["n"]
        if n == 0:
            inc("nparam=0")
            continue
        if o["ncall"] > 1:
            # rounded-Delta repetition among the matrices that pass the filter (column 0), for the statistics only
            good = []
            for i in c["seq"]:
                m = c["mats"][i]
                if all(not isinstance(v, str) for r in m for v in r) and all(m[j][j] > 0 for j in range(n)):
                    good.append(m)
            k3 = [float(format(math.sqrt(12. / float(m[0][0])), ".3e")) for m in good]
            k1 = [float(format(math.sqrt(12. / float(m[0][0])), ".1e")) for m in good]
            if len(set(k3)) != len(k3):
                inc("sweep: picked at .3e")
            elif len(set(k1)) != len(k1):
                inc("sweep: picked at .1e")
            else:
                inc("sweep: no repeated Delta -> NaN")
            if o["codelen"] == "nan":
                inc("NaN length")
                continue
        elif o["codelen"] == "nan":
            inc("NaN length")
            continue
        calls = o["fop_calls"]
        p = o["params"][:n]
        nd = sum(1 for i in range(n) if p[i] == 0 and c["theta"][i] != 0)
        if not calls:
            inc("snap: nothing below threshold")
        elif len(calls) == 1:
            if isinstance(from_out(o["nll"]), str) or o["nll"] != jnum(tbl(c, [from_out(v) for v in p])) or calls[0].count("1") == 0:
                inc("snap: single candidate restored")
            elif all(v == 0 for v in p):
                inc("snap: all-at-once, k=0")
            else:
                inc("snap: all-at-once")
        else:
            last = calls[-1]
            if "".join("1" if v == 0 else "0" for v in p) == last and not isinstance(tbl(c, [from_out(v) for v in p]), str):
                inc("search: stopped at a finite subset of size %d" % last.count("1"))
            else:
                inc("search: nothing finite -> restore")
        if o["codelen"] == "-inf":
            inc("kept theta = 0 -> -inf length")
    return dict(sorted(st.items()))


# ------------------------------------------------------------------ linear-Gaussian families (real Hessian)
BASIS = {1: ["x"], 2: ["x", "1"], 3: ["x**2", "x", "1"]}
FCNS = {1: "a0*x", 2: "a0*x+a1", 3: "a0*x**2+a1*x+a2"}


def gauss_cases(ctx):
    rng = esrv.rng(ctx.seed, "C07-gauss")
    out = []
    for i in range(12 if ctx.quick else 60):
        n = rng.choice((1, 2, 3))
        npts = rng.randint(6, 14)
        xs = [round(rng.uniform(0.2, 3.0), 3) for _ in range(npts)]
        err = [round(rng.uniform(0.05, 2.0) * rng.choice((1, 1, 5)), 3) for _ in range(npts)]
        # parameters: some clearly kept, some clearly below the threshold (decided on the analytic Hessian)
        c = dict(n=n, maxp=rng.randint(n, 4), fcn=FCNS[n], x=xs, err=err)
        H = analytic_hessian(dict(c, y=[0.0] * npts))
        theta = []
        for j in range(n):
            thr = math.sqrt(12.0 / H[j][j])
            f = rng.choice((0.05, 0.3, 0.7, 1.5, 4.0, 30.0))
            theta.append(rng.choice((1, -1)) * thr * f)
        c["theta"] = theta
        c["y"] = [sum(theta[j] * basis_val(BASIS[n][j], xv) for j in range(n)) + rng.gauss(0, e) * 0.0 for xv, e in zip(xs, err)]
        out.append(c)
    return out


def basis_val(b, xv):
    return {"x": xv, "1": 1.0, "x**2": xv * xv}[b]


def analytic_hessian(c):
    n = c["n"]
    return [[sum(basis_val(BASIS[n][i], xv) * basis_val(BASIS[n][j], xv) / e ** 2 for xv, e in zip(c["x"], c["err"]))
             for j in range(n)] for i in range(n)]


def gauss_nll(c, th):
    n = c["n"]
    return sum(0.5 * (sum(th[j] * basis_val(BASIS[n][j], xv) for j in range(n)) - yv) ** 2 / e ** 2
               + 0.5 * math.log(2 * math.pi) + math.log(e) for xv, yv, e in zip(c["x"], c["y"], c["err"]))


# ------------------------------------------------------------------ search: the property stated directly on the outputs
def tbl(c, vec):
    key = "".join("1" if v == 0 else "0" for v in vec)
    return c["table"].get(key, c["dflt"])


def used_diag(c, o):
    """the diagonal the routine used = the one it left in deriv"""
    up = upper_from_deriv(o["deriv"], c["n"], c["maxp"])
    return [from_out(up[i][0]) for i in range(c["n"])]


def spec_check(c, o):
    """Direct statement of C07 on the implementation's outputs.  Returns None or (what, expected)."""
    n = c["n"]
    if "exc" in o:
        return "the routine raised %s" % o["exc"], "a return value"
    p = [from_out(v) for v in o["params"]]
    nll = from_out(o["nll"])
    cl = o["codelen"]
    if n == 0:
        return None if (cl == 0 and all(v == 0 for v in p)) else ("nparam=0 must give length 0", 0)
    I = used_diag(c, o)
    bad = any(isinstance(v, str) or v <= 0 for v in I)
    if cl == "nan":
        # NaN only for non-positive / non-finite curvature (first Hessian bad and no usable sweep matrix)
        if not any(isinstance(v, str) or v <= 0 for v in [c["H0"][i][i] for i in range(n)]):
            return "NaN code length although the Hessian diagonal is positive and finite", "finite length"
        return None
    if bad:
        return "finite code length %r from a non-positive or non-finite curvature %r" % (cl, [str(v) for v in I]), "nan"
    th = c["theta"]
    if any(p[i] != 0 and p[i] != th[i] for i in range(n)) or any(v != 0 for v in p[n:]):
        return "returned parameters are neither theta_i nor 0 / padding is not 0", [str(v) for v in th]
    below = [i for i in range(n) if th[i] ** 2 * I[i] < 12]
    dropped = [i for i in range(n) if p[i] == 0 and th[i] != 0]
    if any(i not in below for i in dropped):
        return "a parameter at or above the threshold was set to zero", dict(below=below, dropped=dropped)
    # reported nll is the likelihood at the reported parameters (or the unchanged input when nothing changed)
    if p[:n] != th:
        if nll != tbl(c, p[:n]):
            return "reported nll %r is not the likelihood at the reported parameters (%r)" % (str(nll), str(tbl(c, p[:n]))), str(tbl(c, p[:n]))
    elif nll != c["nll"] and nll != tbl(c, th):
        return "nothing was dropped but the nll changed", str(c["nll"])
    if isinstance(nll, str):
        return "non-finite nll reported with a finite code length", "finite"
    # all-at-once: every below-threshold parameter is dropped when that keeps the likelihood finite
    snap_all = [Fr(0) if i in below else th[i] for i in range(n)]
    if below and not isinstance(tbl(c, snap_all), str):
        if p[:n] != snap_all:
            return "snapping all below-threshold parameters keeps the likelihood finite but they were not all dropped", [str(v) for v in snap_all]
    elif below:
        # otherwise: the first subset (decreasing size, itertools.combinations order) whose snap keeps it finite, else nothing
        import itertools as _it
        want = list(th)
        for r in range(len(below) - 1, 0, -1):
            hit = next((S for S in _it.combinations(below, r)
                        if not isinstance(tbl(c, [Fr(0) if i in S else th[i] for i in range(n)]), str)), None)
            if hit is not None:
                want = [Fr(0) if i in hit else th[i] for i in range(n)]
                break
        if p[:n] != want:
            return ("the all-at-once snap is not finite; the first subset (largest first) whose snap keeps the likelihood finite "
                    "gives %r but the routine returned %r" % ([str(v) for v in want], [str(v) for v in p[:n]])), [str(v) for v in want]
    # code length = -(k/2) ln 3 + sum_kept (1/2 ln I + ln|theta|), k = kept (zero thetas: see below)
    zero_below = [i for i in below if th[i] == 0]
    cands = []
    import itertools
    for r in range(len(zero_below) + 1):
        for zk in itertools.combinations(zero_below, r):   # theta_i = 0 kept or dropped cannot be told from params
            kept = [i for i in range(n) if p[i] != 0] + list(zk)
            if zk:
                cands.append(float("-inf"))
            else:
                cands.append(-len(kept) / 2.0 * math.log(3.0) + sum(0.5 * math.log(I[i]) + math.log(abs(th[i])) for i in kept))
    clv = float(cl) if isinstance(cl, str) else cl
    if not any((clv == v) or abs(clv - v) <= 1e-9 * max(1.0, abs(v)) for v in cands if not (math.isinf(v) and not math.isinf(clv))):
        return "code length %r is not -(k/2)ln3 + sum_kept(1/2 ln I + ln|theta|) = %r" % (cl, cands), cands
    return None


def search(ctx):
    rep = ctx.report
    nf = 0
    for c, o, enc, ok in getattr(ctx, "c07", []):
        bad = spec_check(c, o)
        if c["id"] == "corpus-inner-break":
            # the repaired defect: must drop {0,1}
            want = [0.0, 0.0, 0.125, 0.0]
            if "exc" in o or o.get("params") != want or o.get("nll") != 3.0:
                rep.fail("failing-input", "fall-back subset search does not return the first (largest) subset whose snap keeps the likelihood "
                         "finite: {0,1} is finite (nll 3.0) but the routine returned %r" % (o,), KEY_DEFECT,
                         input=describe(c), observed=o, expected=dict(params=want, nll=3.0, k=1))
                continue
        if bad and nf < 3:
            nf += 1
            sub = "exception" if "exc" in o else "spec"
            rep.fail("failing-input", bad[0], "C07:%s:%s" % (sub, "sweep" if c["seq"] else "direct"),
                     input=describe(c), observed=o, expected=bad[1])
    # closed form for linear-Gaussian families with the REAL Hessian
    for c, o in getattr(ctx, "c07_gauss", []):
        if "exc" in o:
            continue
        n = c["n"]
        H = analytic_hessian(c)
        th = c["theta"]
        kept = [j for j in range(n) if th[j] ** 2 * H[j][j] >= 12]
        want_p = [th[j] if j in kept else 0.0 for j in range(n)] + [0.0] * (c["maxp"] - n)
        want_len = -len(kept) / 2.0 * math.log(3.0) + sum(0.5 * math.log(H[j][j]) + math.log(abs(th[j])) for j in kept) if kept else 0.0
        want_nll = gauss_nll(c, want_p[:n])
        rep.case(key=("gauss", c["fcn"], tuple(round(t, 6) for t in th)), nontrivial=len(kept) < n,
                 sample=dict(model=c["fcn"], theta=th, analytic_diag=[H[j][j] for j in range(n)], implementation=o,
                             closed_form=dict(params=want_p, codelen=want_len, nll=want_nll)))
        got_p = o["params"]
        okp = all(abs(a - b) <= 1e-12 * max(1, abs(b)) for a, b in zip(got_p, want_p))
        okl = not isinstance(o["codelen"], str) and abs(o["codelen"] - want_len) <= 1e-6 * max(1.0, abs(want_len))
        okn = not isinstance(o["nll"], str) and abs(o["nll"] - want_nll) <= 1e-9 * max(1.0, abs(want_nll)) \
            and abs(o["nll"] - o["nll_at_params"]) <= 1e-12 * max(1.0, abs(o["nll"]))
        if not (okp and okl and okn) and nf < 5:
            nf += 1
            rep.fail("failing-input", "linear-Gaussian model: routine output differs from the closed form "
                     "(params ok=%s, codelen ok=%s, nll ok=%s)" % (okp, okl, okn), "C07:gauss-closed-form",
                     input=c, observed=o, expected=dict(params=want_p, codelen=want_len, nll=want_nll))


LEVEL_TEXT = ("Machine-checked theorems (Coq) about an executable model of convert_params, for EVERY theta, every Hessian diagonal, every incoming nll and "
              "every likelihood function: the routine's result is characterised by one equation (dropped set D, parameters zeroed exactly on D and padded, "
              "nll = likelihood re-evaluated at exactly the returned parameters or unchanged when D is empty, k = n-|D|); the code-length structure denotes "
              "-(k/2)ln3 + sum_kept(1/2 ln I + ln|theta|) over the reals; D = all parameters with |theta|sqrt(I/12)<1 when that keeps the likelihood finite, "
              "else the first subset in the code's order (decreasing size, combinations order) that does, else nothing; k=0 gives length 0; a non-positive or "
              "NaN curvature gives NaN; an infinite one triggers the sweep and can never reach the formula. Tests can only sample (theta, I, likelihood) triples.")
LEVEL_NOTE = ("Hand-written model tied per run by correspondence with the real routine (scripted Hessian, table likelihood; exact comparison in Coq, code length "
              "to 1e-12). Not proved: numdifftools' accuracy (tested vs analytic Hessians, 1e-4), scipy.stats.mode tie-breaking and '.3e' rounding (modelled, "
              "correspondence-tested), float rounding in the final formula. Reals axioms: sig_not_dec, sig_forall_dec, functional_extensionality_dep, classic.")
TECHNIQUE = ("Coq proof over a hand-written executable model on exact rationals (list induction, find/fold invariants, Reals for the threshold equivalence "
             "and the denotation) + vm_compute correspondence against the real routine with a scripted Hessian and table-driven likelihood")
