"""C11 -- rewritten (extra) trees are well formed and equal to the tree they came from."""
import collections
import concurrent.futures
import json
import os
import re
import sys
import time

import esrv

PROPS_V = "Props/C11.v"
# functions the hand-written model of this property was written against (normalised source stored under harness/corr/guards/;
# a difference is reported as broken-correspondence: the theorems then no longer speak about the current source)
SOURCE_GUARDS = [
    ("esr/generation/generator.py", "update_tree"),
    ("esr/generation/generator.py", "update_sums"),
    ("esr/generation/generator.py", "find_additional_trees"),
]

TRANSLATORS = []
TRUSTED = [
    "Coq 8.16.1 kernel + vm_compute (no native_compute)",
    "Print Assumptions (theorems that mention R): ClassicalDedekindReals.sig_forall_dec, sig_not_dec, "
    "FunctionalExtensionality.functional_extensionality_dep (the standard library's real-number axioms); "
    "the purely combinatorial ones (well-formedness, labels, parameters, termination) are closed under the global context",
    "hand-written rule-level model coq/Model/Rewrite.v of update_tree + the first loop of find_additional_trees, on expression "
    "trees (coq/Model/Expr.v); tied to the source on every run by exact comparison (order included) of the real driver's "
    "phase-1 output and of update_tree(tree, labels, k) for EVERY site number k with the model, evaluated by vm_compute",
    "sympy.sympify / Rational.is_integer on products of 2, 3, 1/2, -1 (the chain stop rule) modelled by exact integer "
    "divisibility of numerator/denominator; str() of sympy Integers modelled as the decimal integer",
    "phase 2 (update_sums) is NOT modelled: every output is checked for well-formedness and labels, validated numerically "
    "(independent mpmath evaluator, 12 generic points) and, where the Coq-verified checker `certified` accepts it "
    "(C11_certified_sound: ring normal form over syntactic atoms by the standard library's Ring_polynom + congruence), "
    "certified equal to the original on the original's domain; certified / numeric-only counts are in the evidence",
    "harness/lib/liboracle.py (independent evaluator), harness/corr/c11_impl.py, the label encoder of this file, MPI stand-in",
]
ASSUMPTIONS = [
    "operator semantics of Model/Expr.v: pow(a,b) = |a|^b, sqrt_abs, log_abs act on absolute values; float rounding not modelled",
    "no label 'pow_abs' (update_tree's exp_ord 3 branch is dead for every basis ESR's symbol tables can parse; the harness refuses it)",
    "bases contain '+' and '*' (the property's quantifier); the model itself does not assume it",
    "update_sums: termination and correctness for all inputs are not proved (bounded by a wall-clock limit per tree, outputs validated one by one)",
]
IMPL = os.path.join(esrv.VERIF, "harness", "corr", "c11_impl.py")

SHIPPED = collections.OrderedDict([
    ("core_maths", [["x", "a"], ["inv"], ["+", "*", "-", "/", "pow"]]),
    ("ext_maths", [["x", "a"], ["inv", "sqrt_abs", "square", "exp"], ["+", "*", "-", "/", "pow"]]),
    ("keep_duplicates", [["x", "a"], ["square", "exp", "inv", "sqrt_abs", "log_abs"], ["+", "*", "-", "/", "pow"]]),
    ("osc_maths", [["x", "a"], ["inv", "sin"], ["+", "*", "-", "/", "pow"]]),
    ("base10_maths", [["x", "a"], ["tenexp", "inv", "log10_abs"], ["+", "*", "-", "/", "pow"]]),
    ("base_e_maths", [["x", "a"], ["inv", "exp", "log_abs"], ["+", "*", "-", "/", "pow"]]),
])
UNARY_POOL = ["inv", "square", "cube", "sqrt_abs", "exp", "log_abs", "sin"]
POW_OPS = ("inv", "square", "cube", "sqrt_abs")

# past findings, replayed on every run (both were repaired in /repo: 84989a6, dd5c7b6)
CORPUS = [
    ([["x", "a"], ["inv", "log_abs"], ["+", "*"]], ["+", "x", "log_abs", "inv", "a0"]),
    ([["x", "a"], ["inv", "log_abs"], ["+", "*"]], ["+", "log_abs", "inv", "a0", "x"]),
    ([["x", "a"], ["inv", "log_abs", "square"], ["+", "*", "/"]], ["+", "log_abs", "inv", "square", "a0", "x"]),
    ([["x", "a"], ["inv", "log_abs", "square"], ["+", "*"]], ["+", "x", "log_abs", "inv", "square", "a0"]),
    ([["x", "a"], ["inv", "log_abs"], ["+", "*", "-"]], ["-", "log_abs", "inv", "a0", "x"]),
    ([["x", "a"], ["inv", "log_abs", "cube", "sqrt_abs", "square", "exp"], ["+", "*", "-", "/"]],
     ["-", "log_abs", "inv", "cube", "sqrt_abs", "square", "a0", "sqrt_abs", "inv", "cube", "exp", "x"]),
]

UN = {"inv": "Inv", "square": "Square", "cube": "Cube", "sqrt_abs": "SqrtAbs", "log_abs": "LogAbs", "exp": "Exp",
      "sin": "Sin", "abs": "Abs", "tenexp": "TenExp", "log10_abs": "Log10Abs"}
BI = {"+": "Add", "-": "Sub", "*": "Mul", "/": "Div", "pow": "Pow"}
PAR = re.compile(r"a(0|[1-9][0-9]*)\Z")
INT = re.compile(r"-?(0|[1-9][0-9]*)\Z")

HEADER = """From Coq Require Import ZArith List Bool String.
From ESRV Require Import Common.Corr Model.Expr Model.Rewrite.
Import ListNotations.
Open Scope Z_scope.
Definition U (o : unop) := LU o.
Definition B (o : binop) := LB o.
Definition X := LN NX.
Definition A (i : Z) := LN (NPar (Z.to_nat i)).
Definition N (z : Z) := LN (NNum z).
Definition ll_eqb := list_eqb labels_eqb.
Definition case := (basis * list label * option (list (list label)) * list (list (list label)))%type.
Definition chk_p1 (c : case) : bool :=
  match c with (b, l, p1, ss) => opt_eqb ll_eqb (phase1_labels b l) p1 end.
Definition model_sites (b : basis) (l : list label) (n : nat) : list (list (list label)) :=
  match of_prefix l with
  | Some t => map (fun k => map to_prefix (apply_site b t k)) (seq 0 n)
  | None => []
  end.
Definition chk_sites (c : case) : bool :=
  match c with (b, l, p1, ss) => list_eqb ll_eqb (model_sites b l (List.length ss)) ss end.
Definition chk_cert (c : basis * list label * list label) : bool :=
  match c with (b, l, r) => certified b l r end.
"""


class Refuse(Exception):
    pass


def enc_label(l):
    if l == "x":
        return "X"
    if l in UN:
        return "U " + UN[l]
    if l in BI:
        return "B " + BI[l]
    if PAR.match(l):
        return "A %s" % l[1:]
    if INT.match(l) and l != "-0":
        return "N (%s)" % l
    raise Refuse("label %r is outside the model's label type" % (l,))


def enc_labels(L):
    return "[" + "; ".join(enc_label(l) for l in L) + "]"


def enc_basis(b):
    return "[" + "; ".join(BI[o] for o in b[2]) + "]"


def coq_flat(out):
    return " ".join(out.split()).replace("%string", "").replace("%nat", "").replace("%list", "").replace("%Z", "")


def shard(l, k):
    return [l[i:i + k] for i in range(0, len(l), k)]


# ------------------------------------------------------------------ inputs

def random_bases(rng, count):
    out = []
    while len(out) < count:
        un = [u for u in UNARY_POOL if rng.random() < 0.55]
        # make most of them interesting: at least one power operator and one of exp/log_abs
        if rng.random() < 0.8:
            if not set(un) & set(POW_OPS):
                un.append(rng.choice(POW_OPS))
            if not set(un) & {"exp", "log_abs"}:
                un.append(rng.choice(["exp", "log_abs"]))
        rng.shuffle(un)
        b2 = ["+", "*"] + [o for o in ("-", "/", "pow") if rng.random() < 0.5]
        rng.shuffle(b2)
        b = [["x", "a"], un, b2]
        if b not in out:
            out.append(b)
    return out


def rand_code(rng, n, pbin):
    if n == 1:
        return [0]
    if n == 2 or rng.random() > pbin:
        return [1] + rand_code(rng, n - 1, pbin)
    k = rng.randint(1, n - 2)
    return [2] + rand_code(rng, k, pbin) + rand_code(rng, n - 1 - k, pbin)


def random_tree(rng, basis, n):
    """labels of a random tree with n nodes; unary chains that mix power operators and exp/log are favoured"""
    code = rand_code(rng, n, 0.35)
    un, bi = basis[1], basis[2]
    if not un:
        code = rand_code(rng, n if n % 2 else n + 1, 1.0)
    labels = []
    npar = 0
    for a in code:
        if a == 0:
            if rng.random() < 0.5:
                labels.append("x")
            else:
                labels.append("a%d" % npar)
                npar += 1
        elif a == 1:
            labels.append(rng.choice(un))
        else:
            # + and - more often: the special cases of update_tree and the whole of update_sums live there
            w = [o for o in bi for _ in range(3 if o in "+-" else 1)]
            labels.append(rng.choice(w))
    return labels


def tree_count(b, n):
    """number of labelled trees with n nodes (2 nullary choices up to the renaming of parameters)"""
    T = {1: 2}
    for m in range(2, n + 1):
        T[m] = len(b[1]) * T[m - 1] + len(b[2]) * sum(T[k] * T[m - 1 - k] for k in range(1, m - 1))
    return T[n]


def enum_job(rng, b, n, target=None, name=None):
    cnt = tree_count(b, n)
    stride = 1 if (target is None or cnt <= target) else -(-cnt // target)
    j = {"basis": b, "enumerate": n, "stride": stride, "offset": rng.randrange(stride)}
    if name:
        j["name"] = name
    return j


# ------------------------------------------------------------------ directed family: the index arithmetic of every branch

DIRECTED_BASES = [
    # (basis, full cross product?)
    ([["x", "a"], ["inv", "square", "sqrt_abs", "log_abs", "exp", "sin"], ["+", "*", "-", "/"]], True),
    ([["x", "a"], ["inv", "square", "sqrt_abs", "log_abs", "exp", "sin"], ["+", "*", "/"]], False),      # no '-'
    ([["x", "a"], ["inv", "square", "sqrt_abs", "log_abs", "exp", "sin"], ["+", "*", "-"]], False),      # no '/'
    ([["x", "a"], ["inv", "cube", "log_abs", "exp", "sin"], ["+", "*"]], False),                         # neither, cube, no sqrt_abs
]


def _flat(t):
    out = [t[0]]
    for c in t[1:]:
        out += _flat(c)
    return out


def _name_leaves(labels):
    """'X' -> x ; 'P' -> a0, a1, ... in order of appearance (as shape_to_functions numbers parameters)"""
    out, k = [], 0
    for l in labels:
        if l == "X":
            out.append("x")
        elif l == "P":
            out.append("a%d" % k)
            k += 1
        else:
            out.append(l)
    return out


def directed_trees(basis, full, deep=False):
    """Every rewrite-site kind (log_abs with a chain of 1-2 power operators below it, exp with such a chain above it), bare and as
    left / right argument of + and - (and of * and / as controls) with sibling subtrees of 1, 2 and 3 nodes, embedded in outer
    contexts: none, a unary operator on top, left / right argument of a binary operator with a 1- or 2-node sibling, two levels.
    All leaves other than the site's own argument are distinct parameters, so a dropped, duplicated or misplaced node changes
    the function."""
    un, bi = basis[1], basis[2]
    pw = [o for o in POW_OPS if o in un]
    chains = [[p] for p in pw] + [[p, q] for p in pw for q in pw]
    if not (full and deep):
        keep = {("inv", "sqrt_abs"), ("sqrt_abs", "inv"), ("inv", "square"), ("square", "inv"), ("square", "sqrt_abs"),
                ("inv", "inv"), ("inv", "cube"), ("cube", "inv"), ("cube", "cube")}
        chains = [c for c in chains if len(c) == 1 or tuple(c) in keep]
    leaf = ("P",)
    args = [("X",), ("*", ("X",), ("P",))]
    sites = []
    for ch in chains:
        for a in (args if (deep or len(ch) == 1) else args[:1]):
            if "log_abs" in un:          # log_abs(p1(p2(arg)))
                t = a
                for p in reversed(ch):
                    t = (p, t)
                sites.append(("log_abs", t))
            if "exp" in un:              # p2(p1(exp(arg)))
                t = ("exp", a)
                for p in ch:
                    t = (p, t)
                sites.append(t)
    sibs = [leaf, ("sin", leaf), ("*", leaf, leaf)]
    placed = []
    for st in sites:
        placed.append(st)
        for op in bi:
            if op in ("+", "-"):
                ss = sibs
            elif full:
                ss = sibs[:1]
            else:
                continue
            for sb in ss:
                placed.append((op, st, sb))
                placed.append((op, sb, st))
    two = ("sin", leaf)
    ctxs = [lambda t: t,
            lambda t: ("*", t, leaf),                       # something follows the subtree: every "rest of the tree" slice
            lambda t: ("+", leaf, t)]                        # something precedes it, under a + (nested sums)
    if full:
        ctxs += [lambda t: ("sin", t), lambda t: ("inv", t),
                 lambda t: ("*", t, two), lambda t: ("+", t, leaf), lambda t: ("-", t, leaf),
                 lambda t: ("*", leaf, t), lambda t: ("*", two, t), lambda t: ("-", leaf, t),
                 lambda t: ("inv", ("exp", t)),              # an exp site above the sum: later passes add trailing constants
                 lambda t: ("sin", ("*", t, leaf)), lambda t: ("*", ("+", leaf, t), leaf), lambda t: ("*", leaf, ("-", t, leaf))]
    ctxs = [c for c in ctxs if all(l in un or l in bi or l in ("X", "P") for l in _flat(c(("X",))))]
    seen, out = set(), []
    for t in placed:
        for c in ctxs:
            L = tuple(_name_leaves(_flat(c(t))))
            if L not in seen:
                seen.add(L)
                out.append(list(L))
    return out


LONG_CHAIN_BASES = [
    [["x", "a"], ["inv", "square", "cube", "log_abs", "exp"], ["+", "*", "-"]],
    [["x", "a"], ["inv", "square", "cube", "log_abs", "exp"], ["+", "*"]],
]


def long_chain_trees(basis):
    """power chains whose combined exponent has two or more digits (12, 16, 18, 27, their negatives), under log_abs / over exp, bare and as
    left / right argument of + and -: the multiplier that the rewrite pulls out is a multi-digit integer"""
    un, bi = basis[1], basis[2]
    chains = [["square", "square", "cube"], ["square", "cube", "cube"], ["square", "square", "square", "square"], ["cube", "cube", "cube"],
              ["inv", "square", "square", "cube"], ["inv", "cube", "cube", "square"], ["square", "inv", "square", "cube"], ["cube", "square", "square"]]
    chains = [c for c in chains if all(p in un for p in c)]
    leaf = ("P",)
    sites = []
    for ch in chains:
        if "log_abs" in un:
            t = ("X",)
            for p in reversed(ch):
                t = (p, t)
            sites.append(("log_abs", t))
        if "exp" in un:
            t = ("exp", ("X",))
            for p in ch:
                t = (p, t)
            sites.append(t)
    placed = []
    for st in sites:
        placed.append(st)
        for op in bi:
            if op in ("+", "-"):
                placed += [(op, st, leaf), (op, leaf, st)]
    seen, out = set(), []
    for t in placed:
        for c in (lambda t: t, lambda t: ("*", t, leaf)):
            L = tuple(_name_leaves(_flat(c(t))))
            if L not in seen:
                seen.add(L)
                out.append(list(L))
    return out


def jobs_for(ctx):
    rng = esrv.rng(ctx.seed, "C11/inputs")
    quick = ctx.quick
    rb = random_bases(rng, 30 if quick else 40)
    jobs = [{"basis": None, "corpus": True}]
    for b, fullx in DIRECTED_BASES:
        trees = directed_trees(b, fullx, deep=not quick)
        for part in shard(trees, 800):      # several jobs so that the driver processes share them
            jobs.append({"basis": b, "trees": part, "directed": True})
    for b in LONG_CHAIN_BASES:
        jobs.append({"basis": b, "trees": long_chain_trees(b), "directed": True})
    nship = 5 if quick else 6
    for name, b in SHIPPED.items():
        for n in range(1, nship + 1):
            jobs.append(enum_job(rng, b, n, None, name))
    # one complexity further for the shipped bases that can rewrite at all, strided
    for name in ("keep_duplicates", "ext_maths", "base_e_maths"):
        jobs.append(enum_job(rng, SHIPPED[name], nship + 1, 1500 if quick else 6000, name))
    for b in rb:
        for n in range(1, 5):
            jobs.append(enum_job(rng, b, n))
        jobs.append(enum_job(rng, b, 5, 300 if quick else None))
        if not quick:
            jobs.append(enum_job(rng, b, 6, 3000))
    # sampled trees at n = 7, 8 (and 9..12 in the thorough tier)
    sizes = [(7, 500), (8, 500)] if quick else [(7, 8000), (8, 8000), (9, 3000), (10, 2000), (12, 1000), (15, 300)]
    allb = list(SHIPPED.values()) + rb
    for n, cnt in sizes:
        per = collections.defaultdict(list)
        for _ in range(cnt):
            bi = rng.randrange(len(allb))
            if not allb[bi][1]:
                continue
            per[bi].append(random_tree(rng, allb[bi], n))
        for bi, trees in sorted(per.items()):
            jobs.append({"basis": allb[bi], "trees": trees})
    return jobs, rb


def run_impl(ctx, jobs, full=True, workers=8):
    """Split the jobs over several driver processes; returns (records with their basis, counts)"""
    flat = []
    for j in jobs:
        if j.get("corpus"):
            for b, L in CORPUS:
                flat.append({"basis": b, "trees": [L]})
        else:
            flat.append({k: v for k, v in j.items() if k not in ("name", "directed")})
    # greedy balance by a crude cost estimate
    def cost(j):
        if "trees" in j:
            return len(j["trees"]) * 3
        return 1 + tree_count(j["basis"], j["enumerate"]) * (0.1 + 1.0 / j.get("stride", 1))
    bins = [[] for _ in range(workers)]
    load = [0.0] * workers
    for j in sorted(flat, key=cost, reverse=True):
        i = load.index(min(load))
        bins[i].append(j)
        load[i] += cost(j)

    def one(bin_jobs):
        if not bin_jobs:
            return {"records": [], "counts": {}}, ""
        req = {"jobs": bin_jobs, "full": full, "persite": True, "tlimit": 20, "trivial_every": 40}
        rc, out, err = esrv.run_py(ctx.scratch, IMPL, [], stdin=json.dumps(req), timeout=2400 if ctx.quick else 7200)
        if rc != 0:
            return None, err[-2000:]
        res = json.loads(out)
        for r in res["records"]:
            r["basis"] = bin_jobs[r["job"]]["basis"]
        return res, ""

    with concurrent.futures.ThreadPoolExecutor(max_workers=workers) as ex:
        results = list(ex.map(one, bins))
    records, counts, errs = [], collections.Counter(), []
    for res, err in results:
        if res is None:
            errs.append(err)
            continue
        records += res["records"]
        for k, v in res["counts"].items():
            if k == "max_t_full":
                counts[k] = max(counts[k], v)
            else:
                counts[k] += v
    return records, dict(counts), errs


# ------------------------------------------------------------------ correspondence

def coq_many(vtexts, timeout=1800, workers=6):
    with concurrent.futures.ThreadPoolExecutor(max_workers=workers) as ex:
        res = list(ex.map(lambda v: esrv.coq_run(v, timeout=timeout), vtexts))
    return [(rc, coq_flat(o)) for rc, o in res]


def failing_idx(flat, tag):
    m = re.search(r'\("%s", \[([0-9; ]*)\]\)' % tag, flat)
    if not m:
        return None
    return [int(v) for v in m.group(1).split(";") if v.strip()]


def correspondence(ctx):
    rep = ctx.report
    t0 = time.time()
    jobs, rb = jobs_for(ctx)
    ctx.c11_bases = rb
    records, counts, errs = run_impl(ctx, jobs, full=True)
    ctx.c11_records, ctx.c11_counts = records, counts
    for e in errs:
        rep.fail("broken-correspondence", "implementation driver failed", "C11:driver", observed=e, theorem="c11_impl.py")
    rep.extra["impl_counts"] = counts
    rep.extra["impl_wall_s"] = round(time.time() - t0, 1)
    cases, meta = [], []
    for r in records:
        b, L = r["basis"], r["labels"]
        p1, ss = r["p1"], r.get("sites", [])
        key = (json.dumps(b), tuple(L))
        nontriv = isinstance(p1, dict) or len(p1) > 1 or any(o != [] for o in ss)
        rep.case(key=key, nontrivial=nontriv,
                 sample={"basis": b, "labels": L, "phase1 (real driver, sum phase disabled)": p1, "update_tree per try_idx": ss} if nontriv else None)
        bad = None
        if isinstance(p1, dict):
            bad = "the real phase-1 driver raised: %s" % p1["exc"]
        for k, o in enumerate(ss):
            if isinstance(o, dict):
                bad = "update_tree(try_idx=%d) returned something that is not 0, 1 or 2 flat label lists: %r" % (k, o)
        if bad is None:
            try:
                cases.append("(%s, %s, Some [%s], [%s])" % (
                    enc_basis(b), enc_labels(L), "; ".join(enc_labels(q) for q in p1),
                    "; ".join("[" + "; ".join(enc_labels(q) for q in o) + "]" for o in ss)))
                meta.append(r)
            except Refuse as e:
                bad = "not expressible in the model: %s" % e
        if bad is not None:
            rep.fail("broken-correspondence", "model and implementation differ: %s (the model always returns trees)" % bad,
                     "C11:corr-shape", input={"basis": b, "labels": L}, observed={"p1": p1, "sites": ss},
                     theorem="Model/Rewrite.v apply_site/phase1 vs generator.update_tree/find_additional_trees")
    rep.traces += len(meta)
    shards = shard(list(zip(cases, meta)), 700)
    vts = []
    for sh in shards:
        vts.append(HEADER + "Definition cases : list case := [\n%s].\n" % ";\n".join(c for c, _ in sh) +
                   'Eval vm_compute in ("PH"%string, failing chk_p1 cases).\nEval vm_compute in ("ST"%string, failing chk_sites cases).\n')
    nrep = 0
    for sh, (rc, flat) in zip(shards, coq_many(vts)):
        f1, f2 = failing_idx(flat, "PH"), failing_idx(flat, "ST")
        if rc == 0 and f1 == [] and f2 == []:
            continue
        nrep += 1
        if nrep > 3:
            continue
        idx = sorted(set((f1 or []) + (f2 or [])))[:3]
        bad = [sh[i][1] for i in idx]
        diag = ""
        if bad:
            v = HEADER + "".join("Eval vm_compute in (phase1_labels %s %s, model_sites %s %s %d).\n" % (
                enc_basis(r["basis"]), enc_labels(r["labels"]), enc_basis(r["basis"]), enc_labels(r["labels"]), len(r.get("sites", [])))
                for r in bad)
            diag = coq_flat(esrv.coq_run(v)[1])[-1500:]
        rep.fail("broken-correspondence", "model phase1/apply_site and the real find_additional_trees (sum phase disabled)/update_tree "
                 "differ on %d case(s) of a shard" % len(set((f1 or []) + (f2 or []))) if (f1 is not None and f2 is not None)
                 else "the generated cases file did not evaluate", "C11:corr",
                 input=[{"basis": r["basis"], "labels": r["labels"]} for r in bad],
                 observed={"impl": [{"p1": r["p1"], "sites": r.get("sites")} for r in bad], "model": diag, "coq": flat[-600:]},
                 theorem="Model/Rewrite.v phase1 / apply_site")
    rep.extra["directed_trees"] = sum(len(j["trees"]) for j in jobs if j.get("directed"))
    rep.rule = ("DIRECTED family (both tiers, %d trees): every site kind (log_abs / exp with a chain of 1-2 power operators) bare and as left/right "
                "argument of + - (* / as controls) with 1-, 2-, 3-node siblings, in outer contexts none / unary / left or right argument of a binary "
                "operator with 1- or 2-node sibling / two levels, all other leaves distinct parameters, over 4 bases (with and without '-', '/', "
                "sqrt_abs, cube); then " % rep.extra["directed_trees"] +
                "every tree of the 6 shipped bases at complexity <= %s (strided sample at %s for keep_duplicates, ext_maths, base_e_maths) "
                "and of %d random sub-bases (always + and *, random subset of inv square cube sqrt_abs exp log_abs sin, random subset "
                "of - / pow) at complexity <= %s (strided sample at %s); random trees at %s biased towards +/- and unary chains; past "
                "findings replayed; trees on which neither phase does anything are counted and 1 in 40 of them compared; "
                "non-trivial = a site exists or something was rewritten"
                % ("5" if ctx.quick else "6", "6" if ctx.quick else "7", len(rb), "4" if ctx.quick else "5", "5" if ctx.quick else "6",
                   "7, 8" if ctx.quick else "7, 8, 9, 10, 12, 15"))
    rep.extra["coq_cases"] = len(cases)
    rep.extra["corr_wall_s"] = round(time.time() - t0, 1)


# ------------------------------------------------------------------ search: the property on the implementation's outputs

def params_of(L):
    return set(l for l in L if PAR.match(l))


def label_violation(L, basis, orig):
    ops = set(basis[1]) | set(basis[2])
    okpar = params_of(orig)
    for l in L:
        if l == "x" or l in ops or l in okpar or (INT.match(l) and l != "-0"):
            continue
        return l
    return None


def _moderate(t, x, th):
    """Cheap float pre-evaluation of a parsed tree; False when some intermediate value is undefined or beyond 1e12:
    towers of exp would make the multiprecision evaluator allocate unbounded integers, and sin of a huge argument has
    no correct digits left at the working precision (50 digits; comparison tolerance 1e-12)."""
    import math

    def ev(t):
        op = t[0]
        if len(t) == 1:
            if op == "x":
                return x
            if PAR.match(op):
                return th[int(op[1:])]
            return float(int(op))
        u = ev(t[1])
        if len(t) == 2:
            v = {"inv": lambda: 1.0 / u, "square": lambda: u * u, "cube": lambda: u * u * u, "sqrt_abs": lambda: math.sqrt(abs(u)),
                 "log_abs": lambda: math.log(abs(u)), "exp": lambda: math.exp(u), "sin": lambda: math.sin(u), "abs": lambda: abs(u),
                 "tenexp": lambda: 10.0 ** u, "log10_abs": lambda: math.log10(abs(u))}[op]()
        else:
            w = ev(t[2])
            v = {"+": lambda: u + w, "-": lambda: u - w, "*": lambda: u * w, "/": lambda: u / w,
                 "pow": lambda: abs(u) ** w, "pow_abs": lambda: abs(u) ** w}[op]()
        if not (abs(v) < 1e12):
            raise OverflowError
        return v
    try:
        ev(t)
        return True
    except (OverflowError, ZeroDivisionError, ValueError, KeyError, IndexError):
        return False


def _numeric_chunk(arg):
    """(seed, chunk number, [(task id, original labels, rewritten labels)]) -> [(task id, 'ok'|'diff'|'undecided', detail)]
    Independent evaluator (liboracle, mpmath at 50 digits) at 12 generic points (60 more if fewer than 2 are usable)."""
    seed, cno, tasks = arg
    sys.path.insert(0, os.path.join(esrv.VERIF, "harness", "lib"))
    import liboracle as lo
    lo.mp.mp.dps = 50
    rng = esrv.rng(seed, "C11/points/%d" % cno)

    def guarded(L):
        t, _ = lo.parse_tree(L, 0)

        def f(x, th):
            if not _moderate(t, float(x), [float(v) for v in th]):
                raise lo.Undefined("not moderate")
            try:
                return lo.eval_labels(L, x, th)
            except MemoryError:
                raise lo.Undefined("memory")
        return f
    out = []
    for tid, L0, L in tasks:
        npar = max([int(l[1:]) + 1 for l in L0 + L if PAR.match(l)] + [1])
        fa, fb = guarded(L0), guarded(L)
        res, det = lo.same_function(fa, fb, lo.gen_points(rng, npar, 12))
        if res == "undecided":
            res, det = lo.same_function(fa, fb, lo.gen_points(rng, npar, 60))
        out.append((tid, res, det))
    return out


def search(ctx):
    sys.path.insert(0, os.path.join(esrv.VERIF, "harness", "lib"))
    import liboracle as lo
    rep = ctx.report
    records = getattr(ctx, "c11_records", None)
    if records is None:
        jobs, rb = jobs_for(ctx)
        records, counts, errs = run_impl(ctx, jobs, full=True)
    # numeric comparison original vs EVERY rewritten tree, spread over processes
    tasks = []
    for ri, r in enumerate(records):
        if isinstance(r.get("full"), list):
            for li, L in enumerate(r["full"][1:]):
                if lo.wellformed(L):
                    tasks.append(((ri, li), r["labels"], L))
    chunks = [(ctx.seed, i, ch) for i, ch in enumerate(shard(tasks, 400))]
    numeric = {}
    with concurrent.futures.ProcessPoolExecutor(max_workers=10) as ex:
        for part in ex.map(_numeric_chunk, chunks):
            for tid, res, det in part:
                numeric[tuple(tid)] = (res, det)
    stats = collections.Counter()
    seen_keys = set()
    phase2 = []

    def fail(key, what, r, **kw):
        stats["violations"] += 1
        if (key, what[:60]) in seen_keys and stats["violations"] > 12:
            return
        seen_keys.add((key, what[:60]))
        rep.fail("failing-input", what, key, input={"basis": r["basis"], "labels": r["labels"]}, **kw)

    for ri, r in enumerate(records):
        b, L0 = r["basis"], r["labels"]
        full, p1 = r.get("full"), r["p1"]
        stats["trees"] += 1
        for name, out in (("phase 1", p1), ("full driver", full)):
            if isinstance(out, dict):
                exc = out["exc"]
                if exc.startswith("Timeout"):
                    fail("C11:termination", "find_additional_trees (%s) did not finish within 20 s" % name, r, observed=exc,
                         expected="rewriting terminates")
                elif "unhashable type: 'list'" in exc:
                    fail("C11:two-cases:nested-list-without-minus", "find_additional_trees crashes: %s" % exc, r, observed=exc,
                         expected="a list of label lists")
                else:
                    fail("C11:driver-exception", "find_additional_trees (%s) raised: %s" % (name, exc), r, observed=exc,
                         expected="a list of label lists")
        if not isinstance(full, list):
            continue
        if full[0] != L0:
            fail("C11:first-is-original", "the first returned tree is not the original", r, observed=full[0], expected=L0)
        p1set = set(tuple(q) for q in p1) if isinstance(p1, list) else set()
        for li, L in enumerate(full[1:]):
            stats["rewritten"] += 1
            phase = 1 if tuple(L) in p1set else 2
            stats["phase%d" % phase] += 1
            if not lo.wellformed(L):
                fail("C11:malformed-tree", "phase %d produced a label list that is not a prefix tree" % phase, r, observed=L,
                     expected="a well-formed prefix tree")
                continue
            bad = label_violation(L, b, L0)
            if bad is not None:
                fail("C11:sum-phase:operator-outside-basis" if phase == 2 else "C11:phase1:label-outside-basis",
                     "phase %d produced a tree with label %r, which is neither a basis operator, x, a parameter of the original "
                     "nor an integer" % (phase, bad), r, observed=L, expected="labels from the basis, x, the original's parameters, integers")
            if phase == 1 and params_of(L) != params_of(L0):
                fail("C11:parameters", "phase 1 changed the set of parameters", r, observed=L, expected=sorted(params_of(L0)))
            res, det = numeric[(ri, li)]
            if res == "diff":
                fail("C11:different-function:phase%d" % phase, "phase %d produced a tree that evaluates differently from its original" % phase,
                     r, observed={"rewritten": L, "point": det}, expected="equal values wherever both are defined")
            elif res == "undecided":
                stats["undecided"] += 1
            else:
                stats["numerically_equal"] += 1
            if phase == 2:
                phase2.append((r, L, res))
        if r.get("printed"):
            stats["not_kept_messages"] += len(r["printed"])
    # ---- phase-2 outputs: per-instance certificates from the Coq-verified checker (C11_certified_sound)
    cert_cases, cert_meta = [], []
    for r, L, numeric in phase2:
        try:
            cert_cases.append("(%s, %s, %s)" % (enc_basis(r["basis"]), enc_labels(r["labels"]), enc_labels(L)))
            cert_meta.append((r, L, numeric))
        except Refuse:
            stats["phase2_not_expressible"] += 1
    shards = shard(list(zip(cert_cases, cert_meta)), 1500)
    vts = [HEADER + "Definition cases : list (basis * list label * list label) := [\n%s].\n" % ";\n".join(c for c, _ in sh) +
           'Eval vm_compute in ("CE"%string, failing chk_cert cases).\n' for sh in shards]
    uncertified = []
    for sh, (rc, flat) in zip(shards, coq_many(vts)):
        idx = failing_idx(flat, "CE")
        if rc != 0 or idx is None:
            rep.fail("broken-correspondence", "the certificate file for the sum phase did not evaluate", "C11:cert-eval",
                     observed=flat[-600:], theorem="Model/Rewrite.v certified")
            continue
        bad = set(idx)
        for i, (_, (r, L, numeric)) in enumerate(sh):
            if i in bad:
                stats["phase2_numeric_only"] += 1
                if len(uncertified) < 5:
                    uncertified.append({"basis": r["basis"], "labels": r["labels"], "rewritten": L, "numeric": numeric})
            else:
                stats["phase2_certified"] += 1
                if numeric == "diff":
                    rep.fail("broken-correspondence", "the verified checker certifies a sum rewrite that the independent evaluator finds different "
                             "(operator semantics of Model/Expr.v and liboracle disagree?)", "C11:cert-vs-numeric",
                             input={"basis": r["basis"], "labels": r["labels"]}, observed=L, theorem="C11_certified_sound")
    rep.extra["phase2_uncertified_samples"] = uncertified
    rep.extra["search_stats"] = dict(stats)
    rep.extra["max_wall_per_tree_s"] = getattr(ctx, "c11_counts", {}).get("max_t_full")


LEVEL_TEXT = ("Machine-checked theorems (Coq, over the standard library's real numbers) for a rule-level model of the power/exp/log "
              "rewriting (update_tree and the first loop of find_additional_trees): for EVERY tree, basis and site, every produced tree is a "
              "well-formed prefix tree whose labels are labels of the original, integers or basis operators, has the same parameters, has the "
              "same domain of definition and the same value as the original at every (x, parameters), and the driver terminates within an "
              "explicit bound (nle*npow+1 passes). The model is compared with the real code (order included) on every explored tree and every "
              "site number on each run. Outputs of the sum-collection phase are certified one by one by a Coq-verified equality checker "
              "(ring normal form + congruence) wherever it applies, and validated numerically. The 117 pinned tests never call this code.")
LEVEL_NOTE = ("Trusted: Coq kernel/vm_compute; the Reals axioms (sig_forall_dec, sig_not_dec, functional_extensionality_dep, classic); the hand-written "
              "model (tie = exact correspondence, not a translator); sympy Rational arithmetic modelled by integer divisibility. NOT proved: update_sums "
              "(phase 2) for all inputs -- its outputs are certified/validated per instance on the explored inputs only; termination of phase 2 only by "
              "a wall-clock bound; float rounding.")
TECHNIQUE = ("Coq proof (contexts/zipper congruence, real-analysis identities for ln|.| and exp under power chains, potential-function termination "
             "bound) over a hand model + exact correspondence with the real driver by vm_compute; reflexive certificates (Ring_polynom) for sum "
             "rewrites; independent mpmath evaluator for the search")
