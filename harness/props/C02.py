"""C02 -- every library function string denotes the tree on the same line."""
import json
import os
import shutil
import sys

import esrv

PROPS_V = "Props/C02.v"
TRANSLATORS = ["symtab", "nodestr", "ctree"]
GEN = os.path.join(esrv.VERIF, "harness", "corr", "gen_run.py")
IMPL = os.path.join(esrv.VERIF, "harness", "corr", "c02_impl.py")
TRUSTED = [
    "Coq 8.16.1 kernel + vm_compute",
    "Print Assumptions: node_to_string theorems closed; symbol-table theorems use the standard-library real-number axioms "
    "(ClassicalDedekindReals.sig_not_dec, sig_forall_dec, FunctionalExtensionality.functional_extensionality_dep, Classical_Prop.classic)",
    "translator harness/translate/symtab.py (sympy_symbols.py Lambdas and Likelihood.run_sympify locals -> Gen/GenSymtab.v) and the real-valued reading of sympy constructors in Model/SymSem.v",
    "translator harness/translate/nodestr.py: generator.node_to_string is regenerated into Gen/GenNodeStr.v (fuelled recursion over the node arrays of check_tree) "
    "and proved, for every shape, offset and label list, to return the structural rendering of Model/NodeStr.v (C02_code_node_to_string; chained with check_tree in "
    "C02_code_check_tree_then_node_to_string)",
    "hand-written Model/NodeStr.v, additionally tied by comparing its string with the real node_to_string on every explored tree",
    "hop (b) sympy parsing/auto-evaluation and hop (c) the printer (C12) are validated per line numerically, not proved here",
]
ASSUMPTIONS = [
    "sympy.sympify / automatic evaluation preserves the function (oracle; validated per line at generic points)",
    "lambdify/numpy evaluation of the stored string (float arithmetic, tolerance 1e-8 relative)",
    "exp and sin are read by sympy in the standard way",
]
LEVEL_TEXT = ("Coq theorems for the ESR-owned hops of the chain tree -> string -> sympy -> string -> fitting parser: node_to_string's output determines the tree "
              "(verified reader, all trees); both symbol tables, regenerated from source every run, give every operator name ESR's documented real-valued meaning, cover the names "
              "the bases and the printer use, and agree with each other; a tree read with the generation table has ESR's semantics at every point. The sympy hop is an oracle: "
              "every explored library line is evaluated through the real generation-stage and fitting-stage readers against an independent tree evaluator.")
LEVEL_NOTE = ("Partial: sympy's parser/auto-evaluation (hop b) and the printer round trip (hop c, property C12) are not proved here; they are validated per line (all lines of the explored libraries) "
              "at 6 generic points with both real symbol tables. Reals axioms from the Coq standard library.")
TECHNIQUE = "Coq proof (verified reader for node_to_string; translator-generated symbol tables proved sound) + per-line evaluation of real libraries through both real parsers vs independent tree evaluator"

SHIPPED = {
    "keep_duplicates": [["x", "a"], ["square", "exp", "inv", "sqrt_abs", "log_abs"], ["+", "*", "-", "/", "pow"]],
    "core_maths": [["x", "a"], ["inv"], ["+", "*", "-", "/", "pow"]],
    "ext_maths": [["x", "a"], ["inv", "sqrt_abs", "square", "exp"], ["+", "*", "-", "/", "pow"]],
    "osc_maths": [["x", "a"], ["inv", "sin"], ["+", "*", "-", "/", "pow"]],
    "base10_maths": [["x", "a"], ["tenexp", "inv", "log10_abs"], ["+", "*", "-", "/", "pow"]],
    "base_e_maths": [["x", "a"], ["inv", "exp", "log_abs"], ["+", "*", "-", "/", "pow"]],
}
SUB = {
    "verif_powroot": [["x", "a"], ["inv", "sqrt_abs"], ["/", "pow"]],
    "verif_cube": [["x", "a"], ["cube", "inv", "log_abs"], ["+", "*", "-"]],
    "verif_nominus": [["x", "a"], ["inv", "log_abs", "square"], ["+", "*", "/"]],
    # directed: quotients of powers whose exponent is a scaled parameter (x/pow(square(x),a0) = x*x**(-2*a0): the printer's
    # denominator handling), and a unary-only basis with a long operator name (a tree line longer than 80 characters at n = 7:
    # every per-function file must still have one line per function)
    "verif_sqpow": [["x", "a"], ["square"], ["/", "pow"]],
    "verif_longlabel": [["x", "a"], ["log10_abs"], []],
    # directed: rational coefficients with numerator and denominator both different from 1 (pow(x**(3/2), a0) = pow(x,(3*a0/2)):
    # the printer's split of a coefficient p/q into numerator and denominator)
    "verif_ratcoef": [["x", "a"], ["sqrt_abs", "cube"], ["*", "pow"]],
    "verif_ratcoef2": [["x", "a"], ["sqrt_abs", "exp"], ["*", "pow"]],
}


REGENERATED = {("core_maths", 4), ("verif_cube", 4)}

FOUR_PARAM_LINES = [
    (["+", "a0", "*", "a1", "-", "a2", "a3"], "a0 + a1*(a2 - a3)"),
    (["+", "*", "a0", "x", "+", "a1", "*", "a2", "pow", "x", "a3"], "a0*x + a1 + a2*pow(x,a3)"),
    (["*", "a3", "+", "x", "*", "a2", "+", "a1", "a0"], "a3*(x + a2*(a1 + a0))"),
    (["-", "/", "a0", "a3", "*", "a1", "inv", "a2"], "a0/a3 - a1/a2"),
]


# strings of the form the library files hold for trees in which exp(log_abs(.)), sqrt_abs(square(.)) or square(sqrt_abs(.)) collapse to
# an absolute value inside a function that itself acts on absolute values: the inner Abs is part of the function (|a0| + 1/x is not
# |a0 + 1/x| for a0 < 0), so neither reader may drop it.  Generated libraries reach these at complexity 6-7 only.
NESTED_ABS_LINES = [
    (["log_abs", "+", "inv", "x", "exp", "log_abs", "a0"], "log(Abs(a0) + 1/x)"),
    (["log_abs", "+", "exp", "log_abs", "a0", "inv", "x"], "log(Abs(a0) + 1/x)"),
    (["sqrt_abs", "+", "x", "sqrt_abs", "square", "a0"], "sqrt(Abs(a0) + x)"),
    (["sqrt_abs", "-", "x", "square", "sqrt_abs", "a0"], "sqrt(Abs(x - Abs(a0)))"),
    (["pow", "-", "sqrt_abs", "square", "a0", "x", "a1"], "pow(Abs(Abs(a0) - x),a1)"),
    (["pow", "+", "exp", "log_abs", "a0", "x", "a1"], "pow(Abs(a0) + x,a1)"),
    (["log_abs", "-", "sqrt_abs", "square", "a0", "inv", "x"], "log(Abs(Abs(a0) - 1/x))"),
    (["sqrt_abs", "+", "a1", "sqrt_abs", "square", "a0"], "sqrt(Abs(a1 + Abs(a0)))"),
    (["log_abs", "*", "a0", "x"], "log(Abs(a0*x))"),
    (["sqrt_abs", "+", "a0", "x"], "sqrt(Abs(a0 + x))"),
]
SYNTHETIC = {"synthetic_4param": ("core_maths", FOUR_PARAM_LINES), "synthetic_nested_abs": ("keep_duplicates", NESTED_ABS_LINES)}


def coq_str(s):
    return '"' + s.replace('"', '""') + '"'


def lt_of(labels, shape):
    """Coq literal of the labelled tree with prefix labels/arity code"""
    pos = [0]

    def go():
        i = pos[0]
        pos[0] += 1
        if shape[i] == 0:
            return "(T0 %s)" % coq_str(labels[i])
        if shape[i] == 1:
            return "(T1 %s %s)" % (coq_str(labels[i]), go())
        a = go()
        b = go()
        return "(T2 %s %s %s)" % (coq_str(labels[i]), a, b)
    t = go()
    assert pos[0] == len(labels)
    return t


def libs(ctx):
    if ctx.quick:
        return [("core_maths", 4, 400), ("keep_duplicates", 3, 400), ("ext_maths", 3, 300), ("osc_maths", 3, 200),
                ("base10_maths", 3, 200), ("base_e_maths", 4, 300), ("verif_cube", 4, 300), ("verif_nominus", 4, 300), ("verif_powroot", 5, 400),
                ("verif_sqpow", 6, 700), ("verif_longlabel", 7, 50), ("verif_ratcoef", 5, 300)]
    out = [(b, n, 4000) for b in SHIPPED for n in (1, 2, 3, 4)] + [("core_maths", 5, 4000), ("core_maths", 6, 1500),
            ("keep_duplicates", 5, 2500), ("ext_maths", 5, 2500), ("base_e_maths", 5, 2000)]
    out += [(b, n, 3000) for b in SUB for n in (3, 4, 5) if b not in ("verif_longlabel", "verif_ratcoef2")]
    out += [("verif_ratcoef2", 6, 3000), ("verif_sqpow", 6, 3000), ("verif_longlabel", 7, 50), ("verif_longlabel", 8, 50)]
    return out


def correspondence(ctx):
    rep = ctx.report
    ctx.lines = []
    work = esrv.mkscratch("c02")
    dst = os.path.join(work, "repo")
    shutil.copytree(ctx.scratch, dst, ignore=shutil.ignore_patterns("function_library", "__pycache__"))
    cases = []
    dist = {}
    for runname, n, maxlines in libs(ctx) + [(k, 7, 100) for k in SYNTHETIC]:
        if runname in SYNTHETIC:
            # hand-written lines with four distinct parameters (generated libraries reach them only at complexity 7): both readers
            # must bind every parameter name to its own symbol
            basis = SHIPPED[SYNTHETIC[runname][0]]
            synth = SYNTHETIC[runname][1]
            libdir = os.path.join(dst, "esr", "function_library", runname, "compl_%d" % n)
            os.makedirs(libdir, exist_ok=True)
            with open(os.path.join(libdir, "trees_%d.txt" % n), "w") as f:
                f.write("".join(repr(t) + "\n" for t, _ in synth))
            with open(os.path.join(libdir, "all_equations_%d.txt" % n), "w") as f:
                f.write("".join(e + "\n" for _, e in synth))
            rc, out, err = 0, "", ""
        else:
            basis = SHIPPED.get(runname) or SUB[runname]
            extra = {"ESR_VERIF_BASIS": json.dumps(basis)} if runname.startswith("verif_") else None
            rc, out, err = esrv.run_py(dst, GEN, [runname, str(n)], extra=extra, timeout=3000)
        if rc == 0 and (runname, n) in REGENERATED:
            # a library regenerated in place (the usual way of re-running ESR) must still be line-aligned
            rc, out, err = esrv.run_py(dst, GEN, [runname, str(n)], extra=extra, timeout=3000)
        if rc != 0:
            rep.fail("failing-input", "generation fails for %s n=%d: %s" % (runname, n, err.strip().splitlines()[-1:]),
                     "C02:generation-crash", input={"basis": runname, "n": n}, observed=err[-800:])
            continue
        libdir = os.path.join(dst, "esr", "function_library", runname, "compl_%d" % n)
        rc, out, err = esrv.run_py(dst, IMPL, [libdir, str(n), json.dumps(basis), str(maxlines), str(ctx.seed)], timeout=3000)
        if rc != 0:
            rep.fail("broken-correspondence", "c02 driver failed on %s n=%d" % (runname, n), "C02:driver", observed=err[-1500:], theorem="C02 tie")
            continue
        d = json.loads(out)
        if d.get("nstrings") != d["nlines"]:
            rep.fail("failing-input", "trees_%d.txt has %d lines but all_equations_%d.txt has %s (%s%s): strings are not on the line of their tree" % (
                n, d["nlines"], n, d.get("nstrings"), runname, ", regenerated in place" if (runname, n) in REGENERATED else ""),
                "C02:line-count", input={"basis": runname, "n": n, "regenerated_in_place": (runname, n) in REGENERATED})
        dist["%s/%d" % (runname, n)] = {"lines": d["nlines"], "explored": len(d["lines"])}
        for rec in d["lines"]:
            rec["lib"], rec["n"], rec["points"] = runname, n, d["points"]
            ctx.lines.append(rec)
            rep.case(key=(runname, n, rec["i"]), nontrivial=len(rec["labels"]) > 1,
                     sample={"basis": runname, "n": n, "labels": rec["labels"], "node_to_string": rec["nts"], "stored": rec["string"]})
            if rec["nts"].startswith("EXC:") or "shape" not in rec:
                rep.fail("failing-input", "node_to_string/labels_to_shape raises on a library tree: %s" % rec["nts"], "C02:nts-crash",
                         input={"basis": runname, "n": n, "labels": rec["labels"]})
                continue
            cases.append("(%s, %s)" % (lt_of(rec["labels"], rec["shape"]), coq_str(rec["nts"])))
    shutil.rmtree(work, ignore_errors=True)
    rep.extra["distribution"] = dist
    # model vs real node_to_string, sharded
    bad = 0
    for k in range(0, len(cases), 800):
        chunk = cases[k:k + 800]
        v = ("From Coq Require Import String List.\nFrom ESRV Require Import Common.Corr Model.NodeStr.\nImport ListNotations.\nOpen Scope string_scope.\n"
             "Definition cases : list (lt * string) := [%s].\n"
             "Eval vm_compute in (\"NTS\", failing (fun c => String.eqb (node_to_string (fst c)) (snd c)) cases).\n" % ";\n".join(chunk))
        rc, out = esrv.coq_run(v)
        flat = " ".join(out.split()).replace("%string", "")
        rep.traces += len(chunk)
        if not (rc == 0 and '("NTS", [])' in flat):
            bad += 1
            rep.fail("broken-correspondence", "Model/NodeStr.v and the real node_to_string differ", "C02:nts-corr",
                     observed=flat[-800:], theorem="C02_node_to_string_readable/injective (Model/NodeStr.v)")
            break
    rep.rule = ("every (sampled above a cap) line of real generated libraries: model string vs real node_to_string; stored string evaluated through the real generation-stage and "
                "fitting-stage readers vs independent tree evaluator at 6 generic points; non-trivial = tree with more than one node")


def corr_generated_nts(ctx):
    """the function generated from generator.node_to_string (Gen/GenNodeStr.v) against the real one on raw node arrays: arrays of
    real shapes, and corrupted ones (dangling / None / out-of-range child indices, wrong types, short label lists) on which the
    real code raises -- the generated code must then return None; cyclic arrays (RecursionError) are skipped (fuel)"""
    rep = ctx.report
    rng = esrv.rng(ctx.seed, "C02/nts-arrays")
    names = ["x", "a0", "a1", "inv", "exp", "sqrt_abs", "+", "*", "-", "/", "pow"]

    def rand_shape(n):
        # random prefix code of a unary-binary tree with n nodes
        while True:
            s, need = [], 1
            for k in range(n):
                rest = n - k - 1
                opts = [a for a in (0, 1, 2) if 0 <= need - 1 + a <= rest and (need - 1 + a > 0 or rest == 0)]
                if not opts:
                    break
                a = rng.choice(opts)
                s.append(a)
                need += a - 1
            if len(s) == n and need == 0:
                return s

    def arrays(s):
        nodes = [[t, None, None] for t in s]
        stack = []
        for i, t in enumerate(s):
            if stack:
                p = stack[-1]
                if nodes[p][1] is None:
                    nodes[p][1] = i
                else:
                    nodes[p][2] = i
                if (s[p] == 1) or (s[p] == 2 and nodes[p][2] is not None):
                    stack.pop()
                    while stack and ((s[stack[-1]] == 1 and nodes[stack[-1]][1] is not None) or
                                     (s[stack[-1]] == 2 and nodes[stack[-1]][2] is not None)):
                        stack.pop()
            if t > 0:
                stack.append(i)
        return nodes
    cases = [{"idx": 0, "nodes": [], "labels": []}, {"idx": None, "nodes": [], "labels": []}]
    for _ in range(150 if ctx.quick else 1500):
        n = rng.randint(1, 7)
        s = rand_shape(n)
        nodes = arrays(s)
        labels = [rng.choice(names) for _ in range(n)]
        idx = 0
        r = rng.random()
        if r < 0.45:
            pass
        elif r < 0.6 and n > 1:
            k = rng.randrange(n)
            nodes[k][rng.choice([1, 2])] = rng.choice([None, n + 3, k + 1 if k + 1 < n else None])
        elif r < 0.7:
            labels = labels[:rng.randrange(n)]
        elif r < 0.8:
            nodes[rng.randrange(n)][0] = rng.choice([0, 1, 2, 3])
        elif r < 0.9:
            idx = rng.choice([None, n, rng.randrange(n)])
        else:
            nodes = nodes[:rng.randrange(n)] or nodes
        cases.append({"idx": idx, "nodes": nodes, "labels": labels})
    rc, out, err = esrv.run_py(ctx.scratch, IMPL, ["nts_arrays"], stdin=json.dumps(cases), timeout=600)
    if rc != 0:
        rep.fail("broken-correspondence", "node_to_string array driver failed", "C02:nts-arrays-driver", observed=err[-1200:], theorem="C02_code_node_to_string tie")
        return
    ans = json.loads(out)

    def on(v):
        return "None" if v is None else "(Some %d)" % v
    terms = []
    kept = []
    for c, a in zip(cases, ans):
        if a[0] == "loop" or any(isinstance(v, int) and v < 0 for nd in c["nodes"] for v in nd[1:] if v is not None):
            continue
        want = {"str": "Some (Some %s)" % coq_str(a[1]) if a[0] == "str" else None, "none": "Some None", "raise": "None"}[a[0]]
        nodes = "[" + "; ".join("mkNode %d None %s %s" % (nd[0], on(nd[1]), on(nd[2])) for nd in c["nodes"]) + "]"
        terms.append("oeq (GenNodeStr.node_to_string 40 %s %s [%s]) (%s)" % (on(c["idx"]), nodes, "; ".join(coq_str(l) for l in c["labels"]), want))
        kept.append((c, a))
    v = ("From Coq Require Import String List.\nFrom ESRV Require Import Common.Corr Model.Shapes.\nFrom ESRV Require Gen.GenNodeStr.\nImport ListNotations.\nOpen Scope string_scope.\n"
         "Definition oeq (a b : option (option string)) : bool := match a, b with None, None => true | Some None, Some None => true "
         "| Some (Some x), Some (Some y) => String.eqb x y | _, _ => false end.\n"
         "Definition cases : list bool := [%s].\nEval vm_compute in (\"NTSA\", failing (fun b => b) cases).\n" % ";\n".join(terms))
    rc, o = esrv.coq_run(v, name="C02nts")
    flat = " ".join(o.split()).replace("%string", "")
    for c, a in kept:
        rep.case(key=("nts-array", json.dumps(c)[:120]), nontrivial=len(c["nodes"]) > 1)
    rep.traces += len(kept)
    if rc != 0 or '("NTSA", [])' not in flat:
        bad = flat.split('("NTSA",', 1)[1][:200] if '("NTSA",' in flat else flat[-400:]
        first = None
        try:
            k = int(bad.split("[", 1)[1].split("]")[0].split(";")[0])
            first = {"case": kept[k][0], "real": kept[k][1]}
        except Exception:
            pass
        rep.fail("broken-correspondence", "the generated node_to_string (Gen/GenNodeStr.v) and the real one differ on raw node arrays: %s" % bad,
                 "C02:nts-arrays-corr", observed=first, theorem="translator nodestr.py / C02_code_node_to_string")


def search(ctx):
    try:
        corr_generated_nts(ctx)
    except Exception as e:
        import traceback
        ctx.report.fail("broken-correspondence", "node_to_string array correspondence crashed", "C02:nts-arrays-crash", observed=traceback.format_exc()[-1500:],
                        theorem="C02_code_node_to_string tie")
    rep = ctx.report
    sys.path.insert(0, os.path.join(esrv.VERIF, "harness", "lib"))
    import liboracle as lo
    import mpmath as mp
    stats = {"gen_checked": 0, "fit_checked": 0, "undecided": 0, "tree_vs_string": 0}
    for rec in ctx.lines:
        labels = rec["labels"]
        if not lo.wellformed(labels):
            rep.fail("failing-input", "malformed tree in library: %r" % (labels,), "C02:malformed-tree",
                     input={"basis": rec["lib"], "n": rec["n"], "line": rec["i"], "labels": labels})
            continue
        # tree vs stored string, independent evaluators on both sides (ESR semantics)
        pts = [(mp.mpf(xv), [mp.mpf(t) for t in th]) for xv, th in rec["points"]]
        res, det = lo.same_function(lambda x, th: lo.eval_labels(labels, x, th), lambda x, th: lo.eval_string(rec["string"], x, th), pts, min_defined=1)
        if res == "diff":
            rep.fail("failing-input", "stored string differs from its tree: %r vs %s at %s" % (labels, rec["string"], det),
                     "C02:string-vs-tree", input={"basis": rec["lib"], "n": rec["n"], "line": rec["i"], "labels": labels, "string": rec["string"], "point": det})
            continue
        stats["tree_vs_string"] += 1
        for stage in ("gen", "fit"):
            vals = rec[stage]
            if isinstance(vals, str):
                # a reader failure only matters where the tree is finite somewhere (e.g. 'zoo' lines are finite nowhere)
                defined = 0
                for xv, th in rec["points"]:
                    # "finite" must not be an artefact of rounding: inv(x - inv(inv(x))) is undefined everywhere, but 1/(1/x) is
                    # not exactly x in finite precision.  A point counts only if two working precisions agree on the value.
                    try:
                        vals2 = []
                        for dps in (30, 80):
                            with mp.workdps(dps):
                                vals2.append(lo.eval_labels(labels, mp.mpf(xv), [mp.mpf(t) for t in th]))
                        if abs(vals2[0] - vals2[1]) <= mp.mpf(10) ** -12 * (1 + abs(vals2[1])):
                            defined += 1
                    except lo.Undefined:
                        pass
                if defined == 0:
                    stats["undecided"] += 1
                    continue
                rep.fail("failing-input", "%s-stage reader cannot read the stored string %s: %s" % (stage, rec["string"], vals),
                         "C02:%s-reader-crash" % stage, input={"basis": rec["lib"], "n": rec["n"], "line": rec["i"], "string": rec["string"]}, observed=vals)
                continue
            ok = 0
            for (xv, th), v in zip(rec["points"], vals):
                if v is None:
                    continue
                try:
                    want = lo.eval_labels(labels, mp.mpf(xv), [mp.mpf(t) for t in th])
                except lo.Undefined:
                    continue
                if abs(want) > mp.mpf(10) ** 60 or (want != 0 and abs(want) < mp.mpf(10) ** -60):
                    continue   # float evaluation of the reader may over/underflow here
                if abs(v[1]) > 1e-7 * (1 + abs(v[0])) or abs(float(want) - v[0]) > 1e-7 * (1 + abs(float(want)) + abs(v[0])):
                    rep.fail("failing-input", "%s-stage reading of %r differs from its tree %r at x=%r theta=%r: %r vs %s" % (
                        stage, rec["string"], labels, xv, th[:4], v[0], mp.nstr(want, 15)), "C02:%s-reading-differs" % stage,
                        input={"basis": rec["lib"], "n": rec["n"], "line": rec["i"], "labels": labels, "string": rec["string"], "x": xv, "theta": th},
                        observed=v, expected=str(want))
                    break
                ok += 1
            if ok:
                stats[stage + "_checked"] += 1
            else:
                stats["undecided"] += 1
    rep.extra["search"] = stats
