"""C20 -- fitting a single tree agrees with the library pipeline and the closed form."""
import ast
import json
import math
import os
import shutil
import sys

import numpy as np

import esrv

sys.path.insert(0, os.path.join(esrv.VERIF, "harness", "lib"))

PROPS_V = "Props/C20.v"
TRANSLATORS = []
IMPL = os.path.join(esrv.VERIF, "harness", "corr", "c20_impl.py")
TRUSTED = [
    "Coq 8.16.1 kernel; Print Assumptions: C20 theorems closed under the global context",
    "hand-written composition model coq/Model/Single.v; tie = (a) statement-level template of fit_single.single_function checked against the source each run, "
    "(b) real single_function vs the real pipeline's row for the same tree vs an independent closed form",
    "optimiser, numerical Hessian, sympy and the likelihood are oracles (universally quantified in the theorems, tested numerically here)",
]
ASSUMPTIONS = [
    "numerical agreement is tested to the tolerance upstream's own test uses (2e-2 absolute on -logL and DL), not proved",
    "closed forms cover trees affine in their parameters under Gaussian noise",
]
LEVEL_TEXT = ("Coq composition theorems, for every behaviour of the numerical oracles: the returned description length is exactly negloglike + codelen + tree code of the fitted string; "
              "single_function and the pipeline fit the same string and compose the same stage functions, hence agree (outright for equal padding width, conditionally otherwise). "
              "Tied to the code by a source template check and by running both entry points and the real four-stage pipeline on the same data against an independent weighted-least-squares/MDL closed form.")
LEVEL_NOTE = ("Partial: numerical agreement (optimiser convergence, numerical Hessian) is tested to 2e-2, not proved; the model of single_function is hand-written and guarded by a statement template "
              "that fails closed when the function's dataflow changes.")
TECHNIQUE = "Coq composition proof over oracle-parameterised model + source template guard + real single-tree API vs real pipeline vs independent closed form"

# the dataflow of fit_single.single_function the model was written against (normalised statements, in order)
TEMPLATE = [
    's = generator.labels_to_shape(labels, basis_functions)',
    'success, _, tree = generator.check_tree(s)',
    'fstr = generator.node_to_string(0, tree, labels)',
    'max_param = simplifier.get_max_param([fstr], verbose=verbose)',
    'fstr, fsym = simplifier.initial_sympify([fstr], max_param, parallel=False, verbose=verbose)',
    'fstr = fstr[0]',
    'fsym = fsym[fstr]',
    'chi2, params = optimise_fun(fstr, likelihood, tmax, pmin, pmax, try_integration=try_integration, max_param=max_param, Niter_params=[Niter], Nconv_params=[Nconv], log_opt=log_opt)',
    'if likelihood.is_mse:',
    'DL = np.nan',
    'negloglike = chi2',
    'fcn, eq, integrated = likelihood.run_sympify(fstr, tmax=tmax, try_integration=try_integration)',
    'params, negloglike, deriv, codelen = convert_params(fcn, eq, integrated, params, likelihood, chi2, max_param=max_param)',
    "param_list = ['a%i' % j for j in range(max_param)]",
    'aifeyn = generator.aifeyn_complexity(labels, param_list)',
    'DL = negloglike + codelen + aifeyn',
    'if return_params:',
    'return (negloglike, DL, params)',
    'return (negloglike, DL)',
]


def flow(fn):
    out = []

    def walk(stmts):
        for st in stmts:
            if isinstance(st, ast.Expr):
                if isinstance(st.value, ast.Constant) or (isinstance(st.value, ast.Call) and ast.unparse(st.value.func) == "print"):
                    continue
                out.append(ast.unparse(st))
            elif isinstance(st, ast.If):
                if ast.unparse(st.test) == "verbose":
                    continue
                out.append("if %s:" % ast.unparse(st.test))
                walk(st.body)
                walk(st.orelse)
            else:
                out.append(ast.unparse(st))
    walk(fn.body)
    return out


def correspondence(ctx):
    import fitlib
    import liboracle as lo
    rep = ctx.report
    src = open(os.path.join(ctx.scratch, "esr", "fitting", "fit_single.py")).read()
    fn = [n for n in ast.parse(src).body if isinstance(n, ast.FunctionDef) and n.name == "single_function"]
    got = flow(fn[0]) if fn else []
    if got != TEMPLATE:
        diff = [(a, b) for a, b in zip(got + [""] * 40, TEMPLATE + [""] * 40) if a != b][:3]
        rep.fail("broken-correspondence", "fit_single.single_function no longer has the dataflow Model/Single.v was written against: %r" % (diff,),
                 "C20:template", observed=diff, theorem="C20_dl_is_sum / C20_single_eq_pipeline (Model/Single.v)")
    # real runs: pipeline (core_maths n=3,4) and the single-tree API on the same data
    work, repo = fitlib.work_repo(ctx.scratch, "c20")
    ctx.cases = []
    nds = 2 if ctx.quick else 4
    for n in ([3, 4] if ctx.quick else [3, 4, 5]):
        ok, err = fitlib.generate(repo, "core_maths", [n])
        if not ok:
            rep.fail("failing-input", "generation fails: %s" % err[-300:], "C20:generation-crash", input={"basis": "core_maths", "n": n})
            continue
        lib = lo.load_library(fitlib.libdir(repo, "core_maths", n), n)
        for di in range(nds):
            rng = np.random.default_rng((ctx.seed + 17 * n + di) % 2 ** 31)
            x = np.linspace(0.5, 3.0, 25)
            th = rng.choice([-1, 1], size=2) * rng.uniform(0.6, 2.2, size=2)
            y = th[0] + th[1] * x + rng.normal(0, 0.15, size=len(x)) if (n + di) % 2 else th[0] / x + th[1] + rng.normal(0, 0.15, size=len(x))
            if di == nds - 1:
                # a coefficient that is not zero but lies within one precision step of zero: the zero-snapping / re-evaluation path of
                # convert_params (line through the origin for n odd, a constant for n even)
                y = (th[1] * x if n % 2 else th[0] + 0 * x) + rng.normal(0, 0.15, size=len(x))
            sig = np.full(len(x), 0.15)
            ddir = os.path.join(work, "data_%d_%d" % (n, di))
            fitlib.write_data(ddir, "d.txt", x, y, sig)
            res = fitlib.run_stages(repo, "gauss", ddir, "d.txt", "r", "core_maths", n, seed=ctx.seed % 10000 + di)
            if res[0][0] != 0:
                rep.fail("failing-input", "pipeline crashes: %s" % res[0][2].strip().splitlines()[-1:], "C20:pipeline-crash", input={"n": n}, observed=res[0][2][-800:])
                continue
            cm = fitlib.load_table(os.path.join(fitlib.outdir(ddir, "r"), "codelen_matches_comp%d.dat" % n))
            # trees to fit singly: affine-in-parameter trees with 1-2 parameters, original trees only
            picks = []
            for i, (s, labels) in enumerate(zip(lib["all"], lib["trees"])):
                k = fitlib.nparams_of(s)
                if 1 <= k <= 2 and i < len(lib["orig_trees"]) and "zoo" not in s and fitlib.linear_design(s, k, x) is not None:
                    picks.append(i)
            rs = esrv.rng(ctx.seed, "c20-%d-%d" % (n, di))
            rs.shuffle(picks)
            picks = picks[: (10 if ctx.quick else 25)]
            jobs = [{"labels": lib["trees"][i], "index": i} for i in picks]
            # formula entry point on a few of them
            jobs += [{"formula": lib["all"][i], "index": i} for i in picks[:2]]
            rc, out, err = esrv.run_py(repo, IMPL, [ddir, "d.txt", json.dumps(fitlib.SHIPPED["core_maths"]), json.dumps(jobs), str(ctx.seed % 10000)], timeout=2400)
            if rc != 0:
                rep.fail("broken-correspondence", "single-tree driver failed", "C20:driver", observed=err[-1200:], theorem="C20 tie")
                continue
            for rec in json.loads(out):
                i = rec["index"]
                rec.update(n=n, string=lib["all"][i], tree=lib["trees"][i], x=x.tolist(), y=y.tolist(), sig=sig.tolist(),
                           pipeline={"nll": cm[i][0], "codelen": cm[i][1], "aifeyn": lib["aifeyn"][i], "DL": cm[i][0] + cm[i][1] + lib["aifeyn"][i]})
                ctx.cases.append(rec)
                rep.case(key=(n, di, i, "formula" if "formula" in rec else "labels"),
                         sample={"n": n, "tree": rec["tree"], "entry": "formula" if "formula" in rec else "labels", "single": {k: rec.get(k) for k in ("nll", "DL", "error")}, "pipeline": rec["pipeline"]})
                rep.traces += 1
    # trees outside the small libraries: three parameters (always optimised in linear space) and log_opt on/off, both entry points,
    # on data with all coefficients significant and on data where one coefficient is unresolved; no pipeline row exists for them
    # (complexity 9-11), so they are compared with the closed form and with the sum clause only
    extra = [(["+", "a0", "+", "*", "a1", "x", "*", "a2", "pow", "x", "2"], "a0 + a1*x + a2*x**2", lambda t, x: t[0] + t[1] * x + t[2] * x ** 2),
             (["+", "a0", "+", "*", "a1", "x", "/", "a2", "x"], "a0 + a1*x + a2/x", lambda t, x: t[0] + t[1] * x + t[2] / x),
             (["+", "a0", "*", "a1", "x"], "a0 + a1*x", lambda t, x: t[0] + t[1] * x),
             (["*", "a0", "x"], "a0*x", lambda t, x: t[0] * x),
             # integer constants in the tree (their code length is ln|c|): negative exponents, a factor 3, a zero
             (["*", "a0", "pow", "x", "-2"], "a0*x**(-2)", lambda t, x: t[0] / x ** 2),
             (["+", "a0", "*", "a1", "pow", "x", "-3"], "a0 + a1*x**(-3)", lambda t, x: t[0] + t[1] / x ** 3),
             (["+", "*", "3", "x", "a0"], "3*x + a0", lambda t, x: 3 * x + t[0])]
    for ei, (labels, formula, f) in enumerate(extra):
        for variant in (["significant", "unresolved"] if ctx.quick else ["significant", "unresolved", "significant2"]):
            rng = np.random.default_rng((ctx.seed + 1000 + 31 * ei + len(variant)) % 2 ** 31)
            x = np.linspace(0.5, 3.0, 25)
            th = rng.uniform(0.6, 2.2, size=3)                  # positive: log_opt searches positive parameters only for <= 2 parameters
            if variant == "unresolved" and len(labels) > 3:
                th[0] = 0.0
            y = f(th, x) + rng.normal(0, 0.15, size=len(x))
            sig = np.full(len(x), 0.15)
            ddir = os.path.join(work, "data_x_%d_%s" % (ei, variant))
            fitlib.write_data(ddir, "d.txt", x, y, sig)
            jobs = []
            npar_tree = len({l for l in labels if l[:1] == "a" and l[1:].isdigit()})
            for lo_ in (False, True):
                if lo_ and variant == "unresolved" and npar_tree <= 2:
                    # log-space optimisation of 1-2 parameters searches magnitudes inside the box 10**pmin..10**pmax in each sign orthant: an
                    # optimum at (nearly) zero lies outside what that mode is documented to find (C10: magnitudes within the search box)
                    continue
                jobs.append({"labels": labels, "index": -1, "log_opt": lo_})
                jobs.append({"formula": formula, "index": -1, "log_opt": lo_})
            rc, out, err = esrv.run_py(repo, IMPL, [ddir, "d.txt", json.dumps(fitlib.SHIPPED["core_maths"]), json.dumps(jobs), str(ctx.seed % 10000)], timeout=2400)
            if rc != 0:
                rep.fail("broken-correspondence", "single-tree driver failed", "C20:driver", observed=err[-1200:], theorem="C20 tie")
                continue
            for rec in json.loads(out):
                rec.update(n=len(labels), string=formula, tree=labels, x=x.tolist(), y=y.tolist(), sig=sig.tolist(), pipeline=None, variant=variant)
                ctx.cases.append(rec)
                rep.case(key=("extra", ei, variant, rec.get("log_opt"), "formula" if "formula" in rec else "labels"),
                         sample={"tree": labels, "variant": variant, "log_opt": rec.get("log_opt"), "entry": "formula" if "formula" in rec else "labels",
                                 "single": {k: rec.get(k) for k in ("nll", "DL", "error")}})
                rep.traces += 1
    shutil.rmtree(work, ignore_errors=True)
    rep.rule = ("affine-in-parameter trees (1-2 parameters) of core_maths libraries fitted through single_function (labels) and fit_from_string (formula) and by the real four-stage pipeline on the same "
                "Gaussian data; compared with each other and with the independent closed form; tolerance 2e-2 as upstream")


def search(ctx):
    import fitlib
    rep = ctx.report
    TOL = 2e-2
    n_ok = 0
    for rec in getattr(ctx, "cases", []):
        inp = {k: rec[k] for k in ("n", "tree", "string", "x", "y", "sig")}
        inp["log_opt"] = rec.get("log_opt", False)
        inp["entry"] = "formula" if "formula" in rec else "labels"
        if "error" in rec:
            rep.fail("failing-input", "single-tree API raises on %r: %s" % (rec.get("formula") or rec["tree"], rec["error"]), "C20:single-crash", input=inp, observed=rec["error"])
            continue
        labels = rec.get("labels", rec["tree"]) if "formula" in rec else rec["tree"]
        k = fitlib.nparams_of(rec["string"])
        cf = fitlib.mdl_closed_form(rec["string"], rec["tree"], k, rec["x"], rec["y"], rec["sig"])
        p = rec["pipeline"]
        # (a) single vs closed form
        if cf and math.isfinite(cf["DL"]):
            if True:
                # the formula entry point builds its own tree (e.g. a0*x - x becomes ['*','x','+','-1.0','a0'], possibly with another number
                # of nodes): it must be the same FUNCTION -- same likelihood and parameter code as the closed form of the formula given --
                # while the tree code is that of the labels it returns
                want_dl = cf["DL"] if "formula" not in rec else cf["nll"] + cf["codelen"] + fitlib.aifeyn_of(labels)
                if abs(rec["nll"] - cf["nll"]) > TOL or abs(rec["DL"] - want_dl) > TOL + (0 if "formula" not in rec else 1e-9):
                    rep.fail("failing-input", "single-tree fit of %r returns (-logL, DL) = (%.5f, %.5f) but the closed form is (%.5f, %.5f)" % (
                        labels, rec["nll"], rec["DL"], cf["nll"], want_dl), "C20:single-vs-closed-form", input=inp, observed={"nll": rec["nll"], "DL": rec["DL"]}, expected=dict(cf, DL=want_dl))
                    continue
            # (b) DL is the sum of the returned likelihood, the parameter code length and the tree code
            if "formula" not in rec and abs((rec["DL"] - rec["nll"] - fitlib.aifeyn_of(rec["tree"])) - cf["codelen"]) > TOL:
                rep.fail("failing-input", "DL - (-logL) - tree code = %.5f is not the parameter code length %.5f for %r" % (
                    rec["DL"] - rec["nll"] - fitlib.aifeyn_of(rec["tree"]), cf["codelen"], rec["tree"]), "C20:dl-not-sum", input=inp, expected=cf)
                continue
        # (c) single vs pipeline row of the same tree
        if "formula" not in rec and p is not None and math.isfinite(p["DL"]):
            if abs(rec["nll"] - p["nll"]) > TOL or abs(rec["DL"] - p["DL"]) > TOL:
                rep.fail("failing-input", "single-tree fit of %r gives (-logL, DL) = (%.5f, %.5f) but the pipeline reports (%.5f, %.5f) for the same tree" % (
                    rec["tree"], rec["nll"], rec["DL"], p["nll"], p["DL"]), "C20:single-vs-pipeline", input=inp, observed={"nll": rec["nll"], "DL": rec["DL"]}, expected=p)
                continue
        n_ok += 1
    rep.extra["search"] = {"cases": len(getattr(ctx, "cases", [])), "agreeing": n_ok}
