"""C03 -- merging duplicates never changes a function: matches and parameter maps exact."""
import json
import os
import re
import sys

import esrv

PROPS_V = "Props/C03.v"
# functions the hand-written model of this property was written against (normalised source stored under harness/corr/guards/;
# a difference is reported as broken-correspondence: the theorems then no longer speak about the current source)
SOURCE_GUARDS = [
    ("esr/generation/duplicate_checker.py", "main"),
    ("esr/generation/simplifier.py", "do_sympy"),
    ("esr/generation/simplifier.py", "check_results"),
]

TRANSLATORS = ["uniq", "cancel"]
IMPL = os.path.join(esrv.VERIF, "harness", "corr", "c03_impl.py")

SHIPPED = ["core_maths", "ext_maths", "osc_maths", "base10_maths", "base_e_maths", "keep_duplicates"]
# sub-bases run through the guarded hook (run name verif_<x>, basis from ESR_VERIF_BASIS)
SUBBASES = {
    "verif_cube": [["x", "a"], ["inv", "cube"], ["+", "*", "-", "/", "pow"]],
    "verif_nominus": [["x", "a"], ["inv", "square", "log_abs"], ["+", "*"]],
    "verif_sin": [["x", "a"], ["sin", "square", "inv"], ["+", "*", "-"]],
    "verif_explog": [["x", "a"], ["exp", "log_abs"], ["*", "/", "pow"]],
    "verif_sqrt": [["x", "a"], ["sqrt_abs", "square", "cube"], ["+", "-", "/"]],
    "verif_ten": [["x", "a"], ["tenexp", "log10_abs", "inv"], ["+", "*", "pow"]],
    "verif_sincube": [["x", "a"], ["sin", "cube", "exp"], ["+", "/"]],
    "verif_plusonly": [["x", "a"], ["inv", "exp", "sqrt_abs"], ["+", "pow"]],
}


# ------------------------------------------------------------------ Coq literals

def nl(l):
    return "[" + "; ".join("%d" % v for v in l) + "]"


def nll(ll):
    return "[" + "; ".join(nl(l) for l in ll) + "]"


def nlll(lll):
    return "[" + "; ".join(nll(ll) for ll in lll) + "]"


class Ids:
    """strings -> N identifiers (function strings from 1; substitution strings from 1, 'nan' = 0)"""

    def __init__(self):
        self.s = {}
        self.c = {"nan": 0}

    def sid(self, s):
        if s not in self.s:
            self.s[s] = len(self.s) + 1
        return self.s[s]

    def cid(self, c):
        c = c.strip()
        if c not in self.c:
            self.c[c] = len(self.c)
        return self.c[c]

    def chain(self, row):
        return [self.cid(c) for c in row if c.strip() != ""]


def case_v(rec, tag="C03"):
    """Generated correspondence file for one recorded duplicate_checker.main run."""
    ids = Ids()
    mp = rec["do_sympy"]["max_param"]
    ncall = mp + 1
    calls = rec["calls"]
    nround = rec["do_sympy"]["nround"]
    if len(calls) != nround * ncall:
        raise ValueError("recorded %d sympy_simplify calls for %d rounds x %d groups" % (len(calls), nround, ncall))
    for k, c in enumerate(calls):
        if c["group"] != k % ncall:
            raise ValueError("call %d is for group %d" % (k, c["group"]))
        if any(t is not None for t in c["tin"]):
            raise ValueError("sympy_simplify was handed a non-None inverse-subs entry (model assumes [None]*N)")
        if not (len(c["out"]) == len(c["chains"]) == len(c["in"])):
            raise ValueError("sympy_simplify returned lists of different lengths")
    E = [ids.sid(s) for s in rec["final"]["all"]]
    os_ = []
    for r in range(nround):
        rnd = []
        for g in range(ncall):
            c = calls[r * ncall + g]
            rnd.append("[" + "; ".join("(%d, %s)" % (ids.sid(o), "None" if ch is None else "Some " + nl(ids.chain(ch)))
                                        for o, ch in zip(c["out"], c["chains"])) + "]")
        os_.append("[" + "; ".join(rnd) + "]")
    ev = rec["events"]
    round1 = ev.index("eof:expand") // ncall if "eof:expand" in ev else 0
    inputs = [[[ids.sid(s) for s in calls[r * ncall + g]["in"]] for g in range(ncall)] for r in range(nround)]
    idx = [rf["idx"] for rf in rec["round_files"]]
    rows = [[ids.chain(row) for row in rf["rows"]] for rf in rec["round_files"]]
    comb = [ids.chain(i or []) for i, o in rec["cancel"]]
    ctab = {}
    for i, o in rec["cancel"]:
        ci, co = tuple(ids.chain(i or [])), tuple(ids.chain(o or []))
        if ci in ctab and ctab[ci] != co:
            raise ValueError("simplify_inv_subs is not a function of its chain argument")
        ctab[ci] = co
    ctab_v = "[" + "; ".join("(%s, %s)" % (nl(a), nl(b)) for a, b in sorted(ctab.items()) if a != b) + "]"
    cr = rec["check_results"]
    fin = rec["final"]
    pre = cr["pre"] if cr else fin
    tc = (cr["to_change"] or []) if cr else []

    def lib(d):
        return nl([ids.sid(s) for s in d["uniq"]]), nl(d["matches"]), nll([ids.chain(r) for r in d["subs"]])
    pu, pm, ps = lib(pre)
    fu, fm, fs = lib(fin)
    a0 = [ids.sid(s) for s in rec["do_sympy"]["in"]]
    afun = [ids.sid(s) for s in rec["do_sympy"]["out"]]
    cp = "[" + "; ".join("(%d, %d)" % (ids.sid(s), v) for s, v in sorted(rec["count_params"].items(), key=lambda kv: ids.sid(kv[0]))) + "]"
    v = """From Coq Require Import List NArith String.
From ESRV Require Import Model.Uniq Model.DoSympy.
Import ListNotations.
Open Scope N_scope.
Definition cp := table_fun (map (fun p => (fst p, N.to_nat (snd p))) %(cp)s) 0%%nat.
Definition E : list N := %(E)s.
Definition extra_orig : list nat := map N.to_nat %(xo)s.
Definition os : list round_oracle := [%(os)s].
Definition perm : list nat := map N.to_nat %(perm)s.
Definition cancel := chain_table %(ctab)s.
Definition to_change : list nat := map N.to_nat %(tc)s.
Definition exp := mk_exp %(a0)s %(inputs)s %(idx)s %(rows)s %(round1)d %(afun)s %(comb)s
  %(pu)s %(pm)s %(ps)s
  %(fu)s %(fm)s %(fs)s.
Eval vm_compute in ("%(tag)s"%%string, check_main (main cp %(mp)d%%nat E extra_orig os perm cancel %(check)s to_change) exp).
""" % dict(cp=cp, E=nl(E), xo=nl(rec["extra_orig"] or []), os="; ".join(os_), perm=nl(rec["shuffle"]["after"]),
           ctab=ctab_v, tc=nl(tc), a0=nl(a0), inputs=nlll(inputs), idx=nll(idx), rows=nlll(rows), round1=round1,
           afun=nl(afun), comb=nll(comb), pu=pu, pm=pm, ps=ps, fu=fu, fm=fm, fs=fs, tag=tag, mp=mp,
           check="true" if cr else "false")
    return v, ids


# ------------------------------------------------------------------ runs of the real generation

# replay of the known way to obtain a duplicated unique entry (see search): extra trees whose own string is already a unique
# small bases in which rare bookkeeping situations already occur at complexity 5 (seconds to generate):
#  - a chain that is exactly three equal self-inverse steps (only one may be cancelled),
#  - two parameters that both become absolute values and are then subtracted (|a0| - |a1| is not an absolute value),
#  - empty libraries
DIRECTED = {
    "verif_tripleflip": [["x", "a"], ["exp", "log_abs"], ["-", "+"]],
    "verif_sqdiff": [["x", "a"], ["square"], ["-", "*"]],
    # no unary operator: the libraries at even complexity are empty (check_results crashed on them before /repo d9ed802)
    "verif_nounary": [["x", "a"], [], ["-", "/"]],
    # functions that lose a parameter when parsed while a higher-numbered one survives ((a0*(x-x)) - a1 is stored as -a1): the only
    # rows whose chain holds a parameter renaming that is not behind a nan; first at complexity 7
    "verif_minus_times": [["x", "a"], [], ["-", "*"]],
    # odd powers under log/Abs: the inverse map a0 -> a0**(1/3) is the principal complex root for negative a0, wrong maps that sympy's
    # equals() cannot decide (returns None) are un-merged by check_results
    "verif_cuberoot": [["x", "a"], ["cube", "log_abs", "exp"], ["+", "*", "/"]],
}
DIRECTED_NMAX = {"verif_minus_times": 7, "verif_cuberoot": 4}
DUPUNIQ = ("verif_dupuniq", [["x", "a"], ["log_abs", "inv"], ["+", "-", "*"]], [6])


def run_list(ctx):
    """[(runname, basis-or-None, [complexities])]"""
    ns = list(range(1, (4 if ctx.quick else 5) + 1))
    runs = [(b, None, ns) for b in SHIPPED]
    runs += [(name, basis, ns) for name, basis in SUBBASES.items()]
    runs += [(name, basis, list(range(1, DIRECTED_NMAX.get(name, 5) + 1))) for name, basis in DIRECTED.items()]
    if not ctx.quick:
        runs.append(DUPUNIQ)
        rng = esrv.rng(ctx.seed, "C03/random-subbases")
        unary = ["inv", "square", "cube", "sqrt_abs", "exp", "log_abs", "sin", "tenexp", "log10_abs"]
        binary = ["+", "*", "-", "/", "pow"]
        for k in range(6):
            u = sorted(rng.sample(unary, rng.randint(1, 3)))
            b = sorted(rng.sample(binary, rng.randint(1, 3)))
            runs.append(("verif_rnd%d" % k, [["x", "a"], u, b], [1, 2, 3, 4]))
    return runs


def trace_run(ctx, runname, basis, ns):
    extra = {"ESR_VERIF_BASIS": json.dumps(basis)} if basis is not None else None
    rc, out, err = esrv.run_py(ctx.scratch, IMPL, ["trace", runname] + [str(n) for n in ns],
                               extra=extra, timeout=3000)
    if rc != 0:
        return None, err[-2000:]
    try:
        return json.loads(out), None
    except Exception as e:
        return None, "unparsable driver output: %s" % e


def coq_check_run(recs):
    """one generated file per run name, one Module per complexity; returns {n: failing component numbers or error text}"""
    parts = ["From Coq Require Import List NArith String.\nFrom ESRV Require Import Model.Uniq Model.DoSympy.\n"]
    tags = {}
    for rec in recs:
        tag = "C03-%s-%d" % (rec["runname"], rec["n"])
        try:
            v, _ = case_v(rec, tag)
        except ValueError as e:
            tags[rec["n"]] = "recorded run outside the model's assumptions: %s" % e
            continue
        body = v.split("Open Scope N_scope.\n", 1)[1]
        parts.append("Module R%d.\nImport ListNotations.\nOpen Scope N_scope.\n%sEnd R%d.\n" % (rec["n"], body, rec["n"]))
        tags[rec["n"]] = tag
    rc, out = esrv.coq_run("".join(parts), timeout=3000)
    flat = " ".join(out.split()).replace("%string", "")
    res = {}
    for n, tag in tags.items():
        if not tag.startswith("C03-"):
            res[n] = tag
        elif '("%s", [])' % tag in flat:
            res[n] = []
        else:
            i = flat.find('("%s", [' % tag)
            res[n] = flat[i:i + 200] if i >= 0 else ("coqc rc=%d: %s" % (rc, flat[-600:]))
    return res


COMPONENTS = {0: "model stopped (None): stopping rule / shuffle / KeyError", 1: "all_fun handed to do_sympy (extra trees inherit)",
              2: "arguments of the sympy_simplify calls", 3: "inv_idx round files", 4: "inv_subs round files",
              5: "round1_count", 6: "number of executed rounds", 7: "all_fun returned by do_sympy",
              8: "concatenated chains handed to simplify_inv_subs", 9: "unique_equations before check_results",
              10: "matches before check_results", 11: "inv_subs before check_results", 12: "final unique_equations",
              13: "final matches", 14: "final inv_subs", 15: "row counts of the per-round tables"}


def uniq_correspondence(ctx):
    rep = ctx.report
    maxlen, nsym = (7, 3)
    rc, out, err = esrv.run_py(ctx.scratch, IMPL, ["uniq", str(maxlen), str(nsym)], timeout=1200)
    if rc != 0:
        rep.fail("broken-correspondence", "uniq driver failed", "C03:uniq-driver", observed=err[-2000:], theorem="Uniq.v tie")
        return
    d = json.loads(out)

    def pl(p):
        return "[" + "; ".join("(%d, %d)" % (a, b) for a, b in p) + "]"
    bad = []
    shards = [d["gui"][i:i + 1200] for i in range(0, len(d["gui"]), 1200)]
    gshards = [d["gmi"][i:i + 1500] for i in range(0, len(d["gmi"]), 1500)]
    hdr = ("From Coq Require Import List NArith String.\nFrom ESRV Require Import Common.Corr Model.Uniq Model.DoSympy.\n"
           "Import ListNotations.\nOpen Scope N_scope.\n"
           "Definition pe (a b : N * N) := (N.eqb (fst a) (fst b) && N.eqb (snd a) (snd b))%bool.\n"
           "Definition cv (d : list (N * nat)) := map (fun kv => (fst kv, N.of_nat (snd kv))) d.\n")

    def run_shard(kind, k, sh):
        if kind == "gui":
            cases = "; ".join("(%s, %s, %s)" % (nl(L), pl(r), pl(m)) for L, r, m in sh)
            v = hdr + ("Definition cases : list (list N * list (N*N) * list (N*N)) := [%s].\n"
                       "Eval vm_compute in (\"GUI\"%%string, failing (fun c => match c with (L, r, m) => "
                       "(leqb pe (cv (gui_result N.eqb L)) r && leqb pe (cv (gui_match N.eqb L)) m)%%bool end) cases).\n" % cases)
            want = '("GUI", [])'
        else:
            cases = "; ".join("(%s, %s, %s)" % (nl(a), nl(b), "None" if r is None else "Some " + nl(r)) for a, b, r in sh)
            v = hdr + ("Definition cases : list (list N * list N * option (list N)) := [%s].\n"
                       "Eval vm_compute in (\"GMI\"%%string, failing (fun c => match c with (a, b, r) => "
                       "match get_match_indexes N.eqb a b, r with Some x, Some y => lN_eqb (nats x) y | None, None => true | _, _ => false end end) cases).\n" % cases)
            want = '("GMI", [])'
        rc, out = esrv.coq_run(v)
        flat = " ".join(out.split()).replace("%string", "")
        return (kind, k, rc == 0 and want in flat, flat[-400:])
    import concurrent.futures as cf
    jobs = [("gui", k, sh) for k, sh in enumerate(shards)] + [("gmi", k, sh) for k, sh in enumerate(gshards)]
    with cf.ThreadPoolExecutor(max_workers=6) as ex:
        for kind, k, ok, flat in ex.map(lambda j: run_shard(*j), jobs):
            if not ok:
                bad.append((kind, k, flat))
    for k, (L, r, m) in enumerate(d["gui"]):
        rep.case(key=("gui", tuple(L)), nontrivial=len(set(L)) < len(L),
                 sample={"L": L, "result": r, "match": m} if k == 1500 else None)
    for k, (a, b, r) in enumerate(d["gmi"]):
        rep.case(key=("gmi", tuple(a), tuple(b)), nontrivial=len(b) > 0 and len(a) > 1,
                 sample={"a": a, "b": b, "get_match_indexes": r} if k == 3000 else None)
    rep.traces += len(d["gui"]) + len(d["gmi"])
    for kind, k, flat in bad[:3]:
        rep.fail("broken-correspondence", "Model/Uniq.v and utils.%s differ (shard %d)" % (
            "get_unique_indexes" if kind == "gui" else "get_match_indexes", k), "C03:uniq-corr-" + kind, observed=flat,
            theorem="C03_uniq_spec / C03_get_match_indexes_spec (Model/Uniq.v)")


# crafted library files for the REAL check_results (max_param = 2 in each): functions whose map cannot be verified, some of
# them with an own string that is already a unique entry (the corpus case behind key C03:unmerge:appended-unique-already-present)
UNMERGE_CASES = [
    {"n": 3, "all": ["a0*x", "a0 + x", "a0*x", "x/a0", "x**2 + a0", "x**2 + a0", "a0*x + a1", "a1 + x", "-a0 + x"],
     "uniq": ["a0 + x", "a0*x", "a0*x + a1"], "matches": [0, 0, 1, 1, 0, 0, 2, 0, 0],
     "subs": [["{a0: -a0}"], [], [], ["{a0: 1/a0}"], ["{a0: a0**2}"], ["{a0: a0**2}"], [], ["{a0: a1, a1: a0}"], ["{a0: -a0}"]]},
    {"n": 3, "all": ["a0 + x", "-a0 + x", "a0*x + a1"], "uniq": ["a0 + x", "a0*x + a1"], "matches": [0, 0, 1],
     "subs": [[], ["{a0: -a0}"], []]},
    {"n": 4, "all": ["a0*x + a1", "a1*x + a0", "a0*x + a1"], "uniq": ["a0*x + a1"], "matches": [0, 0, 0], "subs": [[], ["nan"], []]},
    {"n": 3, "all": ["a1 + a0*x", "a0*x", "a0*x", "a0 + x", "2*a0*x"], "uniq": ["a0 + x", "a0*x", "a0*x + a1"], "matches": [2, 0, 0, 0, 1],
     "subs": [[], ["{a0: a0/2}"], ["{a0: a0/2}"], [], ["{a0: a0/2}"]]},
    {"n": 5, "all": ["exp(a0)*x", "a0*x", "x*exp(a0) + a1", "exp(a0)*x"], "uniq": ["Abs(a0)*x", "a0*x", "a0*x + a1", "exp(a0)*x"],
     "matches": [1, 1, 2, 0], "subs": [["{a0: exp(a0)}"], [], ["{a0: log(Abs(a0))}"], ["{a0: -a0}"]]},
]


def unmerge_correspondence(ctx):
    rep = ctx.report
    rc, out, err = esrv.run_py(ctx.scratch, IMPL, ["unmerge"], stdin=json.dumps(UNMERGE_CASES), timeout=600)
    if rc != 0:
        rep.fail("broken-correspondence", "unmerge driver failed", "C03:unmerge-driver", observed=err[-2000:], theorem="C03_unmerge_sound tie")
        ctx.c03_unmerge = []
        return
    posts = json.loads(out)
    ctx.c03_unmerge = list(zip(UNMERGE_CASES, posts))
    parts = ["From Coq Require Import List NArith String.\nFrom ESRV Require Import Model.Uniq Model.DoSympy.\nImport ListNotations.\nOpen Scope N_scope.\n"]
    for k, (c, p) in enumerate(ctx.c03_unmerge):
        ids = Ids()
        E = nl([ids.sid(x) for x in c["all"]])
        U = nl([ids.sid(x) for x in c["uniq"]])
        S = nll([ids.chain(r) for r in c["subs"]])
        parts.append("Definition r%d := unmerge %s (mk_lib %s (map N.to_nat %s) %s) (map N.to_nat %s).\n" % (
            k, E, U, nl(c["matches"]), S, nl(p["to_change"])))
        parts.append('Eval vm_compute in ("UM%d"%%string, (lN_eqb (l_uniq r%d) %s && lN_eqb (nats (l_match r%d)) %s && llN_eqb (l_subs r%d) %s)%%bool).\n' % (
            k, k, nl([ids.sid(x) for x in p["uniq"]]), k, nl(p["matches"]), k, nll([ids.chain(r) for r in p["subs"]])))
    rc, out = esrv.coq_run("".join(parts))
    flat = " ".join(out.split()).replace("%string", "")
    for k, (c, p) in enumerate(ctx.c03_unmerge):
        rep.case(key=("unmerge", k), nontrivial=len(p["to_change"]) > 0,
                 sample={"crafted_files": c, "to_change": p["to_change"], "after_check_results": p} if k == 0 else None)
        rep.traces += 1
        if '("UM%d", true)' % k not in flat:
            rep.fail("broken-correspondence", "Model/DoSympy.v unmerge and the real check_results differ on crafted library %d" % k,
                     "C03:unmerge-corr", input=c, observed={"real": p, "coq": flat[-400:]}, theorem="C03_unmerge_sound / C03_final_uniques_distinct")


def correspondence(ctx):
    import concurrent.futures as cf
    rep = ctx.report
    uniq_correspondence(ctx)
    unmerge_correspondence(ctx)
    os.makedirs(os.path.join(ctx.scratch, "esr", "function_library"), exist_ok=True)
    runs = run_list(ctx)
    ctx.c03_recs = []
    with cf.ThreadPoolExecutor(max_workers=7) as ex:
        traces = list(ex.map(lambda r: (r, trace_run(ctx, *r)), runs))
    good = []
    for (runname, basis, nmax), (recs, err) in traces:
        if recs is None:
            rep.fail("broken-correspondence", "real duplicate_checker.main failed under the recording wrappers for %s" % runname,
                     "C03:trace-driver:" + runname, input={"run": runname, "basis": basis, "n": nmax}, observed=err,
                     theorem="oracle-trace replay")
            # is it the wrappers or the code?  the same run without any wrapper, under another run name
            plain = "verif_plain_" + runname.replace("verif_", "") if basis is not None else None
            if plain:
                rc2, out2, err2 = esrv.run_py(ctx.scratch, os.path.join(esrv.VERIF, "harness", "corr", "gen_run.py"), [plain] + [str(n) for n in nmax],
                                              extra={"ESR_VERIF_BASIS": json.dumps(basis)}, timeout=3000)
                if rc2 != 0:
                    last = [l for l in err2.strip().splitlines() if l.strip()][-1:] or ["?"]
                    rep.fail("failing-input", "function generation (duplicate_checker.main) raises for basis %r, complexities %r: %s" % (basis, nmax, last[0][:200]),
                             "C03:generation-crash:" + runname, input={"basis": basis, "complexities": nmax}, observed=err2[-1200:],
                             expected="a library (possibly empty) for every basis and complexity")
            continue
        for rec in recs:
            rec["basis"] = basis
        good.append(recs)
        ctx.c03_recs += recs
    with cf.ThreadPoolExecutor(max_workers=5) as ex:
        results = list(ex.map(coq_check_run, good))
    ncalls = 0
    for recs, res in zip(good, results):
        for rec in recs:
            r = res.get(rec["n"])
            nch = sum(1 for row in rec["final"]["subs"] if any(c.strip() for c in row))
            tc = (rec["check_results"] or {}).get("to_change") or []
            rep.case(key=("trace", rec["runname"], rec["n"]), nontrivial=nch > 0,
                     sample=None if not (rec["n"] == 4 and rec["runname"] in ("keep_duplicates", "verif_nominus")) else {"run": rec["runname"], "n": rec["n"], "functions": len(rec["final"]["all"]),
                             "uniques": len(rec["final"]["uniq"]), "rounds": rec["do_sympy"]["nround"],
                             "sympy_simplify_calls": len(rec["calls"]), "functions_with_chain": nch,
                             "extra_trees": len(rec["extra_orig"] or []), "unmerged_by_check_results": len(tc)})
            ncalls += len(rec["calls"])
            if r != []:
                what = (", ".join(COMPONENTS.get(int(x), x) for x in re.findall(r"\d+", r[r.find("[") + 1:r.find("]")]))
                        if isinstance(r, str) and r.startswith("(") else str(r))
                rep.fail("broken-correspondence", "Model/DoSympy.v fed with the recorded oracle answers does not reproduce the real run "
                         "%s n=%d: %s" % (rec["runname"], rec["n"], what), "C03:trace-corr",
                         input={"run": rec["runname"], "basis": rec["basis"], "n": rec["n"]}, observed=str(r)[:600],
                         theorem="C03_chain_sound / C03_rows_aligned / C03_unmerge_sound / C03_library (Model/DoSympy.v)")
    rep.traces += ncalls
    # negative control: the comparison must notice a perturbed expectation
    small = [rec for rec in ctx.c03_recs if rec["runname"] == "core_maths" and rec["n"] == 3]
    if small:
        rec = json.loads(json.dumps(small[0]))
        m = rec["final"]["matches"]
        m[0], m[1] = m[1] + 1, m[0]
        res = coq_check_run([rec])
        if res.get(3) == [] or "13" not in str(res.get(3)):
            rep.fail("broken-correspondence", "negative control: a perturbed final matches file was not flagged by the model comparison",
                     "C03:trace-negative-control", observed=str(res), theorem="oracle-trace replay")
    rep.rule = ("uniq: every list over 3 symbols up to length 7 through the real get_unique_indexes and every (a,b) with |a|<=4, |b|<=3 "
                "through get_match_indexes vs Model/Uniq.v (non-trivial: a repeated value); trace: real duplicate_checker.main on the six "
                "shipped bases and %d sub-bases (cube, no '-', sin, exp/log only, ...; thorough adds 6 seeded random sub-bases and the n=6 "
                "corpus run of {log_abs,inv,+,-,*}) for n=1..%d with recording wrappers; the recorded "
                "sympy_simplify answers, shuffle permutation, simplify_inv_subs table and check_results' to_change are fed to "
                "Model/DoSympy.v under vm_compute and 15 components (call arguments, per-round files, round counts, all_fun, concatenated "
                "chains, the three files before and after check_results) are compared as id lists (non-trivial: some function has a chain); "
                "unmerge: the real check_results on %d crafted library directories vs Model/DoSympy.v unmerge"
                % (len(SUBBASES), 4 if ctx.quick else 5, len(UNMERGE_CASES)))
    rep.exhaustive = False


# ------------------------------------------------------------------ search: the statement on the libraries

def step_validation(rec, rng, lo):
    """each distinct recorded oracle step (f -> f', chain): numeric check of the contract used by the theorems"""
    import mpmath as mp
    st = {"trivial": 0, "certified": 0, "nan_fewer": 0, "undecided": 0, "uncertified": []}
    seen = set()
    for c in rec["calls"]:
        for fin, fout, ch in zip(c["in"], c["out"], c["chains"]):
            ch = [x.strip() for x in (ch or [])]
            key = (fin, fout, tuple(ch))
            if key in seen:
                continue
            seen.add(key)
            if fin == fout and not ch:
                st["trivial"] += 1
                continue
            kf, ku = len(lo.count_params(fin)), len(lo.count_params(fout))
            if "nan" in ch:
                if ku < kf:
                    st["nan_fewer"] += 1
                else:
                    st["uncertified"].append({"in": fin, "out": fout, "chain": ch, "why": "nan step without fewer parameters"})
                continue
            try:
                chain = [lo.parse_sub(x) for x in ch]
            except Exception as e:
                st["uncertified"].append({"in": fin, "out": fout, "chain": ch, "why": "unparsable: %s" % e})
                continue
            npar = max([kf, ku, 1] + [int(k[1:]) + 1 for d in chain for k, _ in d if k[1:].isdigit()] +
                       [max(lo.count_params(fin) + [0]) + 1, max(lo.count_params(fout) + [0]) + 1])
            res, det = lo.same_function(lambda x, th: lo.eval_string(fin, x, lo.apply_chain(chain, th)),
                                        lambda x, th: lo.eval_string(fout, x, th), lo.gen_points(rng, npar, 8))
            if res == "undecided":
                res, det = lo.same_function(lambda x, th: lo.eval_string(fin, x, lo.apply_chain(chain, th)),
                                            lambda x, th: lo.eval_string(fout, x, th), lo.gen_points(rng, npar, 32))
            if res == "diff":
                st["uncertified"].append({"in": fin, "out": fout, "chain": ch, "why": "numeric difference", "point": det})
            elif ku > kf:
                st["uncertified"].append({"in": fin, "out": fout, "chain": ch, "why": "parameter count grows"})
            elif res == "undecided":
                st["undecided"] += 1
            else:
                st["certified"] += 1
    return st


def extra_validation(rec, rng, lo):
    """C11 contract used by C03_library: an extra tree's own string denotes the same function as its original's"""
    E = rec["final"]["all"]
    xo = rec["extra_orig"] or []
    st = {"equal": 0, "identical": 0, "undecided": 0, "differ": []}
    base = len(E) - len(xo)
    for k, f in enumerate(xo):
        a, b = E[base + k], E[f]
        if a == b:
            st["identical"] += 1
            continue
        npar = max(lo.count_params(a) + lo.count_params(b) + [0]) + 1
        res, det = lo.same_function(lambda x, th: lo.eval_string(a, x, th), lambda x, th: lo.eval_string(b, x, th),
                                    lo.gen_points(rng, npar, 8))
        if res == "diff":
            st["differ"].append({"extra_index": base + k, "extra": a, "orig_index": f, "orig": b, "point": det})
        elif res == "undecided":
            st["undecided"] += 1
        else:
            st["equal"] += 1
    return st


CHUNK = 500


def guard_periodic(lo):
    """Numerical guards on liboracle's evaluation namespaces (this process only).  sin/cos/tan of an astronomically large
    argument (e.g. sin(exp(cube(...)))) make mpmath raise its working precision to the size of the argument, and a power with an
    astronomically large integer exponent (e.g. pow(x, tenexp(tenexp(a0)))) makes it allocate the exponent bit by bit; such a
    point carries no information at 30 digits, so it is treated as undefined."""
    import mpmath as mp
    big_arg = mp.mpf(10) ** 30
    big_exp = mp.mpf(10) ** 4

    def periodic(fn):
        def f(a):
            if abs(a) > big_arg:
                raise lo.Undefined("periodic function of a huge argument")
            return fn(a)
        return f

    def power(fn):
        def f(a, b):
            if abs(b) > big_arg or (a != 0 and abs(b) * abs(mp.log(abs(a))) > big_exp):
                raise lo.Undefined("power beyond any meaningful comparison")
            return fn(a, b)
        return f

    def expo(fn, scale):
        def f(a):
            if abs(a) * scale > big_exp:
                raise lo.Undefined("exponential beyond any meaningful comparison")
            return fn(a)
        return f
    for mode in ("esr", "plain"):
        ns = lo._NS[mode]
        for name, fn in (("sin", mp.sin), ("cos", mp.cos), ("tan", mp.tan)):
            ns[name] = periodic(fn)
        for name in ("pow", "pow_abs", "__pow"):
            ns[name] = power(ns[name])
        ns["exp"] = expo(ns["exp"], 1)
        ns["tenexp"] = expo(ns["tenexp"], mp.log(10))


def search_one(args):
    """runs in a worker process: the C03 statement on rows [lo, hi) of one library (+, for the first chunk, the checks on
    the unique list and the validation of the recorded steps)"""
    rec, seed, lo_i, hi_i = args
    sys.path.insert(0, os.path.join(esrv.VERIF, "harness", "lib"))
    import liboracle as lo
    import random
    guard_periodic(lo)
    lib = lo.load_library(rec["dir"], rec["n"])
    nall = len(lib["all"])
    rows_ok = len(lib["matches"]) == nall and len(lib["subs"]) == nall and len(lib["trees"]) == nall and len(lib["aifeyn"]) == nall
    first = lo_i == 0
    if rows_ok:
        for k in ("all", "matches", "subs", "trees", "aifeyn"):
            lib[k] = lib[k][lo_i:hi_i]
    elif not first:
        return {"run": rec["runname"], "n": rec["n"], "viol": [], "stats": {}, "steps": None, "extra": None, "clash": []}
    viol, stats = lo.check_c03(lib, "%s/%d" % (seed, lo_i))
    out = []
    for v in viol:
        if v["kind"] in ("unique-duplicate", "unique-param-gap", "row-counts"):
            if first:
                out.append(v)
            continue
        if "index" in v:
            v["index"] += lo_i
        out.append(v)
    if not first:
        stats["uniques"] = 0
        return {"run": rec["runname"], "n": rec["n"], "viol": out, "stats": stats, "steps": None, "extra": None, "clash": []}
    rng = random.Random("%s/%s/%d/steps" % (seed, rec["runname"], rec["n"]))
    steps = step_validation(rec, rng, lo)
    extra = extra_validation(rec, rng, lo)
    # check_results appends un-merged strings without testing them against the existing unique list
    cr = rec.get("check_results")
    clash = []
    if cr and cr.get("to_change"):
        pre = cr["pre"]
        xo = rec["extra_orig"] or []
        base = len(pre["all"]) - len(xo)
        trees = lo.read_lines(os.path.join(rec["dir"], "trees_%d.txt" % rec["n"]))
        fin = rec["final"]
        for t in cr["to_change"]:
            s = pre["all"][t]
            if s in pre["uniq"]:
                j = pre["uniq"].index(s)
                c = {"index": t, "function": s, "tree": trees[t] if t < len(trees) else None,
                     "existing_unique_index": j, "appended_unique_index": fin["matches"][t],
                     "final_unique_lines_with_this_string": [i for i, u in enumerate(fin["uniq"]) if u == s],
                     "match_before_check_results": pre["matches"][t], "unique_before_check_results": pre["uniq"][pre["matches"][t]],
                     "chain_before_check_results": pre["subs"][t], "uniques_before": len(pre["uniq"]), "uniques_after": len(fin["uniq"])}
                if t >= base:
                    c["extra_tree_of"] = {"index": xo[t - base], "function": pre["all"][xo[t - base]]}
                clash.append(c)
    return {"run": rec["runname"], "n": rec["n"], "viol": out, "stats": stats, "steps": steps, "extra": extra, "clash": clash}


def search(ctx):
    import concurrent.futures as cf
    rep = ctx.report
    recs = getattr(ctx, "c03_recs", [])
    slim = []
    for rec in recs:
        r2 = {k: rec[k] for k in ("runname", "n", "dir", "calls", "final", "extra_orig", "check_results")}
        nfun = len(rec["final"]["all"])
        for lo_i in range(0, max(nfun, 1), CHUNK):
            slim.append((r2 if lo_i == 0 else {k: r2[k] for k in ("runname", "n", "dir")}, ctx.seed, lo_i, min(nfun, lo_i + CHUNK)))
    tot = {"functions": 0, "checked": 0, "with_chain": 0, "nan": 0, "undecided": 0,
           "steps_certified": 0, "steps_nan_fewer": 0, "steps_undecided": 0, "steps_trivial": 0, "steps_uncertified": 0,
           "extra_equal": 0, "extra_identical": 0, "extra_undecided": 0, "extra_differ": 0, "unmerged": 0}
    unc_samples, ext_samples = [], []
    basis_of = {(rec["runname"], rec["n"]): rec.get("basis") for rec in recs}
    slim.sort(key=lambda a: -(a[3] - a[2]) - (10 ** 6 if a[2] == 0 else 0))
    with cf.ProcessPoolExecutor(max_workers=10) as ex:
        parts = list(ex.map(search_one, slim))
    merged = {}
    for r in parts:
        m = merged.setdefault((r["run"], r["n"]), {"run": r["run"], "n": r["n"], "viol": [], "stats": {}, "steps": None, "extra": None, "clash": []})
        m["viol"] += r["viol"]
        for k, v in r["stats"].items():
            m["stats"][k] = m["stats"].get(k, 0) + v
        if r["steps"] is not None:
            m["steps"], m["extra"], m["clash"] = r["steps"], r["extra"], r["clash"]
    results = [merged[k] for k in sorted(merged)]
    nrep = 0
    for r in results:
        s = r["stats"]
        for k in ("functions", "checked", "with_chain", "nan", "undecided"):
            tot[k] += s.get(k, 0)
        tot["steps_certified"] += r["steps"]["certified"]
        tot["steps_nan_fewer"] += r["steps"]["nan_fewer"]
        tot["steps_undecided"] += r["steps"]["undecided"]
        tot["steps_trivial"] += r["steps"]["trivial"]
        tot["steps_uncertified"] += len(r["steps"]["uncertified"])
        unc_samples += [dict(u, run=r["run"], n=r["n"]) for u in r["steps"]["uncertified"][:2]]
        for k in ("equal", "identical", "undecided"):
            tot["extra_" + k] += r["extra"][k]
        tot["extra_differ"] += len(r["extra"]["differ"])
        ext_samples += [dict(u, run=r["run"], n=r["n"]) for u in r["extra"]["differ"][:2]]
        rep.case(key=("library", r["run"], r["n"]), nontrivial=s.get("with_chain", 0) > 0,
                 sample=None if not (r["n"] == 4 and r["run"] in ("base_e_maths", "verif_cube")) else {"run": r["run"], "n": r["n"], "stats": s, "recorded_steps": {k: (v if isinstance(v, int) else len(v))
                                                                                      for k, v in r["steps"].items()}})
        basis = basis_of.get((r["run"], r["n"])) or r["run"]
        explained = set(c["function"] for c in r["clash"] if len(c["final_unique_lines_with_this_string"]) > 1)
        for v in r["viol"]:
            if v["kind"] == "unique-duplicate" and explained and set(v.get("dup", [])) <= explained:
                continue
            if nrep >= 12:
                break
            nrep += 1
            rep.fail("failing-input", "library %s n=%d violates C03 (%s): %s" % (
                r["run"], r["n"], v["kind"], json.dumps({k: v[k] for k in v if k != "kind"}, default=str)[:300]),
                "C03:" + v["kind"], input=dict(v, basis=basis, n=r["n"], run=r["run"]),
                observed=v.get("point") or v, expected="f_i(sigma_i(theta)) == u_{m_i}(theta) at generic points; nan only with "
                "strictly fewer parameters; distinct gap-free uniques; one row per function")
        tot["unmerged_own_string_already_unique"] = tot.get("unmerged_own_string_already_unique", 0) + len(r["clash"])
        for c in r["clash"]:
            if len(c["final_unique_lines_with_this_string"]) <= 1:
                continue        # matched to the existing entry: fine
            rep.fail("failing-input", "check_results appended the un-merged function %d (%s) of %s n=%d as new unique %d although the same "
                     "string is already unique %d: unique_equations_%d.txt holds it on lines %s" % (
                         c["index"], c["function"], r["run"], r["n"], c["appended_unique_index"], c["existing_unique_index"], r["n"],
                         c["final_unique_lines_with_this_string"]),
                     "C03:unmerge:appended-unique-already-present", input=dict(c, basis=basis, n=r["n"], run=r["run"]),
                     observed={"unique_equations lines (0-based) holding the string": c["final_unique_lines_with_this_string"]},
                     expected="unique entries pairwise distinct")
    # the un-merge stated directly on the real check_results' output for the crafted libraries
    for k, (c, p) in enumerate(getattr(ctx, "c03_unmerge", [])):
        tc = set(p["to_change"])
        dup = sorted(set(u for u in p["uniq"] if p["uniq"].count(u) > 1))
        if dup:
            rep.fail("failing-input", "check_results left the unique list of crafted library %d with repeated entries %r" % (k, dup),
                     "C03:unmerge:appended-unique-already-present", input=c, observed=p, expected="unique entries pairwise distinct")
        bad = []
        for i in range(len(c["all"])):
            if len(p["matches"]) != len(c["all"]) or len(p["subs"]) != len(c["all"]):
                bad.append(("row-counts", len(p["matches"]), len(p["subs"])))
                break
            if i in tc:
                if not (0 <= p["matches"][i] < len(p["uniq"]) and p["uniq"][p["matches"][i]] == c["all"][i] and p["subs"][i] == []):
                    bad.append((i, "un-merged function is not its own unique with an empty row"))
            elif p["matches"][i] != c["matches"][i] or p["subs"][i] != c["subs"][i]:
                bad.append((i, "untouched function changed"))
        if p["uniq"][:len(c["uniq"])] != c["uniq"]:
            bad.append(("uniq", "existing unique entries moved"))
        if bad:
            rep.fail("failing-input", "check_results on crafted library %d: %r" % (k, bad[:3]), "C03:unmerge:wrong-rows",
                     input=c, observed=p, expected="un-merged functions are their own unique with empty row; others unchanged")
    for rec in recs:
        tot["unmerged"] += len((rec.get("check_results") or {}).get("to_change") or [])
    rep.extra["c03_totals"] = tot
    rep.extra["uncertified_step_samples"] = unc_samples[:8]
    rep.extra["extra_tree_contract_failures"] = ext_samples[:8]


TRUSTED = [
    "Coq 8.16.1 kernel + vm_compute (no native_compute)",
    "Print Assumptions: every C03 theorem is closed under the global context (no axioms; strings/substitutions are abstract ids, "
    "values and parameter vectors abstract types)",
    "translator harness/translate/uniq.py + pyd.py/pyz.py (fail-closed Python ast -> Gallina): utils.get_unique_indexes and get_match_indexes are regenerated "
    "into coq/Gen/GenUniq.v on every run and proved equal to the hand model for every input (C03_code_*_is_model)",
    "hand-written models coq/Model/Uniq.v and coq/Model/DoSympy.v, tied to the source on every run by oracle-trace replay: the real "
    "duplicate_checker.main runs with recording wrappers and the model, fed with the recorded oracle answers, must reproduce call "
    "arguments, per-round files, round counts, all_fun, concatenated chains and the three files before/after check_results",
    "sympy (sympy_simplify, expand_or_factor, the equality test inside check_results), numpy's shuffle and simplify_inv_subs are ORACLES: "
    "their answers are inputs of the model; each recorded sympy_simplify step is validated numerically (mpmath, 30 digits) and counted "
    "certified/uncertified in the evidence, not proved",
    "harness/lib/liboracle.py (independent evaluators, the numeric C03 statement) and mpmath",
    "MPI stand-in harness/fakempi (single rank); text round trip of the chain files is C17's subject and enters here only through the "
    "comparison of the re-combined chains",
]
ASSUMPTIONS = [
    "oracle contract (hypothesis run_sound): every executed sympy_simplify step (f -> f', chain c) satisfies f(compose c theta) = f'(theta) "
    "for all theta when c has no nan, a chain with nan comes with strictly fewer parameters, and no step increases the parameter count; "
    "equalities are everywhere-equalities of an abstract denotation (partiality, e.g. a0 = 0 under {a0: 1/a0}, is idealised away; the "
    "numeric search compares at generic points only)",
    "simplify_inv_subs preserves the composition and the presence of nan: hypothesis cancel_ok of C03_chain_sound, DISCHARGED for the function as "
    "regenerated from simplifier.py (C03_cancel_contract_of_code, C03_chain_sound_code_cancel) under: members of all_dup denote involutions and nan is "
    "not in all_dup (C17_all_dup_spec / C17_all_dup_involutive)",
    "np.random.shuffle leaves a permutation of 0..U-1 (hypothesis; the recorded array is checked by the model run returning Some)",
    "an extra tree's own string denotes the same function as its original's string with no more parameters (hypothesis; C11's subject; "
    "validated numerically per library and reported)",
    "all_inv_subs is [None]*N at the start of every round (so the slice branch t[k][len(uniq_inv_subs):] is dead); asserted on the "
    "recorded calls (tin all None) on every run",
]
LEVEL_TEXT = ("Machine-checked theorems (Coq, no axioms) on a faithful model of the duplicate-merging bookkeeping: get_unique_indexes / "
              "get_match_indexes specifications (also proved of the two functions as regenerated from utils.py on every run); for ANY shuffle permutation uniq'[match_idx k] = all_fun k; and, for any number of rounds in "
              "both phases, with sympy's answers as contract-bound oracles, every function composed with its concatenated, file-recombined, "
              "cancelled chain denotes exactly its unique, nan rows imply strictly fewer parameters, every table has one row per function, "
              "and check_results' un-merge leaves every touched function as its own unique with an empty row and all others unchanged. "
              "The model is tied to the code by replaying recorded oracle answers of real generation runs through it on every check. "
              "Tests can sample libraries but cannot quantify over rounds, permutations and oracle behaviours.")
LEVEL_NOTE = ("Not proved: that sympy's individual rewrites satisfy the contract (each recorded step is checked numerically and counted); "
              "the text round trip of chain files (C17); that extra trees equal their originals (C11). The un-merge of check_results is "
              "additionally tied by running the real function on crafted library files (incl. an un-merged function whose own string is "
              "already a unique entry, the case repaired in commit 50d5ff4).")
TECHNIQUE = ("Coq proof over translator-generated get_unique_indexes/get_match_indexes (refinement to the model) and hand-written models (list/dict induction, round invariant, composition order) + oracle-trace replay of real "
             "runs under vm_compute + exhaustive small-list correspondence + mpmath statement check on every generated library")
