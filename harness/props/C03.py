"""C03 -- merging duplicates never changes a function: matches and parameter maps exact."""
import itertools
import json
import os
import shutil
import sys

import esrv

PROPS_V = "Props/C03.v"
TRANSLATORS = []
IMPL = os.path.join(esrv.VERIF, "harness", "corr", "c03_impl.py")

SHIPPED = ["core_maths", "ext_maths", "osc_maths", "base10_maths", "base_e_maths", "keep_duplicates"]
# sub-bases run through the guarded hook (run name verif_<x>, basis from ESR_VERIF_BASIS)
SUBBASES = {
    "verif_cube": [["x", "a"], ["inv", "cube"], ["+", "*", "-", "/", "pow"]],
    "verif_nominus": [["x", "a"], ["inv", "square", "log_abs"], ["+", "*"]],
    "verif_sin": [["x", "a"], ["sin", "square", "inv"], ["+", "*", "-"]],
    "verif_explog": [["x", "a"], ["exp", "log_abs"], ["*", "/", "pow"]],
    "verif_sqrt": [["x", "a"], ["sqrt_abs", "square", "cube"], ["+", "-", "/"]],
    "verif_ten": [["x", "a"], ["tenexp", "log10_abs", "inv"], ["+", "*", "pow"]],
    "verif_sincube": [["x", "a"], ["sin", "cube", "exp"], ["+", "/"]],
    "verif_plusonly": [["x", "a"], ["inv", "exp", "sqrt_abs"], ["+", "pow"]],
}


# ------------------------------------------------------------------ Coq literals

def nl(l):
    return "[" + "; ".join("%d" % v for v in l) + "]"


def nll(ll):
    return "[" + "; ".join(nl(l) for l in ll) + "]"


def nlll(lll):
    return "[" + "; ".join(nll(ll) for ll in lll) + "]"


class Ids:
    """strings -> N identifiers (function strings from 1; substitution strings from 1, 'nan' = 0)"""

    def __init__(self):
        self.s = {}
        self.c = {"nan": 0}

    def sid(self, s):
        if s not in self.s:
            self.s[s] = len(self.s) + 1
        return self.s[s]

    def cid(self, c):
        c = c.strip()
        if c not in self.c:
            self.c[c] = len(self.c)
        return self.c[c]

    def chain(self, row):
        return [self.cid(c) for c in row if c.strip() != ""]


def case_v(rec, tag="C03"):
    """Generated correspondence file for one recorded duplicate_checker.main run."""
    ids = Ids()
    mp = rec["do_sympy"]["max_param"]
    ncall = mp + 1
    calls = rec["calls"]
    nround = rec["do_sympy"]["nround"]
    if len(calls) != nround * ncall:
        raise ValueError("recorded %d sympy_simplify calls for %d rounds x %d groups" % (len(calls), nround, ncall))
    for k, c in enumerate(calls):
        if c["group"] != k % ncall:
            raise ValueError("call %d is for group %d" % (k, c["group"]))
        if any(t is not None for t in c["tin"]):
            raise ValueError("sympy_simplify was handed a non-None inverse-subs entry (model assumes [None]*N)")
        if not (len(c["out"]) == len(c["chains"]) == len(c["in"])):
            raise ValueError("sympy_simplify returned lists of different lengths")
    E = [ids.sid(s) for s in rec["final"]["all"]]
    os_ = []
    for r in range(nround):
        rnd = []
        for g in range(ncall):
            c = calls[r * ncall + g]
            rnd.append("[" + "; ".join("(%d, %s)" % (ids.sid(o), "None" if ch is None else "Some " + nl(ids.chain(ch)))
                                        for o, ch in zip(c["out"], c["chains"])) + "]")
        os_.append("[" + "; ".join(rnd) + "]")
    ev = rec["events"]
    round1 = ev.index("eof:expand") // ncall if "eof:expand" in ev else 0
    inputs = [[[ids.sid(s) for s in calls[r * ncall + g]["in"]] for g in range(ncall)] for r in range(nround)]
    idx = [rf["idx"] for rf in rec["round_files"]]
    rows = [[ids.chain(row) for row in rf["rows"]] for rf in rec["round_files"]]
    comb = [ids.chain(i or []) for i, o in rec["cancel"]]
    ctab = {}
    for i, o in rec["cancel"]:
        ci, co = tuple(ids.chain(i or [])), tuple(ids.chain(o or []))
        if ci in ctab and ctab[ci] != co:
            raise ValueError("simplify_inv_subs is not a function of its chain argument")
        ctab[ci] = co
    ctab_v = "[" + "; ".join("(%s, %s)" % (nl(a), nl(b)) for a, b in sorted(ctab.items()) if a != b) + "]"
    cr = rec["check_results"]
    fin = rec["final"]
    pre = cr["pre"] if cr else fin
    tc = (cr["to_change"] or []) if cr else []

    def lib(d):
        return nl([ids.sid(s) for s in d["uniq"]]), nl(d["matches"]), nll([ids.chain(r) for r in d["subs"]])
    pu, pm, ps = lib(pre)
    fu, fm, fs = lib(fin)
    a0 = [ids.sid(s) for s in rec["do_sympy"]["in"]]
    afun = [ids.sid(s) for s in rec["do_sympy"]["out"]]
    cp = "[" + "; ".join("(%d, %d)" % (ids.sid(s), v) for s, v in sorted(rec["count_params"].items(), key=lambda kv: ids.sid(kv[0]))) + "]"
    v = """From Coq Require Import List NArith String.
From ESRV Require Import Model.Uniq Model.DoSympy.
Import ListNotations.
Open Scope N_scope.
Definition cp := table_fun (map (fun p => (fst p, N.to_nat (snd p))) %(cp)s) 0%%nat.
Definition E : list N := %(E)s.
Definition extra_orig : list nat := map N.to_nat %(xo)s.
Definition os : list round_oracle := [%(os)s].
Definition perm : list nat := map N.to_nat %(perm)s.
Definition cancel := chain_table %(ctab)s.
Definition to_change : list nat := map N.to_nat %(tc)s.
Definition exp := mk_exp %(a0)s %(inputs)s %(idx)s %(rows)s %(round1)d %(afun)s %(comb)s
  %(pu)s %(pm)s %(ps)s
  %(fu)s %(fm)s %(fs)s.
Eval vm_compute in ("%(tag)s"%%string, check_main (main cp %(mp)d%%nat E extra_orig os perm cancel %(check)s to_change) exp).
""" % dict(cp=cp, E=nl(E), xo=nl(rec["extra_orig"] or []), os="; ".join(os_), perm=nl(rec["shuffle"]["after"]),
           ctab=ctab_v, tc=nl(tc), a0=nl(a0), inputs=nlll(inputs), idx=nll(idx), rows=nlll(rows), round1=round1,
           afun=nl(afun), comb=nll(comb), pu=pu, pm=pm, ps=ps, fu=fu, fm=fm, fs=fs, tag=tag, mp=mp,
           check="true" if cr else "false")
    return v, ids
