"""C09 -- likelihood classes compute the documented negative log-likelihood, never NaN."""
import itertools
import json
import math
import os
from fractions import Fraction

import esrv

PROPS_V = "Props/C09.v"
TRANSLATORS = ["likelihood"]
IMPL = os.path.join(esrv.VERIF, "harness", "corr", "c09_impl.py")
CLASSES = ["GaussLikelihood", "PoissonLikelihood", "CCLikelihood", "MockLikelihood", "MSE"]
HAS_S = {"GaussLikelihood", "CCLikelihood", "MockLikelihood"}

TRUSTED = [
    "Coq 8.16.1 kernel + vm_compute (no native_compute)",
    "Print Assumptions: the standard Reals axioms (ClassicalDedekindReals.sig_not_dec, sig_forall_dec, "
    "FunctionalExtensionality.functional_extensionality_dep, Classical_Prop.classic); the C09_*_no_nan theorems are closed under the global context",
    "translator harness/translate/likelihood.py (Python ast -> Gallina, fail-closed; pins every store to xvar/yvar/yerr/inv_cov/Hfid)",
    "coq/Model/XR.v: numpy/IEEE special-value semantics on extended reals + Cplx marker, broadcasting, np.sum/mean/all/isreal/isnan, "
    "Python truthiness / or / not / try-except; validated each run against the real classes on every special-value placement",
    "executable twin QNum (exact Q arithmetic, sqrt/ln/pi to ~1e-37) used only by the correspondence check",
    "numpy's float64 arithmetic itself (IEEE-754) and np.loadtxt/genfromtxt file parsing",
]
ASSUMPTIONS = [
    "real-number semantics for finite values: rounding, overflow and underflow of float64 are not modelled (validated to 1e-12 on moderate magnitudes)",
    "numpy error state is the default (invalid/divide warn, not raise)",
    "zero denominators are +0 (every division in the translated code has a `** 2` denominator; enforced by the translator)",
    "Cplx stands for an entry with non-zero or NaN imaginary part; complex-dtype predictions whose imaginary parts are all exactly 0 "
    "are outside the model (observed: same value returned as a complex128 with zero imaginary part)",
    "formula theorems assume finite data and sigma > 0 (and f > 0 for Poisson, f >= 0 for CC/Mock); never-NaN-result theorems "
    "(C09_*_no_nan) assume nothing",
]
LEVEL_TEXT = ("Machine-checked theorems (Coq, Reals) on terms regenerated from likelihood.py on every run: for ALL data vectors, error bars and "
              "prediction vectors/scalars the Gauss, Poisson, CC, Mock and MSE negloglike bodies equal the documented closed forms on finite "
              "predictions, return +inf for every placement of NaN, +-inf, complex, (Poisson) non-positive / (CC, Mock) negative entries and for the "
              "base-class exception fallback, and never return NaN for any input at all. Proved by case analysis over IEEE special values, not sampling.")
LEVEL_NOTE = ("Trusted: Coq kernel; the fail-closed translator and the hand-written numpy/IEEE model XR.v (validated every run by an exhaustive "
              "special-value-placement sweep, lengths 1-4, of the executable Q twin of the SAME generated terms against the real classes); float rounding/overflow "
              "not modelled (1e-12 comparison). Axioms: the standard library's classical real-number axioms only. "
              "Observed quirk (proved as C09_cc_exception_propagates): CC/Mock get_pred has no try/except, so a raising model function propagates instead of giving +inf.")
TECHNIQUE = ("Coq proof over translator-generated terms on a numpy-style extended-real model (shape lemma per method + kernel case analysis + sum lemmas); "
             "Q-instance vm_compute correspondence sweep; closed-form (mpmath) search on the real classes")

SYMS = ["fin", "nan", "pinf", "ninf", "cplx", "neg", "zero"]


# ---------------------------------------------------------------- input construction
def dy(rng, lo, hi, den=16):
    return ["q", rng.randint(lo, hi), den]


def entry(sym, rng):
    if sym == "fin":
        return dy(rng, 1, 160)
    if sym == "neg":
        return dy(rng, -160, -1)
    if sym == "zero":
        return ["q", 0, 1]
    if sym == "nan":
        return "nan"
    if sym == "pinf":
        return "inf"
    if sym == "ninf":
        return "-inf"
    if sym == "cplx":
        # imaginary parts of ordinary size and tiny ones (2**-20 .. 2**-60: a prediction is complex however small its imaginary part)
        return ["c", rng.randint(-32, 32) / 8.0, rng.choice([-3, -1, 1, 2, 5, 2.0 ** -18, -2.0 ** -28, 2.0 ** -38, 2.0 ** -58]) / 4.0]
    raise ValueError(sym)


def data(rng, n, cls):
    x = [dy(rng, 0, 64) for _ in range(n)]
    y = [dy(rng, -40, 120) if rng.random() < 0.8 else ["q", 0, 1] for _ in range(n)]
    s = [dy(rng, 1, 40, 8) for _ in range(n)]
    return x, y, s


def mkcase(cls, x, y, s, kind, vals, tag):
    return {"cls": cls, "x": x, "y": y, "s": s, "pred": {"kind": kind, "vals": vals}, "tag": tag}


def sweep_cases(ctx):
    rng = esrv.rng(ctx.seed, "C09/sweep")
    cases = []
    for cls in CLASSES:
        for n in (1, 2, 3, 4) if ctx.quick else (1, 2, 3, 4, 5):
            combos = list(itertools.product(SYMS, repeat=n))
            if n == 4 and ctx.quick:
                combos = rng.sample(combos, 250)
            if n == 5:
                combos = rng.sample(combos, 4000)
            for syms in combos:
                x, y, s = data(rng, n, cls)
                cases.append(mkcase(cls, x, y, s, "vec", [entry(sy, rng) for sy in syms], "place:" + ",".join(syms)))
        for n in (1, 3):
            # scalar predictions (broadcast), raising model function
            for sy in SYMS:
                x, y, s = data(rng, n, cls)
                cases.append(mkcase(cls, x, y, s, "scalar", [entry(sy, rng)], "scalar:" + sy))
            x, y, s = data(rng, n, cls)
            cases.append(mkcase(cls, x, y, s, "raise", [], "raise"))
        # shapes: wrong length (ValueError), length-1 vector broadcast, no data at all
        for n, m in ((3, 2), (2, 3), (3, 1), (4, 1), (3, 0), (0, 0), (0, 1)):
            for sy in ("fin", "nan"):
                x, y, s = data(rng, n, cls)
                cases.append(mkcase(cls, x, y, s, "vec", [entry(sy, rng) for _ in range(m)], "shape:%d/%d:%s" % (n, m, sy)))
        x, y, s = data(rng, 0, cls)
        cases.append(mkcase(cls, x, y, s, "scalar", [entry("fin", rng)], "shape:0/scalar"))
        # special values in the DATA (sigma = 0, negative, inf; y = nan / inf)
        for _ in range(40 if ctx.quick else 400):
            n = rng.randint(1, 4)
            x, y, s = data(rng, n, cls)
            for _ in range(rng.randint(1, 2)):
                i = rng.randrange(n)
                if rng.random() < 0.5:
                    s[i] = rng.choice([["q", 0, 1], dy(rng, -20, -1, 8), "inf", "nan", "-inf"])
                else:
                    y[i] = rng.choice(["nan", "inf", "-inf", ["q", 0, 1]])
            syms = [rng.choice(SYMS[:4] + ["fin", "fin", "fin", "zero"]) for _ in range(n)]
            cases.append(mkcase(cls, x, y, s, "vec", [entry(sy, rng) for sy in syms], "data-special:" + ",".join(syms)))
    return cases


# ---------------------------------------------------------------- Coq rendering
def qlit(n, d):
    return "(%d # %d)" % (n, d) if n >= 0 else "((%d) # %d)" % (n, d)


def xr(v):
    if v == "nan":
        return "NaN"
    if v == "inf":
        return "PInf"
    if v == "-inf":
        return "NInf"
    if v[0] == "q":
        f = Fraction(v[1], v[2])
        return "F " + qlit(f.numerator, f.denominator)
    if v[0] == "c":
        return "Cplx"
    raise ValueError(v)


def xl(vs):
    return "[" + "; ".join(xr(v) for v in vs) + "]"


def nvterm(p):
    if p["kind"] == "raise":
        return "NErr"
    if p["kind"] == "scalar":
        return "NS (%s)" % xr(p["vals"][0])
    return "NA " + xl(p["vals"])


def expterm(r):
    if r[0] == "fin":
        f = Fraction(float.fromhex(r[1]))
        return "EFin " + qlit(f.numerator, f.denominator)
    return {"inf": "EPInf", "-inf": "ENInf", "nan": "ENaN", "raise": "ERaise"}.get(r[0], "EOther")


PRELUDE = """From Coq Require Import QArith Qabs ZArith List Bool String.
From ESRV Require Import Common.Corr Model.XR Gen.GenLikelihood.
Import ListNotations.
Open Scope string_scope.
Definition F := qf.
Inductive exp := EFin (q : Q) | EPInf | ENInf | ENaN | ERaise | EOther.
Definition tol : Q := 1 # 1000000000000.
Definition close (a b : Q) : bool :=
  Qle_bool (Qabs (a - b)) (tol * (if Qle_bool 1 (Qabs a) then Qabs a else 1)).
Definition agree (r : res QNum) (e : exp) : bool :=
  match qshow r, e with
  | QFin a, EFin b => close a b
  | QPInf, EPInf => true
  | QNInf, ENInf => true
  | QNaN, ENaN => true
  | QRaise, ERaise => true
  | _, _ => false
  end.
Definition case := (nat * list (XR QNum) * list (XR QNum) * list (XR QNum) * nv QNum * exp)%type.
Definition run (c : case) : res QNum :=
  match c with (k, xs, ys, ss, p, _) =>
    let eqn := fun (_ : nv QNum) (_ : unit) => p in
    match k with
    | 0%nat => GaussLikelihood_negloglike QNum unit (NA xs) (NA ys) (NA ss) tt eqn
    | 1%nat => PoissonLikelihood_negloglike QNum unit (NA xs) (NA ys) tt eqn
    | 2%nat => CCLikelihood_negloglike QNum unit (NA xs) (NA ys) (CCLikelihood_inv_cov QNum (NA ss)) tt eqn
    | 3%nat => MockLikelihood_negloglike QNum unit (NA xs) (NA ys) (MockLikelihood_inv_cov QNum (NA ss)) tt eqn
    | _ => MSE_negloglike QNum unit (NA xs) (NA ys) tt eqn
    end
  end.
Definition ok (c : case) : bool := match c with (_, _, _, _, _, e) => agree (run c) e end.
"""


def case_term(c, ans):
    return "(%d%%nat, %s, %s, %s, %s, %s)" % (CLASSES.index(c["cls"]), xl(c["x"]), xl(c["y"]), xl(c["s"]),
                                             nvterm(c["pred"]), expterm(ans["r"]))


def _shard(args):
    lo, part = args
    v = PRELUDE + "Definition cases : list case := [\n%s].\n" % ";\n".join(case_term(c, a) for c, a in part)
    v += 'Eval vm_compute in ("C09BAD", failing ok cases).\n'
    rc, out = esrv.coq_run(v, timeout=900)
    flat = " ".join(out.split()).replace("%string", "")
    if rc != 0 or '("C09BAD",' not in flat:
        raise RuntimeError("coq evaluation failed: " + out[-1500:])
    body = flat.split('("C09BAD",', 1)[1]
    body = body[:body.index(")")].strip()
    if body == "[]":
        return []
    return [lo + int(t) for t in body.strip("[]").replace("%nat", "").split(";") if t.strip()]


def model_compare(cases, answers, shard=600):
    """indices on which the Q instance of the generated terms and the implementation disagree (raises if Coq fails).
    Shards are independent coqc runs, four at a time."""
    from concurrent.futures import ThreadPoolExecutor
    jobs = [(lo, list(zip(cases[lo:lo + shard], answers[lo:lo + shard]))) for lo in range(0, len(cases), shard)]
    bad = []
    with ThreadPoolExecutor(max_workers=4) as ex:
        for r in ex.map(_shard, jobs):
            bad += r
    return sorted(bad)


def model_value(case, ans):
    v = PRELUDE + "Eval vm_compute in (qshow (run %s)).\n" % case_term(case, ans)
    rc, out = esrv.coq_run(v, timeout=300)
    return " ".join(out.split())[-600:]


def run_impl(ctx, mode, cases):
    rc, out, err = esrv.run_py(ctx.scratch, IMPL, [], stdin=json.dumps({"mode": mode, "cases": cases}), timeout=1500)
    if rc != 0:
        raise RuntimeError("implementation driver failed: " + err[-1500:])
    return json.loads(out)


def pretty(v):
    if isinstance(v, str):
        return v
    if v[0] == "q":
        return v[1] / v[2]
    if v[0] == "c":
        return "%r%+rj" % (v[1], v[2])
    if v[0] in ("f", "z"):
        return float.fromhex(v[1]) if v[0] == "f" else "%r+0j" % float.fromhex(v[1])
    return v


def show(case):
    return {"class": case["cls"], "x": [pretty(v) for v in case["x"]], "y": [pretty(v) for v in case["y"]],
            "sigma": [pretty(v) for v in case["s"]], "prediction": dict({"kind": case["pred"]["kind"],
                                                                          "values": [pretty(v) for v in case["pred"]["vals"]]},
                                                                         **({"model": case["pred"]["form"], "parameters": case.get("a")}
                                                                            if case["pred"]["kind"] == "model" else {}))}


# ---------------------------------------------------------------- correspondence
def correspondence(ctx):
    rep = ctx.report
    cases = sweep_cases(ctx)
    answers = run_impl(ctx, "cases", cases)
    ctx.sweep = list(zip(cases, answers))
    for c, a in ctx.sweep:
        special = any(not (isinstance(v, list) and v[0] == "q" and v[1] > 0) for v in c["pred"]["vals"]) or c["pred"]["kind"] != "vec"
        rep.case(key=(c["cls"], c["tag"]), nontrivial=special, sample={"input": show(c), "returned": a["r"]})
        if c["pred"]["kind"] != "raise" and c["cls"] and (a.get("ncalls") != 1 or not a.get("x_is_xvar")):
            rep.fail("broken-correspondence", "model function is not called exactly once on self.xvar", "C09:wiring",
                     input=show(c), observed=a, theorem="hypothesis `eqn xvar a = ...` of every C09 theorem")
            break
    rep.traces += len(cases)
    bad = model_compare(cases, answers)
    for i in bad[:5]:
        rep.fail("broken-correspondence",
                 "generated model (Q instance) and %s.negloglike disagree" % cases[i]["cls"], "C09:corr:" + cases[i]["cls"],
                 input=show(cases[i]), observed={"implementation": answers[i]["r"], "model": model_value(cases[i], answers[i])},
                 theorem="Gen/GenLikelihood.v + Model/XR.v vs esr/fitting/likelihood.py")
    # constructor wiring: data attributes as read from files, inv_cov = 1/yerr**2
    rng = esrv.rng(ctx.seed, "C09/ctor")
    ccases = []
    for cls in CLASSES:
        for n in (2, 3, 5):
            x, y, s = data(rng, n, cls)
            if cls == "PoissonLikelihood":
                y = [dy(rng, 0, 160) for _ in range(n)]
            ccases.append(mkcase(cls, x, y, s, "vec", [entry("fin", rng) for _ in range(n)], "ctor"))
    cans = run_impl(ctx, "ctor", ccases)
    ctx.ctor = list(zip(ccases, cans))
    for c, a in zip(ccases, cans):
        rep.case(key=(c["cls"], "ctor", len(c["x"])), sample={"input": show(c), "returned": a})
        flags = [k for k in ("xvar_ok", "yvar_ok", "yerr_ok", "inv_cov_ok") if k in a and not a[k]]
        if flags or a["r"][0] != "fin":
            rep.fail("broken-correspondence", "constructor of %s does not set the data attributes as the model assumes: %s"
                     % (c["cls"], flags or a["r"]), "C09:ctor:" + c["cls"], input=show(c), observed=a,
                     theorem="X_inv_cov / data attributes as arguments")
    badc = model_compare(ccases, cans)
    for i in badc[:3]:
        rep.fail("broken-correspondence", "model and %s built by its real constructor disagree" % ccases[i]["cls"],
                 "C09:ctor-corr:" + ccases[i]["cls"], input=show(ccases[i]),
                 observed={"implementation": cans[i]["r"], "model": model_value(ccases[i], cans[i])}, theorem="constructor tie")
    rep.traces += len(ccases)
    rep.rule = ("for each of the 5 classes: every placement of {finite>0, NaN, +inf, -inf, complex, negative, 0} in prediction vectors of "
                "length 1-3 (%s of length 4), scalar predictions, a raising model function, wrong-length / length-1 / empty shapes, and "
                "random special values (0, negative, inf, NaN) in sigma and y; dyadic-rational data so float inputs are exact; the Q instance of the "
                "generated terms is evaluated by vm_compute and compared with the real method (class of the result exactly, finite values to 1e-12); "
                "plus objects built by the real constructors from data files" % ("a seeded sample of 250" if ctx.quick else "all 2401, and 4000 of length 5"))
    rep.exhaustive = not ctx.quick


# ---------------------------------------------------------------- search: documented closed forms vs the real methods
def closed_form(cls, y, s, f):
    """documented value with mpmath (50 digits) and a forward-error scale (the same sum with every
    difference replaced by the sum of magnitudes) for a cancellation-aware tolerance"""
    import mpmath as mp
    mp.mp.dps = 50
    y = [mp.mpf(v) for v in y]
    f = [mp.mpf(v) for v in f]
    s = [mp.mpf(v) for v in s]
    if cls == "GaussLikelihood":
        t = [(yi - fi) ** 2 / (2 * si ** 2) + mp.log(2 * mp.pi) / 2 + mp.log(si) for yi, si, fi in zip(y, s, f)]
        m = [(abs(yi) + abs(fi)) ** 2 / (2 * si ** 2) + mp.log(2 * mp.pi) / 2 + abs(mp.log(si)) for yi, si, fi in zip(y, s, f)]
    elif cls == "PoissonLikelihood":
        t = [fi - yi * mp.log(fi) for yi, fi in zip(y, f)]
        m = [abs(fi) + abs(yi * mp.log(fi)) for yi, fi in zip(y, f)]
    elif cls in ("CCLikelihood", "MockLikelihood"):
        t = [(mp.sqrt(fi) - yi) ** 2 / (2 * si ** 2) for yi, si, fi in zip(y, s, f)]
        m = [(mp.sqrt(fi) + abs(yi)) ** 2 / (2 * si ** 2) for yi, si, fi in zip(y, s, f)]
    else:
        t = [(yi - fi) ** 2 / len(y) for yi, fi in zip(y, f)]
        m = [(abs(yi) + abs(fi)) ** 2 / len(y) for yi, fi in zip(y, f)]
    return mp.fsum(t), mp.fsum(m)


def fl(v):
    return ["f", float(v).hex()]


def search(ctx):
    rep = ctx.report
    rng = esrv.rng(ctx.seed, "C09/search")
    cases, kinds = [], []
    nfin = 120 if ctx.quick else 2500
    nsp = 200 if ctx.quick else 4000
    for cls in CLASSES:
        # (a) finite random (non-dyadic) inputs
        for _ in range(nfin):
            n = rng.randint(1, 12 if ctx.quick else 60)
            x = [fl(rng.uniform(0, 3)) for _ in range(n)]
            y = [fl(rng.choice([rng.uniform(-5, 20), float(rng.randint(0, 30))])) for _ in range(n)]
            s = [fl(10 ** rng.uniform(-2, 1.5)) for _ in range(n)]
            lo = 0.0 if cls in ("CCLikelihood", "MockLikelihood", "PoissonLikelihood") else -30.0
            f = [fl(rng.uniform(lo, 40) or 1.0) for _ in range(n)]
            if cls == "PoissonLikelihood":
                f = [fl(10 ** rng.uniform(-3, 2)) for _ in range(n)]
            if rng.random() < 0.15:
                c = mkcase(cls, x, y, s, "scalar", [f[0]], "finite-scalar")
            else:
                c = mkcase(cls, x, y, s, "vec", f, "finite")
            cases.append(c)
            kinds.append("finite")
        # (a2) long data vectors with small / large error bars: sums of hundreds of terms whose partial products or partial sums leave
        #      the double range if the formula is re-arranged (prod of sigmas, exp of a sum, ...)
        for nbig, sg in (((600, 1.0 / 64), (900, 1.0 / 2), (500, 64.0)) if ctx.quick else ((600, 1.0 / 64), (900, 0.5), (500, 64.0), (2000, 0.5), (1500, 1.0 / 16))):
            x = [fl(rng.uniform(0, 3)) for _ in range(nbig)]
            y = [fl(rng.uniform(0.5, 20)) for _ in range(nbig)]
            sv = [fl(sg * rng.choice([1.0, 2.0, 0.5])) for _ in range(nbig)]
            f = [fl(rng.uniform(0.5, 40)) for _ in range(nbig)]
            cases.append(mkcase(cls, x, y, sv, "vec", f, "finite-long"))
            kinds.append("finite")
        # (a3) real model functions whose value is finite and in the domain at every data point although an INTERMEDIATE result is
        #      not (exp overflows to inf and 1/(1+inf) is 0; 1/x at the data point x = 0 is inf and 1/(a0+inf) is 0): the prediction
        #      the property speaks about is finite, so the documented sum is due.  The expected prediction is computed here, in
        #      Python floats with the overflow made explicit; the implementation evaluates the numpy expression itself.
        for _ in range(6 if ctx.quick else 60):
            n = rng.randint(3, 12)
            form = rng.choice(["logistic", "invinv"])
            cc = 0.5
            if form == "logistic":
                xs = sorted(rng.uniform(0, 100) for _ in range(n))
                a = [rng.choice([20.0, 40.0, 64.0]), rng.uniform(30, 70)]
                pv = []
                for xv in xs:
                    t = a[0] * (a[1] - xv)
                    e = float("inf") if t > 709.0 else math.exp(t)
                    pv.append(cc + 1.0 / (1.0 + e))
                if not any(a[0] * (a[1] - xv) > 710.0 for xv in xs):
                    xs[0], pv[0] = 0.0, cc
            else:
                xs = [0.0] + [rng.uniform(0.2, 3) for _ in range(n - 1)]
                a = [rng.uniform(0.3, 2.0)]
                pv = [cc] + [cc + 1.0 / (a[0] + 1.0 / xv) for xv in xs[1:]]
            y = [fl(rng.uniform(0.2, 3)) for _ in range(n)]
            sg = [fl(10 ** rng.uniform(-1, 0.5)) for _ in range(n)]
            c = mkcase(cls, [fl(v) for v in xs], y, sg, "model", [fl(v) for v in pv], "finite-with-nonfinite-intermediate")
            c["pred"]["form"], c["pred"]["c"], c["a"] = form, cc, a
            cases.append(c)
            kinds.append("finite")
        # (b) special entries anywhere (also long vectors, several specials, complex dtype)
        bad_syms = ["nan", "pinf", "ninf", "cplx"]
        if cls == "PoissonLikelihood":
            bad_syms += ["neg", "zero"]
        if cls in ("CCLikelihood", "MockLikelihood"):
            bad_syms += ["neg"]
        for _ in range(nsp):
            n = rng.randint(1, 10 if ctx.quick else 40)
            x, y, s = data(rng, n, cls)
            vals = [entry("fin", rng) for _ in range(n)]
            for _ in range(rng.randint(1, 3)):
                vals[rng.randrange(n)] = entry(rng.choice(bad_syms), rng)
            if rng.random() < 0.1:
                c = mkcase(cls, x, y, s, "scalar", [entry(rng.choice(bad_syms), rng)], "special-scalar")
            else:
                c = mkcase(cls, x, y, s, "vec", vals, "special")
            cases.append(c)
            kinds.append("special")
        # the base-class exception fallback
        if cls not in ("CCLikelihood", "MockLikelihood"):
            x, y, s = data(rng, 3, cls)
            cases.append(mkcase(cls, x, y, s, "raise", [], "raise"))
            kinds.append("special")
    answers = run_impl(ctx, "cases", cases)
    # plus the correspondence sweep's answers, judged by the property directly
    for c, a in getattr(ctx, "sweep", []):
        vals = c["pred"]["vals"]
        n = len(c["y"])
        datafin = all(isinstance(v, list) and v[0] == "q" for v in c["y"]) and all(isinstance(v, list) and v[0] == "q" and v[1] > 0 for v in c["s"])
        shape_ok = (c["pred"]["kind"] == "scalar" and n >= 1) or (c["pred"]["kind"] == "vec" and len(vals) == n and n >= 1)
        if not (datafin and shape_ok):
            # outside the documented domain: only "never NaN"
            cases.append(c); answers.append(a); kinds.append("any")
            continue
        lim = 0 if c["cls"] in ("CCLikelihood", "MockLikelihood") else 1 if c["cls"] == "PoissonLikelihood" else None
        def good(v):
            if not (isinstance(v, list) and v[0] == "q"):
                return False
            return lim is None or (v[1] >= 0 if lim == 0 else v[1] > 0)
        cases.append(c); answers.append(a)
        kinds.append("finite" if all(good(v) for v in vals) else "special")
    # objects built by the real constructors from data files (finite, in-domain predictions)
    for c, a in getattr(ctx, "ctor", []):
        if "r" in a:
            cases.append(c); answers.append(a); kinds.append("finite")
    nviol = 0
    for c, a, kind in zip(cases, answers, kinds):
        r = a["r"]
        cls = c["cls"]
        if kind != "any":
            rep.case(key=("search", cls, c["tag"], kind), nontrivial=(kind == "special"))
        fail = None
        if r[0] == "nan":
            fail = ("C09:%s:returns-nan" % cls, "returned NaN", "never NaN")
        elif kind == "special" and r[0] != "inf":
            fail = ("C09:%s:special-not-inf" % cls, "a NaN/inf/complex/out-of-domain prediction did not give +inf", "+inf")
        elif kind == "finite":
            if r[0] != "fin":
                fail = ("C09:%s:formula" % cls, "finite in-domain prediction did not give a finite value", "documented sum")
            else:
                import mpmath as mp
                n = len(c["y"])
                vals = c["pred"]["vals"] * (n if c["pred"]["kind"] == "scalar" else 1)
                tot, mag = closed_form(cls, [tofloat(v) for v in c["y"]], [tofloat(v) for v in c["s"]], [tofloat(v) for v in vals])
                got = float.fromhex(r[1])
                if abs(mp.mpf(got) - tot) > mp.mpf(10) ** -12 * mag + mp.mpf(10) ** -300:
                    fail = ("C09:%s:formula" % cls, "returned value differs from the documented closed form", "%s (documented closed form)" % mp.nstr(tot, 17))
        if fail:
            nviol += 1
            if nviol <= 5:
                got = float.fromhex(r[1]) if r[0] == "fin" else r
                rep.fail("failing-input", "%s.negloglike: %s" % (cls, fail[1]), fail[0], input=show(c), observed=got, expected=fail[2])
    # (c) several evaluations on ONE object (the pipeline evaluates every function of a library on the same likelihood object):
    #     every call returns the documented value for the data the object was built with -- also after the identity model `x`,
    #     whose lambdified function returns the object's own x array
    seqs = []
    for cls in CLASSES:
        for _ in range(6 if ctx.quick else 60):
            n = rng.randint(2, 8)
            lo_ = 1
            x = [dy(rng, lo_, 64) for _ in range(n)]
            y = [dy(rng, 1, 120) for _ in range(n)]
            sg = [dy(rng, 1, 40, 8) for _ in range(n)]
            steps = []
            for _k in range(rng.randint(2, 5)):
                if rng.random() < 0.4:
                    steps.append({"kind": "alias_x", "vals": []})
                else:
                    steps.append({"kind": "vec", "vals": [dy(rng, 1, 160) for _ in range(n)]})
            if not any(st["kind"] == "alias_x" for st in steps[:-1]):
                steps.insert(0, {"kind": "alias_x", "vals": []})
            seqs.append({"cls": cls, "x": x, "y": y, "s": sg, "steps": steps})
    sans = run_impl(ctx, "seq", seqs)
    nseqbad = 0
    for c, a in zip(seqs, sans):
        rep.case(key=("seq", c["cls"], len(c["steps"])), nontrivial=True)
        for k, (st, ra) in enumerate(zip(c["steps"], a["steps"])):
            import mpmath as mp
            vals = c["x"] if st["kind"] == "alias_x" else st["vals"]
            tot, mag = closed_form(c["cls"], [tofloat(v) for v in c["y"]], [tofloat(v) for v in c["s"]], [tofloat(v) for v in vals])
            r = ra["r"]
            bad = None
            if r[0] != "fin":
                bad = "returned %r for a finite in-domain prediction" % (r,)
            elif abs(mp.mpf(float.fromhex(r[1])) - tot) > mp.mpf(10) ** -12 * mag + mp.mpf(10) ** -300:
                bad = "returned %r, the documented value for the object's data is %s" % (float.fromhex(r[1]), mp.nstr(tot, 17))
            if bad and k > 0 and not a["steps"][k - 1]["data_unchanged"]:
                bad += " (an earlier call of the sequence modified the data stored in the object)"
            if bad:
                nseqbad += 1
                if nseqbad <= 3:
                    rep.fail("failing-input", "%s.negloglike, call %d of a sequence on one object (%s): %s" % (
                        c["cls"], k + 1, "identity model x" if st["kind"] == "alias_x" else "given prediction", bad),
                        "C09:%s:sequence" % c["cls"],
                        input={"class": c["cls"], "x": [pretty(v) for v in c["x"]], "y": [pretty(v) for v in c["y"]], "sigma": [pretty(v) for v in c["s"]],
                               "steps": [("x itself" if t["kind"] == "alias_x" else [pretty(v) for v in t["vals"]]) for t in c["steps"]]},
                        observed=ra, expected=mp.nstr(tot, 17))
                break
    # observations outside the property's statement (recorded, not judged)
    rep.extra["notes"] = [
        "CCLikelihood/MockLikelihood.get_pred have no try/except: a raising model function propagates out of negloglike "
        "(theorem C09_cc_exception_propagates; the sweep's `raise` cases observe it on the real classes)",
        "complex-dtype predictions whose imaginary parts are all 0 return the documented value as a complex128 (outside the model)",
    ]


def tofloat(v):
    if v[0] == "q":
        return v[1] / v[2]
    if v[0] == "f":
        return float.fromhex(v[1])
    raise ValueError(v)
