"""C12 -- printing an expression with ESRPrinter and reading the string back gives the same function."""
import json
import os
import subprocess
from concurrent.futures import ThreadPoolExecutor

import esrv

PROPS_V = "Props/C12.v"
# functions the hand-written model of this property was written against (normalised source stored under harness/corr/guards/;
# a difference is reported as broken-correspondence: the theorems then no longer speak about the current source)
SOURCE_GUARDS = [
    ("esr/generation/custom_printer.py", "ESRPrinter._print_Add"),
    ("esr/generation/custom_printer.py", "ESRPrinter._print_Mul"),
    ("esr/generation/custom_printer.py", "ESRPrinter._print_Pow"),
]

TRANSLATORS = []
IMPL = os.path.join(esrv.VERIF, "harness", "corr", "c12_impl.py")
CASES_PER_FILE = 700


def sizes(ctx):
    """(n_random, depth-3 cap (0 = all), max depth, shards)"""
    if ctx.quick:
        return 900, 700, 5, 4
    return 30000, 0, 5, 12


def run_shards(ctx):
    if getattr(ctx, "c12_out", None) is not None:
        return ctx.c12_out
    n_random, cap, maxd, nsh = sizes(ctx)
    procs = []
    for k in range(nsh):
        env = esrv.py_env(ctx.scratch)
        procs.append(subprocess.Popen([esrv.PY, IMPL, "all", str(ctx.seed), str(n_random), str(cap), str(maxd), str(k), str(nsh)],
                                      env=env, cwd=os.path.dirname(ctx.scratch), stdout=subprocess.PIPE,
                                      stderr=subprocess.PIPE, text=True))
    outs = []
    errs = []
    for k, p in enumerate(procs):
        try:
            o, e = p.communicate(timeout=3000)
        except subprocess.TimeoutExpired:
            p.kill()
            o, e = p.communicate()
            e += "\n[timeout]"
        if p.returncode != 0:
            errs.append("shard %d rc=%s: %s" % (k, p.returncode, e[-1500:]))
            continue
        try:
            outs.append(json.loads(o))
        except Exception as ex:
            errs.append("shard %d: bad JSON (%s): %s" % (k, ex, e[-800:]))
    ctx.c12_out = (outs, errs)
    return ctx.c12_out


def coq_str(s):
    assert '"' not in s and "\\" not in s
    return '"%s"' % s


def case_file(rows):
    items = []
    for r in rows:
        precs = "[" + "; ".join("%d" % p for p in r["precs"]) + "]"
        sh = "None" if r["shape"] is None else "Some (%s)" % r["shape"]
        items.append("(%s, %s, %s, %s)" % (r["sexpr"], coq_str(r["printed"]), precs, sh))
    return """From Coq Require Import ZArith NArith List String Bool.
From ESRV Require Import Common.Corr Model.Printer Model.PyParse.
Import ListNotations. Open Scope string_scope. Open Scope Z_scope.
Definition cases : list (sexpr * string * list Z * option pyast) := [
%s].
Definition opast_eqb (a b : option pyast) := match a, b with Some x, Some y => pyast_eqb x y | None, None => true | _, _ => false end.
Definition otoks_eqb (a : option (list token)) (b : list token) := match a with Some x => list_eqb token_eqb x b | None => false end.
Eval vm_compute in ("PRINT", failing (fun c => match c with (e, s, _, _) => String.eqb (print_string e) s end) cases).
Eval vm_compute in ("PREC", failing (fun c => match c with (e, _, ps, _) => list_eqb Z.eqb (precs e) ps end) cases).
Eval vm_compute in ("LEX", failing (fun c => match c with (e, s, _, _) => otoks_eqb (lex s) (toks e) end) cases).
Eval vm_compute in ("PARSE", failing (fun c => match c with (e, s, _, sh) => opast_eqb (parse_string s) sh end) cases).
Eval vm_compute in ("PARSED", List.length (filter (fun c => match c with (_, _, _, Some _) => true | _ => false end) cases)).
Eval vm_compute in ("FRAG", List.length (filter (fun c => match c with (e, _, _, _) => fragment e end) cases)).
""" % ";\n".join(items)


def parse_failing(flat, tag):
    """indices after ("TAG", [ ... ]) in whitespace-normalised coqc output; None if not found"""
    import re
    m = re.search(r'\("%s"(?:%%string)?,\s*\[([^\]]*)\]' % tag, flat)
    if not m:
        return None
    body = m.group(1).strip()
    if not body:
        return []
    return [int(t.replace("%nat", "")) for t in body.split(";")]


def correspondence(ctx):
    rep = ctx.report
    outs, errs = run_shards(ctx)
    for e in errs:
        rep.fail("broken-correspondence", "implementation driver failed: " + e[:300], "C12:driver", observed=e,
                 theorem="c12_impl.py")
    rows = []
    refused = {}
    impure = []
    total = 0
    for o in outs:
        c = o["corr"]
        rows += c["rows"]
        total += c["total"]
        for k, v in c["refused"].items():
            refused[k] = refused.get(k, 0) + v
        impure += c["impure"]
    ctx.c12_rows = rows
    rep.extra["generated_expressions"] = total
    rep.extra["refused_by_dumper"] = refused
    if total and sum(refused.values()) > 0.05 * total:
        rep.fail("broken-correspondence", "the dumper refuses more than 5%% of the generated expressions: %r" % refused,
                 "C12:dump-refused", observed=refused, theorem="c12_impl.dump")
    # purity, observed on the implementation
    ctx.c12_impure = impure
    # model vs implementation, in Coq
    shards = [rows[i:i + CASES_PER_FILE] for i in range(0, len(rows), CASES_PER_FILE)]

    def one(sh):
        rc, out = esrv.coq_run(case_file(sh), timeout=1500)
        return rc, " ".join(out.split())
    with ThreadPoolExecutor(max_workers=6) as ex:
        results = list(ex.map(one, shards))
    nbad = 0
    nfrag = 0
    import re
    for sh, (rc, flat) in zip(shards, results):
        m = re.search(r'\("FRAG"(?:%string)?,\s*(\d+)', flat)
        if m:
            nfrag += int(m.group(1))
        for tag, what in (("PRINT", "Printer.print_string differs from ESRPrinter().doprint byte for byte"),
                          ("PREC", "Printer.prec differs from sympy's precedence()"),
                          ("LEX", "PyParse.lex of the printed string is not the model's token list"),
                          ("PARSE", "PyParse.parse_string shape differs from CPython ast.parse")):
            idx = parse_failing(flat, tag) if rc == 0 else None
            if idx is None:
                rep.fail("broken-correspondence", "Coq case file did not evaluate (%s)" % tag, "C12:corr-coq",
                         observed=flat[-1200:], theorem="cases.v")
                nbad += 1
                break
            for i in idx[:3]:
                r = sh[i]
                nbad += 1
                if nbad <= 12:
                    rep.fail("broken-correspondence", "%s: %s" % (what, r["printed"]), "C12:corr-" + tag.lower(),
                             input={"srepr": r["srepr"], "sexpr": r["sexpr"]},
                             observed={"implementation": r["printed"], "precs": r["precs"], "python_ast": r["shape"]},
                             theorem="Model/Printer.v, Model/PyParse.v")
    for r in rows:
        rep.case(key=r["printed"], nontrivial=(r["tag"] != "d1"),
                 sample={"srepr": r["srepr"], "print_order_dump": r["sexpr"], "printed": r["printed"]} if r["tag"].startswith("r") else None)
    rep.traces += len(rows)
    rep.extra["expressions_inside_proved_fragment"] = nfrag
    rep.extra["expressions_compared"] = len(rows)
    n_random, cap, maxd, nsh = sizes(ctx)
    rep.rule = ("sympy expressions over ESR's vocabulary (x positive; a0,a1,a2 real; integers, rationals, E; neg, inv, sqrt, Abs, exp, log, sin, "
                "square, sqrt_abs, log_abs; add, sub, mul, div, pow, pow_abs; n-ary sums/products with rational coefficients): exhaustive to depth 2 "
                "over 17 leaves, depth 3 over 5 leaves (%s), %d random of depth 4..%d; each dumped in print order with the printer's own calls, "
                "printed by the real ESRPrinter and by Printer.print_string in Coq (byte comparison), precedences compared node by node, "
                "PyParse compared with CPython ast.parse" % ("sample of %d" % cap if cap else "all", n_random, maxd))


def search(ctx):
    rep = ctx.report
    outs, errs = run_shards(ctx)
    checked = 0
    skipped = 0
    for o in outs:
        s = o["search"]
        checked += s["checked"]
        skipped += s["skipped_fragment"] + s["skipped_undefined"]
        for f in s["failures"][:3]:
            if f["kind"] == "printer-raised":
                rep.fail("failing-input", "ESRPrinter raised on %s: %s" % (f["srepr"], f["error"]), "C12:printer-raises",
                         input={"srepr": f["srepr"]}, observed=f["error"], expected="a string")
            else:
                rep.fail("failing-input",
                         "printed string %r read back with the %s table differs from the original at a generic point" % (f["printed"], f["table"]),
                         "C12:roundtrip:%s" % f["table"],
                         input={"srepr": f["srepr"], "printed": f["printed"], "table": f["table"], "point": f["point"]},
                         observed={"reparsed_value": f["reparsed"], "reparsed": f["reparsed_srepr"]},
                         expected={"original_value": f["original"]})
        for f in s["unparsable"][:3]:
            rep.fail("failing-input", "printed string %r does not parse with the %s table: %s" % (f["printed"], f["table"], f["error"]),
                     "C12:unparsable:%s" % f["table"], input={"srepr": f["srepr"], "printed": f["printed"], "table": f["table"]},
                     observed=f["error"], expected="an expression")
        for smp in s["samples"][:1]:
            rep.case(key=("search", smp["printed"]), sample=smp)
    for f in getattr(ctx, "c12_impure", [])[:3]:
        rep.fail("failing-input", "the same expression printed to different strings: %r" % (f["prints"],), "C12:impure",
                 input={"srepr": f["srepr"]}, observed=f["prints"], expected="one string")
    obs = [o["search"].get("observations") for o in outs if o["search"].get("observations")]
    if obs:
        rep.extra["outside_domain_observations"] = obs[0]
    rep.extra["roundtrip_checked"] = checked
    rep.extra["roundtrip_skipped_outside_fragment_or_undefined"] = skipped
    rep.evaluations += checked


TRUSTED = [
    "Coq 8.16.1 kernel + vm_compute (no native_compute)",
    "Print Assumptions: C12_lex_print and C12_parse_fuel_enough are closed under the global context; C12_parse_print_level, C12_parse_print, "
    "C12_print_roundtrip and C12_nested_add_refuted use the standard library's Reals axioms ClassicalDedekindReals.sig_not_dec, "
    "ClassicalDedekindReals.sig_forall_dec, FunctionalExtensionality.functional_extensionality_dep and Classical_Prop.classic (via Rpower/ln/sqrt)",
    "hand-written model coq/Model/Printer.v of ESRPrinter._print_Add/_print_Mul (evaluated path)/_print_Pow/atoms/functions and of "
    "sympy's precedence(); tied each run by byte-for-byte comparison with the real printer on generated expressions",
    "hand-written model coq/Model/PyParse.v of Python's expression grammar for + - * / ** unary-minus calls and parentheses; tied each run "
    "by comparing its tree with CPython's ast.parse on every printed string",
    "sympy's ordering of Add terms / Mul factors and its automatic evaluation are inputs (the dump is taken with the printer's own calls)",
    "the symbol tables' real-number meaning (pow -> |a|^b, fitting sqrt/log wrap Abs, generation sqrt/log do not) is transcribed by hand from "
    "sympy_symbols.py and Likelihood.run_sympify; the search re-parses with the real tables",
]
ASSUMPTIONS = [
    "expressions are evaluated sympy trees over Add Mul Pow Symbol Integer Rational Exp1 and applied functions; the unevaluated-Mul branch of _print_Mul "
    "(custom_printer.py 276-318) is outside the model and the dumper refuses trees that would take it",
    "proved fragment (Model/PyParse.v: fragment = wf && names_ok): no Add directly inside an Add and no Mul directly inside a Mul (sympy flattens both), "
    "functions log/exp/sin/cos/Abs of one argument, no symbol called E, no zoo, a Mul factor b**-1 has no bare Rational base, and a Mul factor with base 1/q "
    "and a negative symbolic exponent (as_base_exp quirk) is left to the correspondence and the numeric search; the evidence field "
    "expressions_inside_proved_fragment counts the generated expressions inside it",
    "real semantics: division by a non-zero number, log of a positive number, non-integer powers of a positive base (elsewhere the expression is "
    "'undefined' and nothing is claimed); definedness of the PARSED tree is not proved separately (Coq's total real functions make both sides equal anyway)",
    "outside the domain, recorded not judged: an unevaluated Add directly inside an Add is mis-printed (C12_nested_add_refuted; evidence outside_domain_observations)",
]
LEVEL_TEXT = ("Machine-checked theorems (Coq) on a model of ESRPrinter and of Python's expression grammar: the printed token string of every expression of the fragment "
              "parses back, at every grammar level the printer relies on, to a tree whose real-number denotation under both symbol tables equals the expression's; "
              "the model is tied to the real printer byte for byte and to CPython's parser on generated expressions every run.")
LEVEL_NOTE = ("Trusted: Coq kernel; hand-written Printer.v / PyParse.v tied by correspondence; sympy's canonical ordering is an input. Reals axioms from the standard library.")
TECHNIQUE = "Coq proof (mutual induction over Add/Mul/Pow: parenthesisation adequacy) + byte-exact model/implementation correspondence + numeric round-trip search with the real symbol tables"
