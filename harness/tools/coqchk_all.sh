#!/bin/bash
# Re-check every compiled property file (and everything it depends on) with the independent checker coqchk and list the axioms.
# usage: harness/tools/coqchk_all.sh   (after ./check --setup); output: coqchk.log in the current directory
cd "$(dirname "$0")/../../coq"
mods=$(ls Props/*.v | sed 's|Props/\(.*\)\.v|ESRV.Props.\1|')
( time timeout 14000 coqchk -silent -o -Q . ESRV $mods ) > ../coqchk.log 2>&1
tail -60 ../coqchk.log
