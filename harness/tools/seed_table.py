#!/venv/bin/python
"""seed_table.py: print a markdown table of /verif/seeded/*/meta.json (name, property, what it needs, how it is detected)."""
import glob
import json
import os
import re

rows = []
for d in sorted(glob.glob("/verif/seeded/*")):
    mp = os.path.join(d, "meta.json")
    if not os.path.exists(mp):
        continue
    m = json.load(open(mp))
    notes = open(os.path.join(d, "notes.md")).read() if os.path.exists(os.path.join(d, "notes.md")) else ""
    title = ""
    for l in notes.splitlines():
        l = l.strip()
        if l.startswith("#"):
            title = re.sub(r"^#+\s*", "", l)
            title = re.sub(r"^(Seeded change|Change|Seed)\s*\d*\s*[—:–-]*\s*", "", title).strip()
            break
    if not title:
        title = (m.get("needs") or m.get("what") or "")[:90]
    det = "replay" if m.get("with_failing_input") else ("broken-only" if m.get("detected") else "missed by this property's check")
    if m.get("detected_by"):
        det += "; " + m["detected_by"]
    rows.append((os.path.basename(d), m.get("property", "?"), title[:110].replace("|", "/"), det))
print("| Seed | Property | Change | Detected (latest run of the property's quick check) |")
print("|---|---|---|---|")
for r in rows:
    print("| %s | %s | %s | %s |" % r)
print("\n%d seeded changes" % len(rows))
