#!/bin/bash
# Re-run every recorded seeded change against the current checks (sequentially: the checks share coq/Gen and the build lock) and
# rewrite seeded/<name>/meta.json.  usage: harness/tools/revalidate_seeds.sh   (hours; run it from a `vp run` snapshot)
cd "$(dirname "$0")/../.."
mkdir -p /tmp/seedtools; [ -d /tmp/seedtools/fakempi_single ] || cp -r harness/fakempi/single /tmp/seedtools/fakempi_single; [ -d /tmp/seedtools/fakempi_multi ] || cp -r harness/fakempi/multi /tmp/seedtools/fakempi_multi
for d in seeded/*/; do
  name=$(basename $d)
  prop=$(/venv/bin/python -c "import json; print(json.load(open('$d/meta.json'))['property'])")
  /venv/bin/python harness/tools/try_seed.py $prop $d $name 2>&1 | grep '^{' | cut -c1-220
done
