#!/venv/bin/python
"""update_guards.py [root=/repo]: (re)write harness/corr/guards/*.txt from the GUARDED lists of all property modules.
Run after a deliberate change to /repo (a fix: commit) once the models have been checked against it."""
import importlib
import json
import os
import sys

HERE = os.path.dirname(os.path.dirname(os.path.abspath(__file__)))
sys.path.insert(0, os.path.join(HERE, "lib"))
sys.path.insert(0, HERE)
import esrv  # noqa: E402

root = sys.argv[1] if len(sys.argv) > 1 else "/repo"
os.makedirs(os.path.join(HERE, "corr", "guards"), exist_ok=True)
seen = set()
for pid in json.load(open(os.path.join(HERE, "claimed.json"))):
    m = importlib.import_module("props." + pid)
    for rel, qual in getattr(m, "SOURCE_GUARDS", []):
        if (rel, qual) in seen:
            continue
        seen.add((rel, qual))
        t = esrv.guard_text(root, rel, qual)
        if t is None:
            print("NOT FOUND", rel, qual)
            continue
        if esrv.write_if_changed(esrv.guard_path(rel, qual), t):
            print("updated", rel, qual)
print(len(seen), "guarded functions")
