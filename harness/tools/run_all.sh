#!/bin/bash
# run every claimed check once on the unchanged tree (refreshes evidence); usage: run_all.sh [quick|thorough]
cd "$(dirname "$0")/../.."
tier=${1:-quick}
for p in $(/venv/bin/python -c "import json; print(' '.join(json.load(open('harness/claimed.json'))))" 2>/dev/null); do
  ./check $p --tier $tier 2>&1 | grep -v "^WARNING conda" | grep -E "VIOLATION|KNOWN-FINDING|^\[C" | cut -c1-200
done
