#!/venv/bin/python
"""try_seed.py <PROP> <seed dir containing patch.diff demo.py notes.md> <name> [--tier quick]
Confirms a seeded change (applies cleanly to /repo HEAD in a private copy, pinned tests pass, demo passes on the
original and fails on the change), runs ./check PROP against the changed copy (ESRV_REPO), and stores
patch, demo and meta.json under /verif/seeded/<name>/ ."""
import json
import os
import shutil
import subprocess
import sys
import time

prop, sdir, name = sys.argv[1:4]
tier = sys.argv[5] if len(sys.argv) > 5 and sys.argv[4] == "--tier" else "quick"
VERIF = os.path.dirname(os.path.dirname(os.path.dirname(os.path.abspath(__file__))))
work = "/var/tmp/seedtry.%d" % os.getpid()
orig, mut = work + "/orig", work + "/mut"
os.makedirs(work)
for d in (orig, mut):
    subprocess.check_call(["rsync", "-a", "--exclude", ".git", "--exclude", "esr/function_library", "/repo/", d + "/"])
subprocess.check_call(["git", "init", "-q"], cwd=mut)
r = subprocess.run(["git", "apply", "--whitespace=nowarn", os.path.abspath(os.path.join(sdir, "patch.diff"))], cwd=mut, capture_output=True, text=True)
meta = {"property": prop, "name": name, "source_dir": sdir, "repo_head": subprocess.run(["git", "-C", "/repo", "rev-parse", "--short", "HEAD"], capture_output=True, text=True).stdout.strip()}
meta["applies"] = r.returncode == 0
if r.returncode != 0:
    meta["apply_error"] = r.stderr[-500:]
env = dict(os.environ, PYTHONDONTWRITEBYTECODE="1", PYTHONHASHSEED="0")


def tests(d):
    p = subprocess.run(["/venv/bin/python", "-m", "pytest", "-q", "-p", "no:cacheprovider", "tests/test_printer.py"], cwd=d, capture_output=True, text=True, env=env)
    return p.stdout.strip().splitlines()[-1] if p.stdout.strip() else p.stderr[-200:]


def demo(d):
    # demos locate the project relative to their own path (<worktree>/_seed/<k>/demo.py) or by the author's worktree path
    src = open(os.path.join(sdir, "demo.py")).read()
    src = src.replace("/tmp/seed_%s" % prop, d)
    ddir = os.path.join(d, "_seed", "x")
    os.makedirs(ddir, exist_ok=True)
    path = os.path.join(ddir, "demo.py")
    open(path, "w").write(src)
    e = dict(env, PYTHONPATH="/tmp/seedtools/fakempi_single:" + d, ESR_ROOT=d)
    t0 = time.time()
    try:
        p = subprocess.run(["/venv/bin/python", path], cwd=d, capture_output=True, text=True, env=e, timeout=900)
        return p.returncode, (p.stdout + p.stderr)[-600:], round(time.time() - t0, 1)
    except subprocess.TimeoutExpired:
        return -9, "timeout", 900


if meta["applies"]:
    meta["tests_mutant"] = tests(mut)
    meta["demo_original"] = demo(orig)
    meta["demo_mutant"] = demo(mut)
    meta["confirmed"] = ("117 passed" in meta["tests_mutant"]) and meta["demo_original"][0] == 0 and meta["demo_mutant"][0] != 0
    t0 = time.time()
    evf = os.path.join(VERIF, "evidence", prop + ".json")
    evb = open(evf).read() if os.path.exists(evf) else None      # evidence files must come from runs on the unchanged tree
    p = subprocess.run(["./check", prop, "--tier", tier], cwd=VERIF, capture_output=True, text=True, env=dict(os.environ, ESRV_REPO=mut))
    if evb is not None:
        open(evf, "w").write(evb)
    out = p.stdout + p.stderr
    meta["check_cmd"] = "ESRV_REPO=<changed copy> ./check %s --tier %s" % (prop, tier)
    meta["check_exit"] = p.returncode
    meta["check_wall_s"] = round(time.time() - t0)
    meta["check_lines"] = [l for l in out.splitlines() if l.startswith("VIOLATION") or l.startswith("KNOWN-FINDING") or l.startswith("  ") or l.startswith("[")][:14]
    meta["detected"] = p.returncode == 1 and any(l.startswith("VIOLATION property=%s" % prop) for l in out.splitlines())
    meta["with_failing_input"] = any(l.startswith("VIOLATION") and "no-failing-input-found" not in l for l in out.splitlines())
dst = os.path.join(VERIF, "seeded", name)
os.makedirs(dst, exist_ok=True)
for f in ("patch.diff", "demo.py", "notes.md"):
    if os.path.exists(os.path.join(sdir, f)) and os.path.abspath(sdir) != os.path.abspath(dst):
        shutil.copy(os.path.join(sdir, f), os.path.join(dst, f))
json.dump(meta, open(os.path.join(dst, "meta.json"), "w"), indent=1)
shutil.rmtree(work, ignore_errors=True)
print(json.dumps({k: meta.get(k) for k in ("name", "applies", "tests_mutant", "confirmed", "detected", "with_failing_input", "check_exit", "check_wall_s")}))
for l in meta.get("check_lines", [])[:8]:
    print("   ", l[:220])
