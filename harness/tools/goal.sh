#!/bin/bash
# usage: goal.sh <file.v> <line>   -- show the proof state after line <line> (run from /verif/coq)
f=$1; n=$2
tmp=$(mktemp /var/tmp/goalXXXX.v)
head -n $n $f > $tmp
echo "Show. Abort All." >> $tmp
timeout ${3:-120} coqc -Q ${COQROOT:-/verif/coq} ESRV -w -all $tmp 2>&1 | grep -v "^WARNING conda" | head -${4:-80}
rm -f $tmp ${tmp%.v}.vo ${tmp%.v}.glob ${tmp%.v}.vok ${tmp%.v}.vos /var/tmp/.$(basename ${tmp%.v}).aux
