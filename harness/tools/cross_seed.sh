#!/bin/bash
# cross_seed.sh <seed name under /verif/seeded> <PROP> [tier]  -- run ./check PROP against /repo + that seed's patch (private copy);
# the property's evidence file is put back afterwards (evidence must come from the unchanged tree)
seed=$1; prop=$2; tier=${3:-quick}
d=/var/tmp/xseed.$$; mkdir -p $d
rsync -a --exclude .git --exclude esr/function_library /repo/ $d/
V="$(cd "$(dirname "$0")/../.." && pwd)"
(cd $d && git init -q && git apply --whitespace=nowarn $V/seeded/$seed/patch.diff) || { echo "patch does not apply"; rm -rf $d; exit 2; }
cp $V/evidence/$prop.json $d/.evidence.bak 2>/dev/null
cd $V && ESRV_REPO=$d ./check $prop --tier $tier 2>&1 | grep -v "^WARNING conda" | grep -E "^VIOLATION|^KNOWN|^  |^\[" | cut -c1-260
[ -f $d/.evidence.bak ] && cp $d/.evidence.bak $V/evidence/$prop.json
rm -rf $d
