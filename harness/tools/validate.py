import json, jsonschema, glob, sys
jsonschema.validate(json.load(open('/verif/MANIFEST.json')), json.load(open('/root/.vp/MANIFEST.schema.json')))
for f in glob.glob('/verif/evidence/*.json'):
    jsonschema.validate(json.load(open(f)), json.load(open('/root/.vp/EVIDENCE.schema.json')))
    e=json.load(open(f)); c=e['coverage']
    print(f, 'ok', c.get('obligations'), c.get('discharged'), c.get('evaluations'), c.get('distinct_nontrivial'))
print('manifest valid')
