"""Implementation-side driver for C01 (runs against the scratch copy, single-rank MPI stand-in).

Commands (JSON on stdout):
  check_tree <maxlen> <json list of extra strings>   real check_tree on every string over {0,1,2} of length <= maxlen + extras
  shapes <nmax>                                      real get_allowed_shapes(n) for n = 0..nmax
  gen   (stdin: json [[n, [b0,b1,b2]], ...])         real generate_equations -> parsed orig_trees_<n>.txt
"""
import ast
import contextlib
import io
import itertools
import json
import os
import re
import shutil
import sys
import tempfile


def o2n(v):
    return 0 if v is None else int(v) + 1


def enc_check(g, np, s):
    """Same flat encoding as Model/Shapes.v: enc_check."""
    try:
        success, part, tree = g.check_tree(np.array(s, dtype=int))
    except Exception as e:
        return {"exc": type(e).__name__, "enc": [1]}
    out = [0, 1 if success else 0]
    if part is None:
        out.append(0)
    else:
        part = [int(v) for v in part]
        out.append(len(part) + 1)
        out += part
    if len(tree) != len(s):
        return {"exc": "tree-length", "enc": [9]}
    for nd in tree:
        out += [int(nd.type), o2n(nd.parent), o2n(nd.left), o2n(nd.right)]
    return {"exc": None, "enc": out, "success": bool(success)}


def cmd_check_tree(maxlen, extras):
    import numpy as np
    import esr.generation.generator as g
    rows = []
    for n in range(0, maxlen + 1):
        for t in itertools.product((0, 1, 2), repeat=n):
            r = enc_check(g, np, list(t))
            rows.append([list(t), r["enc"], r["exc"]])
    for s in extras:
        r = enc_check(g, np, list(s))
        rows.append([list(s), r["enc"], r["exc"]])
    json.dump(rows, sys.stdout)


def cmd_shapes(nmax):
    import esr.generation.generator as g
    out = []
    for n in range(0, nmax + 1):
        try:
            with contextlib.redirect_stdout(io.StringIO()):
                c = g.get_allowed_shapes(n)
            out.append([n, [[int(v) for v in row] for row in c]])
        except Exception as e:
            out.append([n, "EXC:" + type(e).__name__])
    json.dump(out, sys.stdout)


LAB = re.compile(r"'([^']*)'")


def parse_tree_file(path):
    """orig_trees_<n>.txt: one pprint'ed str(numpy array of labels) per line."""
    res = []
    with open(path) as f:
        for line in f:
            line = line.rstrip("\n")
            if not line:
                continue
            try:
                s = ast.literal_eval(line)
                if not isinstance(s, str) or not s.startswith("[") or not s.endswith("]"):
                    raise ValueError
                labs = LAB.findall(s)
                # everything outside the quoted labels must be brackets / whitespace
                if re.sub(r"\s+", "", LAB.sub("", s)) != "[]":
                    raise ValueError
                res.append(labs)
            except Exception:
                res.append({"malformed": line})
    return res


def cmd_gen(cases):
    import esr.generation.generator as g
    out = []
    root = tempfile.mkdtemp(prefix="c01g.", dir=os.environ.get("ESRV_TMP", "/var/tmp"))
    try:
        for n, basis in cases:
            d = tempfile.mkdtemp(dir=root)
            buf = io.StringIO()
            try:
                with contextlib.redirect_stdout(buf):
                    g.generate_equations(n, basis, d)
                trees = parse_tree_file(os.path.join(d, "orig_trees_%d.txt" % n))
                m = re.search(r"Original number of trees: (\d+)", buf.getvalue())
                rec = {"n": n, "basis": basis, "trees": trees, "announced": int(m.group(1)) if m else None}

                def nlines(name):
                    p = os.path.join(d, name % n)
                    return sum(1 for _ in open(p)) if os.path.exists(p) else None
                rec["files1"] = {k: nlines(k + "_%d.txt") for k in ("orig_trees", "extra_trees", "trees", "aifeyn", "orig_aifeyn", "extra_aifeyn")}
                if n <= 4:
                    # a second generation into the same, now populated, directory (re-running a job, refreshing a library)
                    with contextlib.redirect_stdout(io.StringIO()):
                        g.generate_equations(n, basis, d)
                    rec["files2"] = {k: nlines(k + "_%d.txt") for k in ("orig_trees", "extra_trees", "trees", "aifeyn", "orig_aifeyn", "extra_aifeyn")}
                    rec["trees2_same"] = parse_tree_file(os.path.join(d, "orig_trees_%d.txt" % n)) == trees
                out.append(rec)
            except Exception as e:
                out.append({"n": n, "basis": basis, "exc": "%s: %s" % (type(e).__name__, e)})
            shutil.rmtree(d, ignore_errors=True)
    finally:
        shutil.rmtree(root, ignore_errors=True)
    json.dump(out, sys.stdout)


if __name__ == "__main__":
    cmd = sys.argv[1]
    if cmd == "check_tree":
        cmd_check_tree(int(sys.argv[2]), json.loads(sys.stdin.read() or "[]"))
    elif cmd == "shapes":
        cmd_shapes(int(sys.argv[2]))
    elif cmd == "gen":
        cmd_gen(json.loads(sys.stdin.read()))
