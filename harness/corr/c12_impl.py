"""C12 implementation-side driver (run against the scratch copy with /venv/bin/python).

  c12_impl.py corr  <seed> <n_random> <depth3_cap> <max_depth>   -> JSON rows for the Coq correspondence
  c12_impl.py search <seed> <n_random> <depth3_cap> <max_depth>  -> JSON result of the round-trip search

Expressions are built with ordinary (evaluated) sympy operations over ESR's vocabulary; each one is
dumped *in print order* using the very calls ESRPrinter makes (_as_ordered_terms, as_coeff_Mul,
_keep_coeff, as_ordered_factors), so sympy's ordering is an input of the model, not part of it.
"""
import ast
import itertools
import json
import random
import signal
import sys
import warnings

import esrv

import sympy
from sympy import S, Add, Mul, Pow, Integer, Rational, Symbol, Abs, exp, log, sin, srepr
from sympy.core.function import Function, Application
from sympy.core.mul import _keep_coeff
from sympy.core.numbers import Number
from sympy.printing.precedence import precedence

from esr.generation.custom_printer import ESRPrinter
import esr.fitting.sympy_symbols as sympy_symbols

warnings.filterwarnings("ignore")

x = Symbol('x', positive=True)
a0, a1, a2 = sympy.symbols('a0 a1 a2', real=True)


class Refuse(Exception):
    pass


class TimeUp(Exception):
    pass


def _alarm(signum, frame):
    raise TimeUp()


signal.signal(signal.SIGALRM, _alarm)


def limited(seconds, f, *a):
    """run f(*a) under a wall-clock limit; TimeUp is raised inside f when it expires"""
    signal.setitimer(signal.ITIMER_REAL, seconds)
    try:
        return f(*a)
    finally:
        signal.setitimer(signal.ITIMER_REAL, 0)


# ------------------------------------------------------------------ dump in print order
def coqz(z):
    z = int(z)
    return "%d" % z if z >= 0 else "(%d)" % z


def dump(expr, precs, pr):
    """sexpr literal (Coq syntax) of `expr` as ESRPrinter sees it; appends precedence() of every
    dumped node in pre-order to `precs`."""
    precs.append(int(precedence(expr)))
    if isinstance(expr, Add):
        terms = pr._as_ordered_terms(expr, order=None)
        return "SAdd [" + "; ".join(dump(t, precs, pr) for t in terms) + "]"
    if isinstance(expr, Mul):
        args = expr.args
        if (len(args) > 0 and args[0] is S.One) or (len(args) > 1 and any(
                isinstance(a, Number) or a.is_Pow and all(ai.is_Integer for ai in a.args) for a in args[1:])):
            raise Refuse("unevaluated Mul path")
        c, e = expr.as_coeff_Mul()
        neg = bool(c < 0)
        e2 = _keep_coeff(-c, e) if neg else expr
        fs = e2.as_ordered_factors()
        if not all(f.is_commutative for f in fs):
            raise Refuse("noncommutative")
        return "SMul %s [" % ("true" if neg else "false") + "; ".join(dump(f, precs, pr) for f in fs) + "]"
    if isinstance(expr, Pow):
        if not expr.is_commutative:
            raise Refuse("noncommutative")
        if expr.exp.is_integer and not expr.exp.is_Integer:
            raise Refuse("symbolic integer exponent")
        b, ex = expr.base, expr.exp
        if (b.is_Rational and b.p == 1 and b.q != 1 and ex.is_Mul and ex.args[0] is S.NegativeOne and len(ex.args) > 2):
            # as a Mul factor apow would build Mul(-g1, g2, ..) from the raw argument order: not modelled
            raise Refuse("unit-fraction base with exponent -g1*g2*..")
        return "SPow (%s) (%s)" % (dump(b, precs, pr), dump(ex, precs, pr))
    if isinstance(expr, Integer):
        return "SInt %s" % coqz(expr.p)
    if isinstance(expr, Rational):
        return "SRat %s %s" % (coqz(expr.p), coqz(expr.q))
    if isinstance(expr, Symbol):
        return 'SSym "%s"' % expr.name
    if expr is S.Exp1:
        return "SE"
    if expr is S.ComplexInfinity:
        return "SZoo"
    if isinstance(expr, Function) and isinstance(expr, Application):
        return 'SFun "%s" [' % expr.func.__name__ + "; ".join(dump(a, precs, pr) for a in expr.args) + "]"
    raise Refuse("node class %s" % type(expr).__name__)


# ------------------------------------------------------------------ CPython AST shape as a pyast literal
BIN = {ast.Add: "OAdd", ast.Sub: "OSub", ast.Mult: "OMul", ast.Div: "ODiv", ast.Pow: "OPow"}


def shape(n):
    if isinstance(n, ast.Expression):
        return shape(n.body)
    if isinstance(n, ast.BinOp) and type(n.op) in BIN:
        return "PBin %s (%s) (%s)" % (BIN[type(n.op)], shape(n.left), shape(n.right))
    if isinstance(n, ast.UnaryOp) and isinstance(n.op, ast.USub):
        return "PNeg (%s)" % shape(n.operand)
    if isinstance(n, ast.Constant) and isinstance(n.value, int) and not isinstance(n.value, bool):
        return "PNum %d%%N" % n.value
    if isinstance(n, ast.Name):
        return 'PName "%s"' % n.id
    if isinstance(n, ast.Call) and isinstance(n.func, ast.Name) and not n.keywords:
        return 'PCall "%s" [' % n.func.id + "; ".join(shape(a) for a in n.args) + "]"
    raise Refuse("python ast node %s" % type(n).__name__)


# ------------------------------------------------------------------ expression generator
LEAVES_SMALL = [x, a0, Integer(2), Integer(-1), Rational(1, 2)]
LEAVES_FULL = [x, a0, a1, a2, Integer(1), Integer(2), Integer(3), Integer(-1), Integer(-2), Integer(0),
               Rational(1, 2), Rational(-1, 2), Rational(3, 2), Rational(-2, 3), Rational(1, 3), S.Exp1, Integer(10)]

UNARY = [
    ("neg", lambda u: -u),
    ("inv", lambda u: 1 / u),
    ("sqrt", lambda u: Pow(u, Rational(1, 2))),
    ("Abs", lambda u: Abs(u)),
    ("exp", lambda u: exp(u)),
    ("log", lambda u: log(u)),
    ("sin", lambda u: sin(u)),
    ("square", lambda u: u * u),
    ("sqrt_abs", lambda u: sympy.sqrt(Abs(u, evaluate=False))),
    ("log_abs", lambda u: log(Abs(u, evaluate=False))),
]
BINARY = [
    ("add", lambda u, v: u + v),
    ("sub", lambda u, v: u - v),
    ("mul", lambda u, v: u * v),
    ("div", lambda u, v: u / v),
    ("pow", lambda u, v: Pow(u, v)),
    ("pow_abs", lambda u, v: Pow(Abs(u, evaluate=False), v)),
]


BAD_TYPES = (sympy.Float, sympy.re, sympy.im, sympy.arg, sympy.sign, sympy.Piecewise, sympy.polar_lift,
             sympy.exp_polar, sympy.AccumBounds, sympy.Order)
BAD_ATOMS = (S.NaN, S.Infinity, S.NegativeInfinity, S.ImaginaryUnit, S.Pi)


def ok_expr(e):
    if e is None:
        return False
    if e is not S.ComplexInfinity and e.has(S.ComplexInfinity):
        return False
    for n in sympy.preorder_traversal(e):
        if isinstance(n, BAD_TYPES) or any(n is b for b in BAD_ATOMS):
            return False
        if isinstance(n, Rational) and (abs(n.p) >= 10 ** 9 or n.q >= 10 ** 9):
            return False   # ESR never has such literals; str() of huge ints also hits CPython's digit limit
    try:
        srepr(e)   # sympy's own ordering code raises on a few unevaluated shapes such as Abs(0)**-1
    except Exception:
        return False
    return True


def safe(f, *a):
    try:
        e = limited(2.0, f, *a)
    except (Exception, TimeUp):
        return None
    return e if ok_expr(e) else None


def level_up(prev_all, prev_new, unary, binary):
    """all expressions one level deeper: unary on the newest level, binary with at least one
    operand from the newest level"""
    out = []
    for _, f in unary:
        for u in prev_new:
            out.append(safe(f, u))
    for _, f in binary:
        for u in prev_new:
            for v in prev_all:
                out.append(safe(f, u, v))
        newset = set(prev_new)
        for u in prev_all:
            if u in newset:
                continue
            for v in prev_new:
                out.append(safe(f, u, v))
    return [e for e in out if e is not None]


def dedupe(seq, seen):
    out = []
    for e in seq:
        if e not in seen:
            seen.add(e)
            out.append(e)
    return out


def random_expr(rng, depth):
    if depth <= 1 or rng.random() < 0.08:
        return rng.choice(LEAVES_FULL)
    k = rng.random()
    if k < 0.3:
        _, f = rng.choice(UNARY)
        return safe(f, random_expr(rng, depth - 1))
    if k < 0.92:
        _, f = rng.choice(BINARY)
        u = random_expr(rng, depth - 1)
        v = random_expr(rng, rng.randint(1, depth - 1))
        if u is None or v is None:
            return None
        if rng.random() < 0.5:
            u, v = v, u
        return safe(f, u, v)
    # n-ary sums / products with a rational coefficient
    n = rng.randint(2, 4)
    parts = [random_expr(rng, depth - 1) for _ in range(n)]
    if any(p is None for p in parts):
        return None
    c = rng.choice([Integer(-1), Integer(-3), Rational(-1, 2), Rational(2, 3), Rational(-5, 4), Integer(2)])
    if rng.random() < 0.5:
        return safe(lambda: c * Mul(*parts))
    return safe(lambda: Add(*[c * p if i == 0 else p for i, p in enumerate(parts)]))


def directed():
    """powers of sign-indefinite bases with integer exponents of both parities and signs (and rational ones, also of
    Abs(base)), alone, inside sums, functions and products: the places where ** versus pow(.,.) and the reading
    tables' Abs matter"""
    bases = [a0, a1, a0 + x, a0 - x, a0 * a1, -x, a0 * x - 1, Abs(a0 - x, evaluate=False)]
    ints = [Integer(k) for k in (-5, -4, -3, -2, 2, 3, 4, 5)]
    rats = [Rational(1, 2), Rational(-1, 2), Rational(3, 2), Rational(-3, 2), Rational(1, 3), Rational(-2, 3)]
    ctx = [lambda p: p, lambda p: x + p, lambda p: p - a1, lambda p: -p, lambda p: sin(p), lambda p: exp(p),
           lambda p: a1 * p, lambda p: p / x, lambda p: 2 * p / 3, lambda p: p * (a0 + 1), lambda p: x / p,
           lambda p: a2 - 1 / p, lambda p: sin(p) / a1 + x]
    out = []
    for b in bases:
        for ex in ints + rats:
            pw = safe(lambda: Pow(b, ex))
            if pw is None:
                continue
            for c in ctx:
                e = safe(c, pw)
                if e is not None:
                    out.append(e)
    # symbolic exponents whose leading coefficient is negative -- all-negative sums, products with them, scaled parameters -- in
    # products and quotients: _print_Mul decides syntactically (leading coefficient) which powers go to the denominator and
    # negates their exponent, _print_Pow decides on its own how to print a power
    sexps = [safe(lambda: -x - Rational(1, 2)), safe(lambda: x * (-x - Rational(1, 2))), safe(lambda: -a0 ** 2 - 1), safe(lambda: -2 * a0),
             safe(lambda: -a0 / 2), safe(lambda: -2 * x), safe(lambda: (-x - 1) * x), safe(lambda: -x * a1), safe(lambda: -a1 - x),
             safe(lambda: -(a0 ** 2) * x), safe(lambda: Rational(-3, 2) * a1)]
    sctx = [lambda p: p, lambda p: a0 * p, lambda p: a0 / p, lambda p: p * x, lambda p: p / a1, lambda p: x + p, lambda p: sin(p),
            lambda p: a1 * p * x, lambda p: 2 * p, lambda p: p / (x + 1)]
    for b in [x, a0, x + 1, Abs(a0, evaluate=False)]:
        for ex in sexps:
            if ex is None:
                continue
            pw = safe(lambda: Pow(b, ex))
            if pw is None:
                continue
            for c in sctx:
                e = safe(c, pw)
                if e is not None:
                    out.append(e)
    # inv / cube / square compositions as ESR's operator set writes them
    for b in bases[:7]:
        for e in (safe(lambda: 1 / (b * b * b)), safe(lambda: x + 1 / (b * b * b)), safe(lambda: sin(1 / (b * b * b))),
                  safe(lambda: 1 / (b * b)), safe(lambda: (b * b * b) / a1), safe(lambda: 1 / (b ** 5) - x)):
            if e is not None:
                out.append(e)
    return out


def build(seed, n_random, depth3_cap, max_depth, shard=0, nshards=1):
    """Returns this shard's list of (tag, expr).  depth<=2 exhaustive over LEAVES_FULL, depth 3
    exhaustive over LEAVES_SMALL (capped to depth3_cap by a seeded sample; 0 = no cap), split over the
    shards by index; depth 4..max_depth random, n_random/nshards per shard from the shard's own stream."""
    rng = esrv.rng(seed, "c12-gen")
    seen = set()
    out = []
    d1 = dedupe(LEAVES_FULL, seen)
    out += [("d1", e) for e in d1]
    d2 = dedupe(level_up(d1, d1, UNARY, BINARY), seen)
    out += [("d2", e) for e in d2]
    # depth 3 over the small leaf set
    s_seen = set()
    s1 = dedupe(LEAVES_SMALL, s_seen)
    s2 = dedupe(level_up(s1, s1, UNARY, BINARY), s_seen)
    s3 = dedupe(level_up(s1 + s2, s2, UNARY, BINARY), s_seen)
    s3 = dedupe(s3, seen)
    if depth3_cap and len(s3) > depth3_cap:
        s3 = rng.sample(s3, depth3_cap)
    out += [("d3", e) for e in s3]
    out += [("dir", e) for e in dedupe(directed(), seen)]
    out = [it for i, it in enumerate(out) if i % nshards == shard]
    rng = esrv.rng(seed, "c12-gen-random-%d" % shard)
    want = n_random // nshards
    tries = 0
    got = 0
    while got < want and tries < 20 * want + 100:
        tries += 1
        d = rng.randint(4, max_depth)
        try:
            e = limited(5.0, random_expr, rng, d)
            if e is None or e in seen or sympy.count_ops(e) > 60:
                continue
        except (Exception, TimeUp):
            continue
        seen.add(e)
        out.append(("r%d" % d, e))
        got += 1
    return out


# ------------------------------------------------------------------ correspondence rows
def corr(exprs, seed):
    pr = ESRPrinter()
    rows = []
    refused = {}
    first = []
    for tag, e in exprs:
        try:
            s1 = ESRPrinter().doprint(e)
        except Exception as ex:
            k = "printer raised %s" % type(ex).__name__
            refused[k] = refused.get(k, 0) + 1
            continue
        first.append((tag, e, s1))
    # purity: print 50 unrelated expressions, mutate sympy_locs, then print again with the reused
    # printer, with a fresh printer, and (when sympy rebuilds the identical tree) from a rebuilt object
    rng = esrv.rng(seed, "c12-pure")
    unrelated = [rng.choice(first)[1] for _ in range(50)] if first else []
    reused = ESRPrinter()
    for u in unrelated:
        reused.doprint(u)
    saved = dict(sympy_symbols.sympy_locs)
    for i in range(6):
        sympy_symbols.sympy_locs["a%d" % i] = sympy.Symbol("a%d" % i, real=True)
    sympy_symbols.sympy_locs["x"] = sympy.Symbol("x", real=True)
    impure = []
    for tag, e, s1 in first:
        prints = [s1, reused.doprint(e), ESRPrinter().doprint(e)]
        try:
            e2 = limited(5.0, lambda: sympy.sympify(srepr(e)))
            if e2 == e:
                prints.append(ESRPrinter().doprint(e2))
        except (Exception, TimeUp):
            pass
        if len(set(prints)) != 1:
            impure.append(dict(srepr=srepr(e), prints=prints))
    sympy_symbols.sympy_locs.clear()
    sympy_symbols.sympy_locs.update(saved)
    for tag, e, s1 in first:
        precs = []
        try:
            d = dump(e, precs, pr)
        except Refuse as r:
            k = str(r)
            refused[k] = refused.get(k, 0) + 1
            continue
        except Exception as ex:
            k = "dump raised %s" % type(ex).__name__
            refused[k] = refused.get(k, 0) + 1
            continue
        try:
            sh = shape(ast.parse(s1, mode="eval"))
        except (Refuse, SyntaxError) as r:
            sh = None
        rows.append(dict(tag=tag, srepr=srepr(e), sexpr=d, precs=precs, printed=s1, shape=sh))
    return dict(rows=rows, refused=refused, impure=impure[:20], n_impure=len(impure), total=len(exprs))


# ------------------------------------------------------------------ round-trip search on the real code
def in_fragment(e):
    """C12's domain: non-integer powers only of bases that are non-negative by construction; no zoo."""
    for n in sympy.preorder_traversal(e):
        if n is S.ComplexInfinity:
            return False
        if isinstance(n, Pow) and not n.exp.is_Integer:
            if not n.base.is_nonnegative:
                return False
    return True


def points(rng, n=12):
    """x > 0, parameters of both signs; every third point has |a_k| > x so that bases such as a0 + x, a0 - x, a0*x - 1
    take NEGATIVE values there (integer powers of negative bases are inside C12's domain)"""
    pts = []
    for i in range(n):
        if i % 3 == 0:
            xv = rng.uniform(0.3, 1.0)
            mags = [rng.uniform(1.3, 2.5) for _ in range(3)]
            signs = [-1, rng.choice([-1, 1]), rng.choice([-1, 1])] if i % 2 == 0 else [rng.choice([-1, 1]), -1, -1]
        else:
            xv = rng.uniform(0.3, 3.0)
            mags = [rng.uniform(0.3, 2.5) for _ in range(3)]
            signs = [rng.choice([-1, 1]) for _ in range(3)]
        pts.append({"x": xv, "a0": signs[0] * mags[0], "a1": signs[1] * mags[1], "a2": signs[2] * mags[2]})
    return pts


def evaluator(e, subexprs=False):
    """point -> complex value (mpmath, 30 digits) or None when undefined / overflow / unknown symbol.
    With subexprs=True the point counts as defined only if EVERY subexpression has a finite real value
    there (log of a positive number, real powers, no division by zero): the usual real reading."""
    import mpmath
    syms = sorted(e.free_symbols, key=lambda s: s.name)
    subs = [e]
    npos = 0
    if subexprs:
        nodes = list(dict.fromkeys(sympy.preorder_traversal(e)))
        pos = [n.base for n in nodes if isinstance(n, Pow) and not n.exp.is_Integer]
        pos += [n.args[0] for n in nodes if isinstance(n, log)]
        npos = len(pos)
        subs = [e] + pos + [n for n in nodes if n is not e and not n.is_Atom]
    try:
        f = limited(5.0, sympy.lambdify, syms, subs, "mpmath")
    except (Exception, TimeUp):
        return lambda pt: None

    def ev(pt):
        def run():
            with mpmath.workdps(30):
                vs = f(*[mpmath.mpf(pt[s.name]) for s in syms])
                return [complex(v) for v in vs]
        try:
            cs = limited(2.0, run)
        except (Exception, TimeUp):
            return None
        for c in cs:
            if c != c or abs(c) > 1e60 or abs(c) == float("inf"):
                return None
            if subexprs and abs(c.imag) > 1e-12 * max(1.0, abs(c.real)):
                return None
        for c in cs[1:1 + npos]:
            if not c.real > 1e-30:
                return None
        return cs[0]
    return ev


def evalf_fallback(e, pt):
    def run():
        subs = {sy: sympy.Float(pt[sy.name], 30) for sy in e.free_symbols}
        return complex(sympy.N(e, 30, subs=subs))
    try:
        c = limited(5.0, run)
    except (Exception, TimeUp):
        return None
    if c != c or abs(c) > 1e60:
        return None
    return c


def safe_srepr(e):
    try:
        return srepr(e)
    except Exception as ex:
        return "<srepr raised %s>" % type(ex).__name__


def tables():
    """name -> function(printed string) -> sympy expression, using the REAL reading code"""
    import esr.fitting.sympy_symbols as ss
    from esr.fitting.likelihood import Likelihood

    def gen(s):
        # simplifier.initial_sympify: locs = sympy_locs plus the real parameter symbols, sympy.sympify(s, locals=locs)
        locs = dict(ss.sympy_locs)
        locs.update({"a0": a0, "a1": a1, "a2": a2})
        return sympy.sympify(s, locals=locs)

    def fit(s):
        # Likelihood.run_sympify does not use self
        return Likelihood.run_sympify(None, s)[1]
    return {"generation": gen, "fitting": fit}


def search(exprs, seed):
    pts = points(esrv.rng(seed, "c12-pts"))
    tabs = tables()
    res = dict(checked=0, skipped_fragment=0, skipped_undefined=0, failures=[], unparsable=[], samples=[], points=pts)
    for tag, e in exprs:
        if not in_fragment(e):
            res["skipped_fragment"] += 1
            continue
        try:
            s = ESRPrinter().doprint(e)
        except Exception as ex:
            res["failures"].append(dict(kind="printer-raised", srepr=safe_srepr(e), error=repr(ex)))
            continue
        ev0 = evaluator(e, subexprs=True)
        vals0 = [ev0(pt) for pt in pts]
        good = [i for i, v in enumerate(vals0) if v is not None and abs(v.imag) <= 1e-12 * max(1.0, abs(v.real))]
        if not good:
            res["skipped_undefined"] += 1
            continue
        res["checked"] += 1
        for tname, locs in tabs.items():
            try:
                back = limited(10.0, lambda: locs(s))
            except TimeUp:
                res["timeouts"] = res.get("timeouts", 0) + 1
                continue
            except Exception as ex:
                res["unparsable"].append(dict(srepr=srepr(e), printed=s, table=tname, error=repr(ex)[:200]))
                continue
            ev1 = evaluator(back)
            for i in good:
                v1 = ev1(pts[i])
                if v1 is None:
                    v1 = evalf_fallback(back, pts[i])   # lambdify chokes on huge integer literals; sympy's evalf does not
                v0 = vals0[i]
                if v1 is None or abs(v1 - v0) > 1e-9 * max(1.0, abs(v0)):
                    res["failures"].append(dict(kind="value", srepr=srepr(e), printed=s, table=tname, point=pts[i],
                                                original=repr(v0), reparsed=repr(v1), reparsed_srepr=safe_srepr(back)))
                    break
        if len(res["samples"]) < 6 and tag.startswith("r"):
            res["samples"].append(dict(srepr=srepr(e), printed=s, point=pts[good[0]], value=repr(vals0[good[0]])))
    # outside C12's domain (ESR only prints evaluated trees): an unevaluated Add directly inside an Add.
    # Recorded, not judged: Coq witness C12_nested_add_refuted.
    try:
        ne = Add(x, Add(-a0, a1, evaluate=False), evaluate=False)
        ns = ESRPrinter().doprint(ne)
        back = tabs["generation"](ns)
        pt = {"x": 1.0, "a0": 0.5, "a1": 2.0, "a2": 1.0}
        res["observations"] = [dict(what="unevaluated nested Add: the sign of the inner first term is pulled out of the parentheses",
                                    srepr=srepr(ne), printed=ns, sympy_str=sympy.sstr(ne),
                                    original_value=repr(evaluator(ne)(pt)), reparsed_value=repr(evaluator(back)(pt)), point=pt)]
    except Exception as ex:
        res["observations"] = [dict(what="nested-Add probe failed", error=repr(ex))]
    res["n_failures"] = len(res["failures"])
    res["failures"] = res["failures"][:20]
    res["unparsable"] = res["unparsable"][:20]
    return res


if __name__ == "__main__":
    # c12_impl.py all <seed> <n_random> <depth3_cap> <max_depth> <shard> <nshards>
    mode = sys.argv[1]
    seed, n_random, cap, maxd, shard, nshards = [int(a) for a in sys.argv[2:8]]
    exprs = build(seed, n_random, cap, maxd, shard, nshards)
    out = {}
    if mode in ("corr", "all"):
        out["corr"] = corr(exprs, seed)
    if mode in ("search", "all"):
        out["search"] = search(exprs, seed)
    json.dump(out, sys.stdout)
