"""Implementation-side driver for C06: runs the real esr.fitting.combine_DL.main on generated tables.

usage: c06_impl.py run <tables.json> <workdir>
  tables.json: [{"U": int, "npar": int, "rows": [[nll, codelen, index, aifeyn, [params...]], ...]}, ...]
               numbers are floats or the strings "inf", "-inf", "nan"
  workdir:     an existing empty directory shared by all ranks
Works under the one-rank and the multi-process MPI stand-in (all ranks run this script);
rank 0 writes the input files, every rank calls main, rank 0 prints the JSON result:
  [{"final": [[rank, fcn, DL, Prel, nll, codelen, aifeyn, [params]], ...] | None,
    "comb": [[DL, [params], nll, codelen, aifeyn], ...], "fcn": [...], "exc": str | None}, ...]
every number is returned as the text found in the output file.
"""
import contextlib
import io
import json
import os
import shutil
import sys
import warnings


def txt(v):
    if isinstance(v, str):
        return v
    return "%.16e" % v


class Lik:
    pass


def make_lik(d):
    lik = Lik()
    lik.fn_dir = d + "/fn"
    lik.base_out_dir = d + "/out"
    lik.out_dir = d + "/out/o"
    lik.temp_dir = d + "/out/t"
    lik.fnprior_prefix = "aifeyn_"
    lik.combineDL_prefix = "combine_DL_"
    lik.final_prefix = "final_"
    lik.is_mse = False
    return lik


def write_inputs(lik, comp, tab):
    os.makedirs(lik.fn_dir + "/compl_%d" % comp)
    # base_out_dir/out_dir/temp_dir are made by get_functions -- but the table file lives in out_dir and is read first
    os.makedirs(lik.out_dir)
    with open(lik.fn_dir + "/compl_%d/unique_equations_%d.txt" % (comp, comp), "w") as f:
        for i in range(tab["U"]):
            f.write("u%d\n" % i)
    with open(lik.fn_dir + "/compl_%d/all_equations_%d.txt" % (comp, comp), "w") as f:
        for j in range(len(tab["rows"])):
            f.write("v%d\n" % j)
    with open(lik.out_dir + "/codelen_matches_comp%d.dat" % comp, "w") as f:
        for r in tab["rows"]:
            f.write(" ".join(txt(x) for x in [r[0], r[1], r[2]] + list(r[4])) + "\n")
    with open(lik.fn_dir + "/compl_%d/aifeyn_%d.txt" % (comp, comp), "w") as f:
        for r in tab["rows"]:
            f.write(txt(r[3]) + "\n")


def read_outputs(lik, comp, npar):
    res = {"final": None, "comb": None, "fcn": None, "exc": None}
    p = lik.out_dir + "/final_%d.dat" % comp
    if os.path.exists(p):
        fin = []
        for line in open(p).read().splitlines():
            c = line.split(";")
            fin.append([c[0], c[1], c[2], c[3], c[4], c[5], c[6], c[7:]])
        res["final"] = fin
    p = lik.out_dir + "/combine_DL_comp%d.dat" % comp
    if os.path.exists(p):
        comb = []
        for line in open(p).read().splitlines():
            c = line.split()
            comb.append([c[0], c[1:1 + npar], c[-3], c[-2], c[-1]])
        res["comb"] = comb
    p = lik.out_dir + "/combine_DL_fcn_comp%d.dat" % comp
    if os.path.exists(p):
        res["fcn"] = open(p).read().splitlines()
    return res


def run(tables_path, workdir):
    warnings.simplefilter("ignore")
    import numpy as np
    np.seterr(all="ignore")
    import esr.fitting.combine_DL as C
    comm = C.comm
    rank, size = C.rank, C.size
    tables = json.load(open(tables_path))
    out = []
    for ti, tab in enumerate(tables):
        comp = 1 + ti % 7
        d = os.path.join(workdir, "t%d" % ti)
        lik = make_lik(d)
        if rank == 0:
            write_inputs(lik, comp, tab)
        comm.Barrier()
        exc = None
        try:
            with contextlib.redirect_stdout(io.StringIO()), contextlib.redirect_stderr(io.StringIO()):
                C.main(comp, lik)
        except Exception as e:       # only reachable with size == 1 in our runs (see C06.py)
            exc = "EXC:" + type(e).__name__
        if rank == 0:
            res = read_outputs(lik, comp, tab["npar"])
            res["exc"] = exc
            if exc is not None:
                res["final"] = None
            res["leftover_temp"] = sorted(os.listdir(lik.temp_dir)) if os.path.isdir(lik.temp_dir) else None
            out.append(res)
        comm.Barrier()
        if rank == 0:
            shutil.rmtree(d, ignore_errors=True)
    if rank == 0:
        sys.stdout.write("\n@@C06JSON@@")
        json.dump(out, sys.stdout)


if __name__ == "__main__":
    if sys.argv[1] == "run":
        run(sys.argv[2], sys.argv[3])
