"""Implementation-side driver for C10 (runs against the scratch copy, /venv/bin/python).

  c10_impl.py scripts   < JSON list of scripted cases    -> JSON list of answers
  c10_impl.py chi2fcn   < JSON list of [signs, x]         -> JSON list of decoded p (or ["raise", type])
  c10_impl.py mainrows  < JSON {comp, try_integration, log_opt, rows:[...]} -> rows of negloglike_comp<n>.dat
  c10_impl.py fits      < JSON list of fit jobs            -> JSON list of fit results (real scipy minimize)
  c10_impl.py direct    < JSON {data_seed, functions}      -> parameter-free / NaN-on-data functions on a real GaussLikelihood

Scripted case (see harness/props/C10.py: gen_case):
  {"has":[0/1..], "max_param":n, "nparam":n, "comp":n, "ignore_prev":b, "in_prev":b, "log_opt":b, "test_success":b,
   "Niter_params":[..], "Nconv_params":[..], "sym":"ok"|"timeout"|"name"|"other", "sym_has_a0":b, "xvar":b,
   "nanpats":[[0/1..]..], "chi2_nil":V, "script":[A..], "dflt":A, "rnd":[int..], "pmin":int, "pmax":int}
  V = int z (the float z/8, exact) | "inf" | "-inf" | "nan";   A = ["res", [int..], V, ok] | ["raise", "timeout"|"name"|"other"]
The real optimise_fun runs with test_all.minimize replaced by the scripted oracle, np.random.uniform by the scripted
stream and a stub likelihood (run_sympify / negloglike / xvar / fn_dir)."""
import contextlib
import io
import itertools
import json
import math
import os
import re
import shutil
import sys
import tempfile
import warnings

import numpy as np

warnings.simplefilter("ignore")
import sympy                                   # noqa: E402
from scipy.optimize import OptimizeResult      # noqa: E402
import esr.fitting.test_all as test_all        # noqa: E402
import esr.generation.simplifier as simplifier  # noqa: E402
from esr.fitting.sympy_symbols import x as SX, a0 as A0, a1 as A1, a2 as A2, a3 as A3  # noqa: E402

REAL_MINIMIZE = test_all.minimize
REAL_UNIFORM = np.random.uniform
TMP = os.environ.get("ESRV_TMP", "/var/tmp")


def dec_val(v):
    if v == "inf":
        return float("inf")
    if v == "-inf":
        return float("-inf")
    if v == "nan":
        return float("nan")
    f = float(v) / 8.0
    assert int(f * 8.0) == v, "inexact scripted value %r" % (v,)
    return f


def enc_val(f):
    f = float(f)
    if math.isnan(f):
        return "nan"
    if math.isinf(f):
        return "inf" if f > 0 else "-inf"
    z = f * 8.0
    if math.isinf(z) or z != math.floor(z):
        return ["inexact", f.hex()]
    return int(z)


def enc_int(f):
    f = float(f)
    if math.isnan(f) or math.isinf(f) or f != math.floor(f):
        return ["nonint", repr(f)]
    return int(f)


def fcn_string(has):
    terms = []
    for j, h in enumerate(has):
        if h:
            terms.append("a%d" % j if j == 0 else ("a%d*x" % j if j == 1 else "a%d*x**%d" % (j, j)))
    return ("+".join(terms) if terms else "x") + "\n"


def param_symbols(n):
    base = [A0, A1, A2, A3]
    return [base[i] if i < 4 else sympy.Symbol("a%d" % i, real=True) for i in range(n)]


def nan_expr(nparam, nanpats):
    """A sympy expression that is NaN on xvar exactly for the listed sign patterns of (a0..a_{n-1}) = (+-1..)."""
    syms = param_symbols(nparam)
    e = SX
    for pat in nanpats:
        prod = sympy.Integer(1)
        for s, neg in zip(syms, pat):
            prod = prod * (1 + (-1 if neg else 1) * s)
        e = e + sympy.sqrt(-prod)
    return e


class Boom(Exception):
    pass


def make_exc(kind):
    if kind == "timeout":
        return simplifier.TimeoutException("Timed out")
    if kind == "name":
        return NameError("scripted")
    return Boom("scripted")


class StubLik:
    def __init__(self, case, fn_dir):
        self.case = case
        self.fn_dir = fn_dir
        if case["xvar"]:
            self.xvar = np.array([1.0, 2.0, 3.0])
        self.sympify_calls = []
        self.nll_calls = []

    def run_sympify(self, fcn_i, tmax=None, try_integration=None):
        c = self.case
        self.sympify_calls.append([fcn_i, tmax, try_integration])
        if c["sym"] != "ok":
            raise make_exc(c["sym"])
        s = fcn_i.replace("\n", "")
        if c["sym_has_a0"] and "a0" not in s:
            s = "a0*0+" + s
        if (not c["sym_has_a0"]) and "a0" in s:
            s = s.replace("a0", "b0")
        n = c["nparam"]
        if c["sym_has_a0"] and n >= 1:
            eq = nan_expr(n, c["nanpats"])
        else:
            eq = SX
        return s, eq, False

    def negloglike(self, p, eq_numpy, integrated=None):
        self.nll_calls.append(list(p))
        if len(p) == 0:
            return dec_val(self.case["chi2_nil"])
        raise Boom("stub negloglike called with parameters")


def check_nan_expr(case):
    """The stub expression must realise the scripted NaN table (else the driver itself is wrong)."""
    n = case["nparam"]
    if not (case["sym"] == "ok" and case["sym_has_a0"] and n >= 1):
        return
    eq = nan_expr(n, case["nanpats"])
    f = sympy.lambdify([SX] + param_symbols(n), eq, modules=["numpy"])
    xv = np.array([1.0, 2.0, 3.0])
    for pat in itertools.product([0, 1], repeat=n):
        got = bool(np.sum(np.isnan(f(xv, *[(-1 if b else 1) for b in pat]))) > 0)
        want = list(pat) in [list(q) for q in case["nanpats"]]
        assert got == want, "stub NaN expression wrong for %r: %r" % (pat, case["nanpats"])


def run_script_case(case, root):
    check_nan_expr(case)
    fn_dir = os.path.join(root, "fn")
    comp = case["comp"]
    fcn = fcn_string(case["has"])
    d = fn_dir + "/compl_%d" % comp
    os.makedirs(d, exist_ok=True)
    with open(d + "/previous_eqns_%d.txt" % comp, "w") as f:
        f.write("cos(x)\n")
        if case["in_prev"]:
            f.write(fcn)
        f.write("inv(x)\n")
    lik = StubLik(case, fn_dir)
    log = []
    script, dflt = case["script"], case["dflt"]
    rnd = case["rnd"]
    nrnd = [0]
    problems = []

    def uniform(lo, hi):
        if (lo, hi) != (case["pmin"], case["pmax"]):
            problems.append("uniform(%r,%r)" % (lo, hi))
        i = nrnd[0]
        nrnd[0] += 1
        return float(rnd[i]) if i < len(rnd) else 0.0

    def minimize(fun, x0, args=(), method=None, **kw):
        if fun is not test_all.chi2_fcn or method != "BFGS" or args[0] is not lik or args[2] is not False:
            problems.append("minimize called with unexpected fun/method/args")
        k = len(log)
        signs = args[3]
        log.append([[enc_int(v) for v in np.atleast_1d(x0)],
                    None if signs is None else [{"+": 1, "-": 2}.get(s, 0) for s in signs]])
        a = script[k] if k < len(script) else dflt
        if a[0] == "raise":
            raise make_exc(a[1])
        return OptimizeResult(x=np.array([float(v) for v in a[1]]), fun=dec_val(a[2]), success=bool(a[3]))

    test_all.minimize = minimize
    np.random.uniform = uniform
    try:
        with contextlib.redirect_stdout(io.StringIO()):
            try:
                v, p = test_all.optimise_fun(fcn, lik, 5, case["pmin"], case["pmax"], comp=comp,
                                             try_integration=False, log_opt=case["log_opt"],
                                             max_param=case["max_param"], Niter_params=list(case["Niter_params"]),
                                             Nconv_params=list(case["Nconv_params"]), test_success=case["test_success"],
                                             ignore_previous_eqns=case["ignore_prev"])
                ret = ["ret", enc_val(v), [enc_int(q) for q in np.atleast_1d(p)]]
            except NameError:
                ret = ["NameError"]
            except ValueError as e:
                ret = ["ValueError"]
            except Exception as e:
                ret = ["other:" + type(e).__name__ + ":" + str(e)[:100]]
    finally:
        test_all.minimize = REAL_MINIMIZE
        np.random.uniform = REAL_UNIFORM
    return {"ret": ret, "log": log, "ndraws": nrnd[0], "problems": problems,
            "nsympify": len(lik.sympify_calls), "nll": lik.nll_calls}


def cmd_scripts():
    cases = json.load(sys.stdin)
    root = tempfile.mkdtemp(prefix="c10.", dir=TMP)
    out = []
    try:
        for c in cases:
            try:
                out.append(run_script_case(c, root))
            except Exception as e:
                out.append({"driver_error": type(e).__name__ + ": " + str(e)[:300]})
    finally:
        shutil.rmtree(root, ignore_errors=True)
    json.dump(out, sys.stdout)


# ------------------------------------------------------------------------------- chi2_fcn

def cmd_chi2fcn():
    jobs = json.load(sys.stdin)
    out = []

    class Rec:
        def negloglike(self, p, eq_numpy, integrated=None):
            self.p = p
            return 0.0
    for signs, xs in jobs:
        rec = Rec()
        sg = None if signs is None else [{0: None, 1: "+", 2: "-"}.get(s, "?") for s in signs]
        try:
            test_all.chi2_fcn(np.array([float(v) for v in xs]), rec, None, False, sg)
            out.append([enc_int(v) for v in rec.p])
        except Exception as e:
            out.append(["raise", type(e).__name__])
    json.dump(out, sys.stdout)


# ------------------------------------------------------------------------------- main rows

def cmd_mainrows():
    """Run the real main() on a stub likelihood whose functions each get one scripted optimise_fun behaviour:
    row kinds: ["ret"], ["name"], ["name-then-ret"], ["value"], ["other"].  optimise_fun itself is the real one;
    the behaviours are produced through run_sympify / Niter validation so that main's own handling is exercised."""
    job = json.load(sys.stdin)
    comp = job["comp"]
    root = tempfile.mkdtemp(prefix="c10m.", dir=TMP)
    try:
        fn_dir = root + "/fn/"
        os.makedirs(fn_dir + "compl_%d" % comp)
        rows = job["rows"]
        with open(fn_dir + "compl_%d/unique_equations_%d.txt" % (comp, comp), "w") as f:
            for i, r in enumerate(rows):
                f.write(("a0*f%d(x)\n" if r[0] == "value" else "f%d(x)\n") % i)

        class Lik:
            pass
        lik = Lik()
        lik.fn_dir = fn_dir
        lik.base_out_dir = root + "/out"
        lik.out_dir = root + "/out/o"
        lik.temp_dir = root + "/out/t"
        lik.xvar = np.array([1.0, 2.0])
        calls = []

        def run_sympify(fcn_i, tmax=None, try_integration=None):
            i = int(re.search(r"f(\d+)\(", fcn_i).group(1))
            kind = rows[i][0]
            calls.append([i, bool(try_integration)])
            if kind == "name" or (kind == "name-then-ret" and try_integration):
                raise NameError("scripted")
            if kind == "other":
                raise Boom("scripted")
            if kind == "timeout":
                raise simplifier.TimeoutException("scripted")
            return "x", SX, False

        def negloglike(p, eq_numpy, integrated=None):
            return dec_val(rows[calls[-1][0]][1])
        lik.run_sympify = run_sympify
        lik.negloglike = negloglike
        with contextlib.redirect_stdout(io.StringIO()):
            test_all.main(comp, lik, tmax=5, try_integration=job["try_integration"], log_opt=job["log_opt"],
                          Niter_params=job["Niter_params"], Nconv_params=job["Nconv_params"])
        arr = np.atleast_2d(np.loadtxt(lik.out_dir + "/negloglike_comp%d.dat" % comp))
        out = {"rows": [[enc_val(r[0]) if not math.isnan(r[0]) else "nan", [enc_int(v) for v in r[1:]]] for r in arr],
               "calls": calls}
    finally:
        shutil.rmtree(root, ignore_errors=True)
    json.dump(out, sys.stdout)


# ------------------------------------------------------------------------------- real fits

MODELS = {
    "a0": (1, lambda X: [np.ones_like(X)]),
    "a0*x": (1, lambda X: [X]),
    "a0+a1*x": (2, lambda X: [np.ones_like(X), X]),
    "a0*x+a1*x**2": (2, lambda X: [X, X ** 2]),
    "a0+a1*x+a2*x**2": (3, lambda X: [np.ones_like(X), X, X ** 2]),
    # five parameters: beyond the four parameter symbols the fitting modules predefine (max_param = 5, as test_all.main has it from
    # complexity 11 on and fit_from_string for a five-parameter formula)
    "a0+a1*sin(x)+a2*cos(x)+a3*sin(2*x)+a4*cos(2*x)": (5, lambda X: [np.ones_like(X), np.sin(X), np.cos(X), np.sin(2 * X), np.cos(2 * X)]),
}


def cmd_fits():
    import esr.fitting.likelihood as L
    jobs = json.load(sys.stdin)
    root = tempfile.mkdtemp(prefix="c10f.", dir=TMP)
    out = []
    try:
        for jb in jobs:
            fcn = jb["model"]
            npar, basis = MODELS[fcn]
            rs = np.random.RandomState(jb["data_seed"])
            X = np.linspace(0.5, 3.0, jb.get("npoints", 24))
            B = np.array(basis(X))
            true = np.array(jb["true"], dtype=float)
            sig = np.full_like(X, jb.get("sigma", 0.5))
            noise = rs.standard_normal(len(X))
            if jb.get("weak"):
                # a one-parameter model measured at jb["weak"] sigma: the noise is made orthogonal to the model direction, so the
                # weighted-least-squares estimate is the planted value and NLL(0) - NLL(min) = weak**2 / 2
                g = B[0]
                noise = noise - g * (noise @ g) / (g @ g)
                sig = np.full_like(X, abs(true[0]) * np.sqrt(g @ g) / jb["weak"])
            Y = true @ B + sig * noise
            np.savetxt(root + "/data.txt", np.transpose([X, Y, sig]))
            with contextlib.redirect_stdout(io.StringIO()):
                lik = L.GaussLikelihood("data.txt", "c10fit", data_dir=root)
            # closed-form weighted least squares
            W = 1.0 / sig ** 2
            Amat = (B * W) @ B.T
            bvec = (B * W) @ Y
            wls = np.linalg.solve(Amat, bvec)
            const = np.sum(0.5 * np.log(2 * np.pi) + np.log(sig))
            nll_wls = float(np.sum(0.5 * (wls @ B - Y) ** 2 * W) + const)
            np.random.seed(jb["seed"])
            with contextlib.redirect_stdout(io.StringIO()):
                v, p = test_all.optimise_fun(fcn, lik, 5, jb["pmin"], jb["pmax"], comp=0, log_opt=jb["log_opt"],
                                             max_param=max(4, npar))
            p = np.array(p, dtype=float)
            eqn = sympy.lambdify([SX] + param_symbols(npar), sympy.sympify(fcn, locals=dict({"x": SX}, **{"a%d" % i: q for i, q in enumerate(param_symbols(npar))})),
                                 modules=["numpy"])
            at_ret = float(lik.negloglike(list(p[:npar]), eqn))
            out.append({"value": float(v), "params": [float(q) for q in p], "nll_at_returned": at_ret,
                        "nll_wls": nll_wls, "wls": [float(q) for q in wls], "npar": npar})
    finally:
        shutil.rmtree(root, ignore_errors=True)
    json.dump(out, sys.stdout)


def cmd_direct():
    """Parameter-free functions and NaN-on-data functions on a real GaussLikelihood (real minimize untouched)."""
    import esr.fitting.likelihood as L
    job = json.load(sys.stdin)
    root = tempfile.mkdtemp(prefix="c10d.", dir=TMP)
    out = []
    try:
        rs = np.random.RandomState(job["data_seed"])
        X = np.linspace(0.5, 3.0, 16)
        sig = np.full_like(X, 0.25)
        Y = 1.0 + 2.0 * X + sig * rs.standard_normal(len(X))
        np.savetxt(root + "/data.txt", np.transpose([X, Y, sig]))
        with contextlib.redirect_stdout(io.StringIO()):
            lik = L.GaussLikelihood("data.txt", "c10direct", data_dir=root)
        calls = [0]

        def counting(*a, **k):
            calls[0] += 1
            return REAL_MINIMIZE(*a, **k)
        test_all.minimize = counting
        for fcn in job["functions"]:
            for log_opt in (False, True):
                calls[0] = 0
                with contextlib.redirect_stdout(io.StringIO()):
                    v, p = test_all.optimise_fun(fcn, lik, 5, 0, 3, comp=0, log_opt=log_opt, max_param=4)
                direct = None
                if "a0" not in fcn:
                    _, eq, _ = lik.run_sympify(fcn)
                    direct = float(lik.negloglike([], sympy.lambdify(SX, eq, modules=["numpy"])))
                out.append({"fcn": fcn, "log_opt": log_opt, "value": float(v), "params": [float(q) for q in p],
                            "direct": direct, "minimize_calls": calls[0]})
    finally:
        test_all.minimize = REAL_MINIMIZE
        shutil.rmtree(root, ignore_errors=True)
    json.dump(out, sys.stdout)


if __name__ == "__main__":
    {"scripts": cmd_scripts, "chi2fcn": cmd_chi2fcn, "mainrows": cmd_mainrows, "fits": cmd_fits, "direct": cmd_direct}[sys.argv[1]]()
