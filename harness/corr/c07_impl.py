"""Implementation-side driver for C07 (runs against the scratch copy).

  run   : JSON cases on stdin -> the REAL test_all_Fisher.convert_params on each, with
          test_all_Fisher.nd.Hessian replaced by a stub that returns a scripted matrix
          sequence (first call = H0, then the 48 matrices of the fallback sweep) and a
          stub likelihood whose negloglike is table-driven on which parameters are zero.
  hess  : real numdifftools Hessian on linear-Gaussian models (real GaussLikelihood),
          returns the Hessian the routine wrote into `deriv`, its outputs, and the data
          needed for the closed-form oracle.
"""
import contextlib
import io
import json
import os
import shutil
import sys
import tempfile

import numpy as np


def fl(v):
    """float <- JSON number or 'inf' / '-inf' / 'nan'"""
    if isinstance(v, str):
        return float(v)
    return float(v)


def out_f(v):
    v = float(v)
    if np.isnan(v):
        return "nan"
    if np.isinf(v):
        return "inf" if v > 0 else "-inf"
    return v          # json uses repr: round-trips exactly


FCN = {1: "a0*x", 2: "a0*x+a1", 3: "a0*x**2+a1*x+a2", 4: "a0*x**3+a1*x**2+a2*x+a3"}


def run():
    import sympy
    import esr.fitting.test_all_Fisher as F
    from esr.fitting.sympy_symbols import x, a0, a1, a2, a3

    class StubHessian:
        seq = []
        ncall = 0
        log = []

        def __init__(self, f, step=None, method="central", **kw):
            self.f = f
            StubHessian.log.append(method)

        def __call__(self, th):
            i = StubHessian.ncall
            StubHessian.ncall += 1
            return np.array(StubHessian.seq[i], dtype=float)

    F.nd.Hessian = StubHessian

    class TableLik:
        def __init__(self, table, dflt):
            self.table, self.dflt = table, dflt
            self.calls = []

        def negloglike(self, a, eq_numpy, integrated=False):
            a = np.atleast_1d(a)
            key = "".join("1" if v == 0 else "0" for v in a)
            self.calls.append(key)
            return self.table.get(key, self.dflt)

    syms = {"x": x, "a0": a0, "a1": a1, "a2": a2, "a3": a3}
    cases = json.load(sys.stdin)
    res = []
    for c in cases:
        n, maxp = c["n"], c["maxp"]
        fcn = c.get("fcn") or (FCN[n] if n else "x")
        eq = sympy.sympify(fcn, locals=syms)
        theta = np.zeros(maxp)
        theta[:n] = [fl(v) for v in c["theta"]]
        mats = [[[fl(v) for v in row] for row in m] for m in c["mats"]]
        StubHessian.seq = [[[fl(v) for v in row] for row in c["H0"]]] + [mats[i] for i in c["seq"]]
        StubHessian.ncall = 0
        StubHessian.log = []
        lik = TableLik({k: fl(v) for k, v in c["table"].items()}, fl(c["dflt"]))
        try:
            with contextlib.redirect_stdout(io.StringIO()):
                p, nll, deriv, cl = F.convert_params(fcn, eq, False, theta, lik, fl(c["nll"]), max_param=maxp)
            res.append({"params": [out_f(v) for v in p], "nll": out_f(nll), "deriv": [out_f(v) for v in deriv],
                        "codelen": out_f(cl), "ncall": StubHessian.ncall, "fop_calls": lik.calls,
                        "methods": StubHessian.log[1:4]})
        except BaseException as e:   # quit() raises SystemExit
            res.append({"exc": "%s: %s" % (type(e).__name__, e)})
    json.dump(res, sys.stdout)


def hess():
    """Real nd.Hessian + real GaussLikelihood on linear-in-parameter models."""
    import sympy
    import esr.fitting.test_all_Fisher as F
    import esr.fitting.likelihood as L
    from esr.fitting.sympy_symbols import x, a0, a1, a2, a3
    syms = {"x": x, "a0": a0, "a1": a1, "a2": a2, "a3": a3}
    cases = json.load(sys.stdin)
    d = tempfile.mkdtemp(prefix="c07h.", dir=os.environ.get("ESRV_TMP", "/var/tmp"))
    res = []
    try:
        for ci, c in enumerate(cases):
            xs, ys, es = np.array(c["x"]), np.array(c["y"]), np.array(c["err"])
            np.savetxt(d + "/data%d.txt" % ci, np.transpose([xs, ys, es]))
            with contextlib.redirect_stdout(io.StringIO()):
                lik = L.GaussLikelihood("data%d.txt" % ci, "verif_c07", data_dir=d)
            fcn = c["fcn"]
            n, maxp = c["n"], c["maxp"]
            eq = sympy.sympify(fcn, locals=syms)
            theta = np.zeros(maxp)
            theta[:n] = c["theta"]
            all_a = [a0, a1, a2, a3][:n]
            eq_numpy = sympy.lambdify([x] + all_a, eq, modules=["numpy"])
            nll_in = float(lik.negloglike(theta[:n], eq_numpy))
            try:
                with contextlib.redirect_stdout(io.StringIO()):
                    p, nll, deriv, cl = F.convert_params(fcn, eq, False, theta.copy(), lik, nll_in, max_param=maxp)
                nll_at = float(lik.negloglike(np.array(p[:n], dtype=float), eq_numpy))
                res.append({"params": [out_f(v) for v in p], "nll": out_f(nll), "deriv": [out_f(v) for v in deriv],
                            "codelen": out_f(cl), "nll_in": nll_in, "nll_at_params": out_f(nll_at)})
            except BaseException as e:
                res.append({"exc": "%s: %s" % (type(e).__name__, e)})
    finally:
        shutil.rmtree(d, ignore_errors=True)
    json.dump(res, sys.stdout)


if __name__ == "__main__":
    {"run": run, "hess": hess}[sys.argv[1]]()
