"""Implementation-side driver for C11 (runs against the scratch copy, single-rank MPI stand-in).

stdin: JSON {"jobs": [job...], "full": bool, "persite": bool, "tlimit": seconds, "trivial_every": K}
  job = {"basis": [b0,b1,b2], "trees": [[label...], ...]}              explicit trees
      | {"basis": [b0,b1,b2], "enumerate": n, "stride": s, "offset": o}  every tree of complexity n in the order of
                                                                         shape_to_functions (only positions = o mod s)
stdout: JSON {"records": [...], "counts": {...}}
  record = {"job": j, "labels": [...],
            "p1":   [[...], ...] | {"exc": text}      the REAL find_additional_trees with update_sums patched to produce nothing
            "sites":[out_0, out_1, ...]               the REAL update_tree(tree, labels, k, basis) for k = 0..#(exp,log labels):
                                                      [] (nothing) | [[labels]] | [[labels],[labels]] | {"nested": ..} | {"exc": text}
            "full": [[...], ...] | {"exc": text}      the REAL, unpatched find_additional_trees  (only with "full")
            "t_full": seconds, "printed": [...]}      what the driver printed ("Maybe bad", "Failed sympy")
  Trees on which nothing happens (no site, nothing added by either phase) are only counted, except every
  `trivial_every`-th of them, which is emitted so that the model is also compared on trivial inputs.

The trees are handed to find_additional_trees exactly as shape_to_functions does: tree = check_tree(shape)[2],
labels = list(<numpy U100 array>)."""
import contextlib
import io
import itertools
import json
import signal
import sys
import time
import traceback

import numpy as np


class Limit(Exception):
    pass


def _alarm(signum, frame):
    raise Limit("wall-clock limit exceeded")


def plain(L):
    return [str(v) for v in L]


def enum_trees(g, basis, n):
    """(shape, labels) in the order of generate_equations / shape_to_functions."""
    with contextlib.redirect_stdout(io.StringIO()):
        shapes = g.get_allowed_shapes(n)
    for s in shapes:
        n0, n1, n2 = int(np.sum(s == 0)), int(np.sum(s == 1)), int(np.sum(s == 2))
        t0 = [list(t) for t in itertools.product(basis[0], repeat=n0)]
        t1 = [list(t) for t in itertools.product(basis[1], repeat=n1)]
        t2 = [list(t) for t in itertools.product(basis[2], repeat=n2)]
        for i in range(len(t0)):
            idx = [j for j, v in enumerate(t0[i]) if v == 'a']
            for j in range(len(idx)):
                t0[i][idx[j]] = 'a%i' % j
        m0, m1, m2 = (s == 0), (s == 1), (s == 2)
        labels = np.empty(len(s), dtype='U100')
        for a in t0:
            for b in t1:
                for c in t2:
                    labels[:] = None
                    if n0:
                        labels[m0] = a
                    if n1:
                        labels[m1] = b
                    if n2:
                        labels[m2] = c
                    yield s, labels.copy()


def shape_of(g, labels, basis):
    return np.array(g.labels_to_shape(list(labels), basis), dtype=int)


def run_driver(g, tree, labels, basis, tlimit):
    buf = io.StringIO()
    t0 = time.time()
    signal.alarm(int(tlimit))
    try:
        with contextlib.redirect_stdout(buf):
            nt, nl = g.find_additional_trees(tree, list(labels), basis)
        out = [plain(L) for L in nl]
    except Limit as e:
        out = {"exc": "Timeout: %s" % e}
    except Exception as e:
        out = {"exc": "%s: %s | %s" % (type(e).__name__, e, traceback.format_exc(limit=-2).strip().splitlines()[-3:])}
    finally:
        signal.alarm(0)
    return out, time.time() - t0, [l for l in buf.getvalue().splitlines() if l.strip()][:5]


def site_outputs(g, tree, labels, basis):
    nk = sum(1 for l in labels if str(l) in ("log_abs", "exp", "pow_abs")) + 1
    outs = []
    for k in range(nk):
        try:
            L, s, n = g.update_tree(tree, list(labels), k, basis)
            if s is None:
                outs.append([] if n == 0 else {"nested": "shape None with nadded=%r" % (n,)})
            elif n == 1:
                if len(L) > 0 and isinstance(L[0], (list, tuple, np.ndarray)):
                    outs.append({"nested": [plain(q) for q in L]})
                elif len(L) != len(s):
                    outs.append({"nested": "labels/shape length differ: %r %r" % (plain(L), [int(v) for v in s])})
                else:
                    outs.append([plain(L)])
            else:
                if len(L) != n or len(s) != n or any(len(L[q]) != len(s[q]) for q in range(n)):
                    outs.append({"nested": "nadded=%r but %d lists" % (n, len(L))})
                else:
                    outs.append([plain(q) for q in L])
        except Exception as e:
            outs.append({"exc": "%s: %s" % (type(e).__name__, e)})
    return outs


def main():
    req = json.load(sys.stdin)
    import esr.generation.generator as g
    signal.signal(signal.SIGALRM, _alarm)
    real_sums = g.update_sums
    tlimit = req.get("tlimit", 20)
    every = max(1, int(req.get("trivial_every", 50)))
    records = []
    counts = {"trees": 0, "trivial": 0, "emitted": 0, "with_site": 0, "p1_extra": 0, "full_extra": 0, "max_t_full": 0.0}
    ntriv = 0
    for jn, job in enumerate(req["jobs"]):
        basis = job["basis"]
        if "trees" in job:
            def src():
                for L in job["trees"]:
                    arr = np.array(L, dtype='U100')
                    yield shape_of(g, L, basis), arr
            it = src()
        else:
            stride, offset = int(job.get("stride", 1)), int(job.get("offset", 0))
            it = (p for q, p in enumerate(enum_trees(g, basis, int(job["enumerate"]))) if q % stride == offset % stride)
        for shape, labels in it:
            counts["trees"] += 1
            rec = {"job": jn, "labels": plain(labels)}
            try:
                ok, _, tree = g.check_tree(shape)
            except Exception as e:
                rec["p1"] = {"exc": "check_tree: %s" % e}
                records.append(rec)
                continue
            interesting = False
            # phase 1 alone: the same driver with the sum phase producing nothing
            g.update_sums = lambda *a, **k: (None, None, 0)
            try:
                rec["p1"], _, _ = run_driver(g, tree, labels, basis, tlimit)
            finally:
                g.update_sums = real_sums
            if isinstance(rec["p1"], dict) or len(rec["p1"]) > 1:
                interesting = True
                counts["p1_extra"] += (len(rec["p1"]) - 1) if isinstance(rec["p1"], list) else 0
            if req.get("persite", True):
                rec["sites"] = site_outputs(g, tree, labels, basis)
                if any(o != [] for o in rec["sites"]):
                    interesting = True
                    counts["with_site"] += 1
            if req.get("full", False):
                rec["full"], rec["t_full"], rec["printed"] = run_driver(g, tree, labels, basis, tlimit)
                counts["max_t_full"] = max(counts["max_t_full"], rec["t_full"])
                if isinstance(rec["full"], dict) or len(rec["full"]) > 1 or rec["printed"]:
                    interesting = True
                    counts["full_extra"] += (len(rec["full"]) - 1) if isinstance(rec["full"], list) else 0
            if not interesting:
                counts["trivial"] += 1
                ntriv += 1
                if ntriv % every != 1 and every != 1:
                    continue
            records.append(rec)
    counts["emitted"] = len(records)
    json.dump({"records": records, "counts": counts}, sys.stdout)


if __name__ == "__main__":
    main()
