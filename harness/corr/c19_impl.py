"""Implementation-side driver for C19 (runs against the scratch copy).

The Pantheon covariance files are emptied in this snapshot (and pandas 3 no longer accepts
`delim_whitespace`), so PanthLikelihood() cannot be constructed normally.  Instances are made with
object.__new__(PanthLikelihood) and given exactly the attributes that get_pred/clear_data read;
their values are extracted from the source of __init__ by `consts` (fail closed), and -- thorough
tier -- cross-checked against a real constructor run on a synthetic identity covariance (`ctor`).

Floats cross the process boundary as float.hex() strings (exact)."""
import ast
import inspect
import json
import os
import sys
import textwrap
import warnings


def fhex(v):
    return float(v).hex()


def unhex(s):
    return float.fromhex(s)


# ---------------------------------------------------------------- constants of __init__ / clear_data
def consts():
    """Attributes that __init__ sets and get_pred/clear_data use, read from the source (ast).
    Anything unexpected is listed under "errors" (the check then fails closed) but never stops the run."""
    import esr.fitting.likelihood as L
    out = {"errors": []}
    try:
        src = textwrap.dedent(inspect.getsource(L.PanthLikelihood.__init__))
        fn = ast.parse(src).body[0]
        for node in ast.walk(fn):
            if isinstance(node, ast.Assign) and len(node.targets) == 1:
                t = node.targets[0]
                if isinstance(t, ast.Attribute) and isinstance(t.value, ast.Name) and t.value.id == "self":
                    if t.attr in ("delta_z", "min_nz", "data_x", "data_mask"):
                        if not isinstance(node.value, ast.Constant):
                            out["errors"].append("self.%s is no longer a literal in __init__" % t.attr)
                            continue
                        if t.attr in out:
                            out["errors"].append("self.%s assigned twice in __init__" % t.attr)
                        out[t.attr] = node.value.value
                    if t.attr == "xvar":
                        out["xvar_src"] = ast.unparse(node.value)
                    if t.attr == "mu_const":
                        out.setdefault("mu_const_src", []).append(ast.unparse(node.value))
                    if t.attr == "Hfid":
                        out["Hfid_src"] = ast.unparse(node.value)
                if isinstance(t, ast.Name) and t.id == "ww":
                    out["ww_src"] = ast.unparse(node.value)
        for k in ("delta_z", "min_nz", "data_x", "data_mask", "xvar_src", "mu_const_src", "ww_src", "Hfid_src"):
            if k not in out:
                out["errors"].append("could not find %s in PanthLikelihood.__init__" % k)
    except Exception as e:  # noqa: BLE001
        out["errors"].append("__init__: %s: %s" % (type(e).__name__, e))
    # clear_data: exactly two stores, both None
    try:
        csrc = textwrap.dedent(inspect.getsource(L.PanthLikelihood.clear_data))
        cfn = ast.parse(csrc).body[0]
        stores = []
        for st in cfn.body:
            if isinstance(st, ast.Expr) and isinstance(st.value, ast.Constant):
                continue  # docstring
            if (isinstance(st, ast.Assign) and len(st.targets) == 1 and isinstance(st.targets[0], ast.Attribute)
                    and isinstance(st.value, ast.Constant) and st.value.value is None):
                stores.append(st.targets[0].attr)
            else:
                out["errors"].append("unexpected statement in clear_data: " + ast.unparse(st))
        out["clear_stores"] = sorted(stores)
    except Exception as e:  # noqa: BLE001
        out["errors"].append("clear_data: %s: %s" % (type(e).__name__, e))
    out["mu_const"] = fhex(mu_const_value())
    return out


def mu_const_value():
    """mu_const exactly as __init__ computes it."""
    import astropy.constants
    import astropy.units as apu
    import numpy as np
    Hfid = 1.0 * apu.km / apu.s / apu.Mpc
    mc = astropy.constants.c / Hfid / (10 * apu.pc)
    mc = 5 * np.log10(mc.to(''))
    return float(mc)


def mu_const_quantity():
    import astropy.constants
    import astropy.units as apu
    import numpy as np
    Hfid = 1.0 * apu.km / apu.s / apu.Mpc
    mc = astropy.constants.c / Hfid / (10 * apu.pc)
    return 5 * np.log10(mc.to(''))


def fresh(delta_hex, min_nz):
    import esr.fitting.likelihood as L
    lk = object.__new__(L.PanthLikelihood)
    lk.delta_z = unhex(delta_hex)
    lk.min_nz = int(min_nz)
    lk.data_x = None
    lk.data_mask = None
    lk.mu_const = mu_const_quantity()
    lk.is_mse = False
    return lk


# ---------------------------------------------------------------- running get_pred
class _Timeout(Exception):
    pass


def build_eq(lk, fstr, nparams, try_integration, tmax=5):
    """Exactly what fitting/test_all.py does: run_sympify, then sympy.lambdify([x] + all_a, eq, numpy)."""
    import sympy
    from esr.fitting.sympy_symbols import x, a0, a1, a2
    fcn_i, eq, integrated = lk.run_sympify(fstr, tmax=tmax, try_integration=try_integration)
    all_a = [a0, a1, a2][:nparams]
    eq_numpy = sympy.lambdify([x] + all_a, eq, modules=["numpy"])
    return eq_numpy, bool(integrated), str(eq)


def outval(v):
    import numpy as np
    v = np.asarray(getattr(v, "value", v), dtype=float)
    shape = list(v.shape)
    return shape, [fhex(t) for t in v.reshape(-1)]


def state(lk):
    import numpy as np
    dx = None if lk.data_x is None else [fhex(t) for t in np.asarray(lk.data_x, dtype=float).reshape(-1)]
    if lk.data_mask is None:
        dm, nd = None, None
    else:
        m = np.asarray(lk.data_mask)
        nd = int(m.ndim)
        dm = [int(t) for t in m.reshape(-1)] if m.dtype != object else "ragged"
    return dx, dm, nd


def run_job(job):
    import numpy as np
    lk = fresh(job["delta"], job["min_nz"])
    res = []
    for call in job["calls"]:
        r = {}
        if call["op"] == "clear":
            lk.clear_data()
        else:
            zs = np.array([unhex(t) for t in call["zs"]], dtype=float)
            params = [unhex(t) for t in call["params"]]
            try:
                try_int = bool(call.get("try_integration"))
                eq_numpy, integ, eqs = build_eq(lk, call["fstr"], len(params), try_int, tmax=call.get("tmax", 5))
                try:
                    with warnings.catch_warnings():
                        warnings.simplefilter("ignore")
                        mu = lk.get_pred(zs, np.atleast_1d(params), eq_numpy, integrated=integ)
                except NameError:
                    # the callers' protocol (test_all.main, test_all_Fisher, match): an antiderivative in terms of functions numpy
                    # does not have (hyper, ...) raises NameError on evaluation and the function is redone without integration
                    if not try_int:
                        raise
                    r["retried_without_integration"] = True
                    eq_numpy, integ, eqs = build_eq(lk, call["fstr"], len(params), False, tmax=call.get("tmax", 5))
                    with warnings.catch_warnings():
                        warnings.simplefilter("ignore")
                        mu = lk.get_pred(zs, np.atleast_1d(params), eq_numpy, integrated=integ)
                r["integrated"] = integ
                r["eq"] = eqs
                r["shape"], r["mu"] = outval(mu)
                r["exc"] = None
            except Exception as e:  # noqa: BLE001
                r["exc"] = type(e).__name__
                r["msg"] = str(e)[:200]
        r["data_x"], r["data_mask"], r["mask_ndim"] = state(lk)
        res.append(r)
    return res


def jobs():
    js = json.load(sys.stdin)
    out = []
    for j in js:
        out.append(run_job(j))
    json.dump(out, sys.stdout)


# ---------------------------------------------------------------- the real redshift column
def xvar_from_file(threshold=None):
    """zHD column of the shipped Pantheon+SH0ES.dat, filtered and shifted as __init__ does
    (pandas 3 dropped delim_whitespace, hence sep=r'\\s+')."""
    import pandas as pd
    import esr.generation.simplifier as S
    esr_dir = os.path.abspath(os.path.join(os.path.dirname(S.__file__), '..', '')) + '/'
    path = esr_dir + '/data//DataRelease/Pantheon+_Data/4_DISTANCES_AND_COVAR/Pantheon+SH0ES.dat'
    data = pd.read_csv(path, sep=r"\s+")
    ww = (data['zHD'] > 0.01)
    z = data['zHD'][ww]
    return z.to_numpy() + 1, len(data)


def xvar():
    xv, n = xvar_from_file()
    json.dump({"xvar": [fhex(t) for t in xv], "origlen": n}, sys.stdout)


def ctor():
    """Run the REAL constructor: write an identity covariance into the (scratch) data directory and
    let pandas accept the removed delim_whitespace keyword.  ~50 s (the loop in __init__)."""
    import numpy as np
    import pandas as pd
    import esr.fitting.likelihood as L
    import esr.generation.simplifier as S
    esr_dir = os.path.abspath(os.path.join(os.path.dirname(S.__file__), '..', '')) + '/'
    d = esr_dir + '/data//DataRelease/Pantheon+_Data/4_DISTANCES_AND_COVAR/'
    n = len(pd.read_csv(d + "Pantheon+SH0ES.dat", sep=r"\s+"))
    with open(d + "Pantheon+SH0ES_STAT+SYS.cov", "w") as f:
        f.write("%d\n" % n)
        for i in range(n):
            f.write("0.0\n" * i + "1.0\n" + "0.0\n" * (n - 1 - i))
    orig = pd.read_csv

    def rc(path, **kw):
        if kw.pop("delim_whitespace", False):
            kw["sep"] = r"\s+"
        return orig(path, **kw)
    pd.read_csv = rc
    try:
        lk = L.PanthLikelihood()
    finally:
        pd.read_csv = orig
    out = {"delta_z": fhex(lk.delta_z), "min_nz": int(lk.min_nz), "data_x": lk.data_x, "data_mask": lk.data_mask,
           "mu_const": fhex(float(lk.mu_const)), "xvar": [fhex(t) for t in lk.xvar]}
    # one prediction through negloglike's own call pattern, twice (cache reuse), on the real instance
    import sympy
    from esr.fitting.sympy_symbols import x, a0, a1
    _, eq, integ = lk.run_sympify("a0*pow(x,3)+a1", try_integration=False)
    eq_numpy = sympy.lambdify([x, a0, a1], eq, modules=["numpy"])
    p = [0.3 * 4900, 0.7 * 4900]
    mu1 = lk.get_pred(lk.xvar, np.atleast_1d(p), eq_numpy, integrated=integ)
    nll1 = float(lk.negloglike(p, eq_numpy, integrated=integ))
    mu2 = lk.get_pred(lk.xvar, np.atleast_1d(p), eq_numpy, integrated=integ)
    out["mu"] = outval(mu1)[1]
    out["mu_again"] = outval(mu2)[1]
    out["nll"] = fhex(nll1)
    out["params"] = [fhex(t) for t in p]
    out["yvar"] = [fhex(t) for t in lk.yvar]
    out["data_x_after"], out["data_mask_after"], _ = state(lk)
    json.dump(out, sys.stdout)


if __name__ == "__main__":
    cmd = sys.argv[1]
    if cmd == "consts":
        json.dump(consts(), sys.stdout)
    elif cmd == "jobs":
        jobs()
    elif cmd == "xvar":
        xvar()
    elif cmd == "ctor":
        ctor()
