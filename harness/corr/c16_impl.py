"""Implementation-side driver for C16 (runs against the scratch copy).

  c16_impl.py trace_gen <basis> <n>
        run duplicate_checker.main under iotrace; print {"ops": [...], "nshapes": k, "nround": r}
  c16_impl.py trace_fit <data_dir> <data_file> <run> <basis> <n> <prev:0|1>
        run the constructor and the four fitting stages under iotrace (any rank count; every rank
        prints its own trace): {"rank": r, "size": P, "stages": {"ctor": [...], "fit": [...], ...}, "nfun": m}
  c16_impl.py exec <spec.json>
        execute spec["history"] (a list of calls) and then spec["observed"] in ONE process and copy the
        observed call's output files to spec["collect"]; print {"files": {relname: sha256}}
  c16_impl.py stale <data_dir> <data_file> <run> <basis> <n> <rank>
        (documentation of the "completed runs only" boundary) run the fit stage, killed after its savetxt,
        as rank <rank> of a larger job -- leaves the per-rank temp file behind
Paths in traces are made relative: L/ = esr/function_library, D/ = data_dir.
"""
import contextlib
import hashlib
import io
import json
import os
import shutil
import sys

TMAX = int(os.environ.get("ESRV_C16_TMAX", "60"))   # int: time_limit uses signal.alarm


def lib_root():
    import esr.generation.generator as generator
    return os.path.abspath(os.path.join(os.path.dirname(generator.__file__), '..', 'function_library'))


def rel(ops, lib, d):
    def one(x):
        if isinstance(x, str):
            x = os.path.normpath(x) if (x.startswith("/") and " " not in x) else x
            if lib and (x == lib or x.startswith(lib + "/")):
                return "L" + x[len(lib):]
            if d and (x == d or x.startswith(d + "/")):
                return "D" + x[len(d):]
            return x
        if isinstance(x, list):
            return [one(y) for y in x]
        return x
    return [one(o) for o in ops]


def trace_gen(basis, n):
    import iotrace
    import esr.generation.duplicate_checker as dc
    import esr.generation.simplifier as simplifier
    import esr.generation.generator as generator
    iotrace.install_locs()
    lib = lib_root()
    got = {}
    do_sympy0 = simplifier.do_sympy

    def do_sympy(*a, **k):
        r = do_sympy0(*a, **k)
        got["nround"] = int(r[2])
        return r
    simplifier.do_sympy = do_sympy
    with iotrace.Trace([lib]) as t, contextlib.redirect_stdout(io.StringIO()):
        dc.main(basis, n)
    simplifier.do_sympy = do_sympy0
    nshapes = int(len(generator.get_allowed_shapes(n)))
    json.dump({"ops": rel(t.ops, lib, None), "nshapes": nshapes, "nround": got.get("nround")}, sys.stdout)


def make_lik(data_dir, data_file, run, basis):
    import esr.fitting.likelihood as L
    return L.GaussLikelihood(data_file, run, data_dir=data_dir, fn_set=basis)


def run_stage(st, n, lik, seed=None, prev=False, niter=None, nconv=None):
    import numpy as np
    if st == "fit":
        import esr.fitting.test_all as m
        if seed is not None:
            np.random.seed(seed)
        kw = {}
        if niter:                      # call arguments (the same in the fresh and in the history scenario)
            kw["Niter_params"] = list(niter)
        if nconv:
            kw["Nconv_params"] = list(nconv)
        m.main(n, lik, tmax=TMAX, ignore_previous_eqns=prev, **kw)
    elif st == "fisher":
        import esr.fitting.test_all_Fisher as m
        m.main(n, lik, tmax=TMAX)
    elif st == "match":
        import esr.fitting.match as m
        m.main(n, lik, tmax=TMAX)
    elif st == "combine":
        import esr.fitting.combine_DL as m
        m.main(n, lik)
    else:
        raise ValueError(st)


def trace_fit(data_dir, data_file, run, basis, n, prev):
    import iotrace
    from mpi4py import MPI
    iotrace.install_locs()
    lib = lib_root()
    data_dir = os.path.abspath(data_dir)
    comm = MPI.COMM_WORLD
    stages = {}
    import esr.fitting.test_all as test_all
    with iotrace.Trace([lib, data_dir]) as t, contextlib.redirect_stdout(io.StringIO()):
        t.mark("ctor")
        lik = make_lik(data_dir, data_file, run, basis)
        for st in ("fit", "fisher", "match", "combine"):
            t.mark(st)
            run_stage(st, n, lik, seed=1234, prev=prev)
    with contextlib.redirect_stdout(io.StringIO()):
        fl, _, _ = test_all.get_functions(n, lik)   # outside the trace: only to report this rank's share
    cur = None
    for o in rel(t.ops, lib, data_dir):
        if o[0] == "mark":
            cur = o[1]
            stages[cur] = []
        else:
            stages[cur].append(o)
    json.dump({"rank": comm.Get_rank(), "size": comm.Get_size(), "stages": stages, "nfun": len(fl)}, sys.stdout)


def sha(path):
    h = hashlib.sha256()
    with open(path, "rb") as f:
        h.update(f.read())
    return h.hexdigest()


def do_call(c, data_dir):
    if c["k"] == "gen":
        import esr.generation.duplicate_checker as dc
        if "gseed" in c:
            dc.main(c["basis"], int(c["n"]), seed=int(c["gseed"]))
        else:
            dc.main(c["basis"], int(c["n"]))
    elif c["k"] == "fit":
        lik = make_lik(data_dir, c.get("data", "data.txt"), c["run"], c["basis"])
        for st in c.get("stages", ["fit", "fisher", "match", "combine"]):
            run_stage(st, int(c["n"]), lik, seed=int(c.get("seed", 1234)), prev=bool(c.get("prev", False)),
                      niter=c.get("niter"), nconv=c.get("nconv"))
    else:
        raise ValueError(c)


def outputs_of(c, data_dir):
    """Files the observed call is responsible for: {relname: abspath}."""
    out = {}
    n = int(c["n"])
    if c["k"] == "gen":
        d = os.path.join(lib_root(), c["basis"], "compl_%d" % n)
        for fn in sorted(os.listdir(d)):
            if fn.startswith("previous_eqns_"):
                continue        # written by the fit stage, not by generation
            out["L/%s/compl_%d/%s" % (c["basis"], n, fn)] = os.path.join(d, fn)
    else:
        d = os.path.join(data_dir, "fitting", "output", "output_" + c["run"])
        names = ["negloglike_comp%d.dat", "codelen_comp%d_deriv.dat", "derivs_comp%d.dat", "codelen_matches_comp%d.dat",
                 "combine_DL_comp%d.dat", "combine_DL_fcn_comp%d.dat", "final_%d.dat", "results_pretty_%d.txt"]
        for nm in names:
            p = os.path.join(d, nm % n)
            if os.path.exists(p):
                out["D/output_%s/%s" % (c["run"], nm % n)] = p
        t = os.path.join(data_dir, "fitting", "output", "partial_" + c["run"])
        if os.path.isdir(t):
            for fn in sorted(os.listdir(t)):
                out["D/partial_%s/%s" % (c["run"], fn)] = os.path.join(t, fn)   # must be empty after a completed run
    return out


def exec_spec(path):
    spec = json.load(open(path))
    data_dir = os.path.abspath(spec["data_dir"])
    quiet = io.StringIO()
    done = []
    with contextlib.redirect_stdout(quiet):
        for c in spec["history"]:
            do_call(c, data_dir)
            done.append(c)
        do_call(spec["observed"], data_dir)
    files = outputs_of(spec["observed"], data_dir)
    col = spec["collect"]
    os.makedirs(col, exist_ok=True)
    res = {}
    for relname, p in files.items():
        res[relname] = sha(p)
        dst = os.path.join(col, relname.replace("/", "__"))
        shutil.copyfile(p, dst)
    import esr.fitting.sympy_symbols as ss
    locs = sorted(k for k in ss.sympy_locs if k.startswith("a") and k[1:].isdigit())
    json.dump({"files": res, "locs_params": locs, "ncalls": len(done)}, sys.stdout)


def stale(data_dir, data_file, run, basis, n, rank):
    """A fit stage that dies right after writing its per-rank temp file (as rank `rank` of a bigger job)."""
    import numpy as np
    import esr.fitting.test_all as test_all
    lik = make_lik(os.path.abspath(data_dir), data_file, run, basis)
    for dname in (lik.base_out_dir, lik.out_dir, lik.temp_dir):      # rank 0 of that job created them before its barrier
        os.makedirs(dname, exist_ok=True)

    class Killed(Exception):
        pass
    savetxt0 = np.savetxt

    def savetxt(fname, *a, **k):
        r = savetxt0(fname, *a, **k)
        if "chi2_comp" in str(fname):
            raise Killed()
        return r
    test_all.rank = rank
    test_all.size = rank + 1
    np.savetxt = savetxt
    try:
        with contextlib.redirect_stdout(io.StringIO()):
            np.random.seed(1234)
            test_all.main(n, lik, tmax=TMAX)
    except Killed:
        print("KILLED-AFTER-SAVETXT")
    finally:
        np.savetxt = savetxt0


if __name__ == "__main__":
    cmd = sys.argv[1]
    if cmd == "trace_gen":
        trace_gen(sys.argv[2], int(sys.argv[3]))
    elif cmd == "trace_fit":
        trace_fit(sys.argv[2], sys.argv[3], sys.argv[4], sys.argv[5], int(sys.argv[6]), sys.argv[7] == "1")
    elif cmd == "exec":
        exec_spec(sys.argv[2])
    elif cmd == "stale":
        stale(sys.argv[2], sys.argv[3], sys.argv[4], sys.argv[5], int(sys.argv[6]), int(sys.argv[7]))
    else:
        raise SystemExit("unknown command")
