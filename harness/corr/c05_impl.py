"""Implementation-side driver for C05: runs the REAL esr.fitting.match.main on hand-made libraries.

usage: c05_impl.py run <libs.json> <workdir>
       c05_impl.py real <data_dir> <data_file> <run_name> <fn_set> <comp>     (see real() below)
  libs.json: [{"max_param": 4,
               "uniques":  [{"fcn": str, "nll": num, "params": [max_param nums], "fish": [max_param(max_param+1)/2 nums]}, ...],
               "variants": [{"fcn": str, "match": int, "chain": [str, ...],        # str(dict) as the generator writes it, or "nan"
                             "table": {"0101": num, ...}, "dflt": num,             # likelihood keyed on WHICH parameters are zero
                             "sympify": "ok" | "nameerror" | "error"}, ...]}, ...]
             numbers are floats or the strings "inf", "-inf", "nan"
  workdir:   an existing empty directory shared by all ranks
Works under the one-rank and the multi-process MPI stand-in (every rank runs this script): rank 0 writes
    <fn_dir>/compl_<n>/{all_equations,unique_equations,matches,inv_subs}_<n>.txt      (generator formats; csv with ';')
    <out_dir>/negloglike_comp<n>.dat   (nll + padded parameters, '%.7e', as test_all.main writes it)
    <out_dir>/derivs_comp<n>.dat       (flattened upper triangle, '%.7e', as test_all_Fisher.main writes it)
every rank calls match.main(comp, stub_likelihood), rank 0 prints
  [{"rows": [[text tokens of one line of codelen_matches_comp<n>.dat], ...] | None, "exc": str | None,
    "calls": [[fcn, zero-pattern], ...] (rank 0's likelihood calls), "leftover_temp": [...]}, ...]

The stub likelihood has the attributes match.main uses (fn_dir, out_dir, temp_dir, base_out_dir, is_mse=False);
run_sympify is the real Likelihood.run_sympify (unless the variant asks for an exception there);
negloglike(params, eq_numpy, integrated=...) never evaluates eq_numpy: it identifies the variant FROM eq_numpy
(every variant string ends in a unique integer constant >= 1000, which is found again in the docstring of the
lambdified function -- so a stale eq_numpy of an earlier variant selects that earlier variant's table, exactly
as the real likelihood would evaluate the earlier function) and looks the value up in that variant's table,
keyed on which entries of params are exactly zero.
"""
import contextlib
import csv
import io
import json
import os
import re
import shutil
import sys
import warnings


def fl(v):
    return float(v)


def txt(v):
    return "%.7e" % float(v)


class Lik:
    is_mse = False

    def __init__(self, d, variants):
        self.fn_dir = d + "/fn"
        self.base_out_dir = d + "/out"
        self.out_dir = d + "/out/o"
        self.temp_dir = d + "/out/t"
        self.by_fcn = {v["fcn"].strip(): v for v in variants}
        self.by_id = {}
        for v in variants:
            m = re.findall(r"\b[1-9]\d{3,}\b", v["fcn"])
            if len(m) == 1:
                self.by_id[m[0]] = v
        self.calls = []

    def run_sympify(self, fcn_i, tmax=5, try_integration=False):
        import esr.fitting.likelihood as L
        key = fcn_i.replace("\n", "").replace("'", "").strip()
        v = self.by_fcn[key]
        how = v.get("sympify", "ok")
        if how == "nameerror":
            raise NameError("name 'verif_missing' is not defined")
        if how == "error":
            raise ValueError("verif: sympify refused")
        return L.Likelihood.run_sympify(self, fcn_i)

    def negloglike(self, a, eq_numpy, integrated=False, **kw):
        import numpy as np
        a = np.ravel(np.asarray(a, dtype=float))
        key = "".join("1" if x == 0 else "0" for x in a)
        ids = re.findall(r"\b[1-9]\d{3,}\b", (eq_numpy.__doc__ or "").split("Expression:")[-1].split("Source code:")[0])
        if len(set(ids)) != 1 or ids[0] not in self.by_id:
            raise RuntimeError("c05 stub: cannot identify the function behind eq_numpy: %r" % ids)
        cur = self.by_id[ids[0]]
        self.calls.append([cur["fcn"], key])
        return fl(cur["table"].get(key, cur.get("dflt", "nan")))


def write_inputs(lik, comp, lib):
    d = lik.fn_dir + "/compl_%d" % comp
    os.makedirs(d)
    os.makedirs(lik.out_dir)
    with open(d + "/unique_equations_%d.txt" % comp, "w") as f:
        for u in lib["uniques"]:
            f.write(u["fcn"] + "\n")
    with open(d + "/all_equations_%d.txt" % comp, "w") as f:
        for v in lib["variants"]:
            f.write(v["fcn"] + "\n")
    with open(d + "/matches_%d.txt" % comp, "w") as f:
        for v in lib["variants"]:
            f.write("%d\n" % v["match"])
    with open(d + "/inv_subs_%d.txt" % comp, "w") as f:
        csv.writer(f, delimiter=";").writerows([list(v["chain"]) for v in lib["variants"]])
    with open(lik.out_dir + "/negloglike_comp%d.dat" % comp, "w") as f:
        for u in lib["uniques"]:
            f.write(" ".join(txt(x) for x in [u["nll"]] + list(u["params"])) + "\n")
    with open(lik.out_dir + "/derivs_comp%d.dat" % comp, "w") as f:
        for u in lib["uniques"]:
            f.write(" ".join(txt(x) for x in u["fish"]) + "\n")


def run(libs_path, workdir):
    warnings.simplefilter("ignore")
    import numpy as np
    np.seterr(all="ignore")
    import esr.fitting.match as M
    comm, rank = M.comm, M.rank
    libs = json.load(open(libs_path))
    out = []
    for li, lib in enumerate(libs):
        comp = 1 + li % 9
        d = os.path.join(workdir, "l%d" % li)
        lik = Lik(d, lib["variants"])
        if rank == 0:
            write_inputs(lik, comp, lib)
        comm.Barrier()
        exc = None
        try:
            with contextlib.redirect_stdout(io.StringIO()), contextlib.redirect_stderr(io.StringIO()):
                M.main(comp, lik)
        except BaseException as e:       # quit() raises SystemExit
            exc = "EXC:%s: %s" % (type(e).__name__, str(e)[:300])
            if M.size > 1:
                raise
        if rank == 0:
            p = lik.out_dir + "/codelen_matches_comp%d.dat" % comp
            rows = None
            if exc is None and os.path.exists(p):
                rows = [line.split() for line in open(p).read().splitlines()]
            out.append({"rows": rows, "exc": exc, "calls": lik.calls,
                        "leftover_temp": sorted(os.listdir(lik.temp_dir)) if os.path.isdir(lik.temp_dir) else None})
        comm.Barrier()
        if rank == 0:
            shutil.rmtree(d, ignore_errors=True)
    if rank == 0:
        sys.stdout.write("\n@@C05JSON@@")
        json.dump(out, sys.stdout)


def real(data_dir, data_file, run_name, fn_set, comp):
    """After fit_run.py ran the stages fit,fisher,match on a real library with a real GaussLikelihood: collect, per function of
    all_equations, the recorded chain, the unique's fitted row and Hessian row (as the TEXT of the files match.main read), the
    row of codelen_matches, and the real likelihood re-evaluated at the reported parameters through the function's own string."""
    warnings.simplefilter("ignore")
    import numpy as np
    import sympy
    np.seterr(all="ignore")
    import esr.fitting.likelihood as L
    import esr.generation.simplifier as S
    from esr.fitting.sympy_symbols import x, a0
    comp = int(comp)
    with contextlib.redirect_stdout(io.StringIO()):
        lik = L.GaussLikelihood(data_file, run_name, data_dir=data_dir, fn_set=fn_set)
    d = lik.fn_dir + "/compl_%d" % comp
    fcns = [l.strip() for l in open(d + "/all_equations_%d.txt" % comp)]
    uniq = [l.strip() for l in open(d + "/unique_equations_%d.txt" % comp)]
    matches = [int(float(l)) for l in open(d + "/matches_%d.txt" % comp)]
    with open(d + "/inv_subs_%d.txt" % comp) as f:
        chains = [r for r in csv.reader(f, delimiter=";")]
    nl = [l.split() for l in open(lik.out_dir + "/negloglike_comp%d.dat" % comp)]
    dv = [l.split() for l in open(lik.out_dir + "/derivs_comp%d.dat" % comp)]
    rows = [l.split() for l in open(lik.out_dir + "/codelen_matches_comp%d.dat" % comp)]
    maxp = len(nl[0]) - 1
    out = []
    for i, fcn in enumerate(fcns):
        n = int(S.count_params([fcn], maxp)[0])
        at = None
        try:
            if n == 0:
                raise LookupError
            f2, eq, integrated = lik.run_sympify(fcn, tmax=5, try_integration=False)
            pars = [float(t) for t in rows[i][3:3 + n]]
            if n == 1:
                eqn = sympy.lambdify([x, a0], eq, modules=["numpy"])
            else:
                eqn = sympy.lambdify([x] + list(sympy.symbols(" ".join("a%d" % j for j in range(max(n, 1))), real=True))[:1 + n], eq,
                                     modules=["numpy"])
            v = float(lik.negloglike(pars if n > 0 else [], eqn, integrated=integrated)) if n > 0 else None
            at = None if v is None else ("nan" if np.isnan(v) else "inf" if v == np.inf else "-inf" if v == -np.inf else repr(v))
        except LookupError:
            at = None
        except Exception as e:
            at = "EXC:" + type(e).__name__
        out.append({"fcn": fcn, "n": n, "match": matches[i], "chain": chains[i], "row": rows[i], "nll_at_reported": at})
    sys.stdout.write("\n@@C05JSON@@")
    json.dump({"maxp": maxp, "uniques": [{"fcn": u, "row": nl[k], "fish": dv[k]} for k, u in enumerate(uniq)], "variants": out}, sys.stdout)


if __name__ == "__main__":
    if sys.argv[1] == "run":
        run(sys.argv[2], sys.argv[3])
    elif sys.argv[1] == "real":
        real(*sys.argv[2:7])
