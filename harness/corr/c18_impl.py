"""Implementation-side driver for C18 (runs against the scratch copy).

stdin : JSON {"bases": {name: basis_functions}, "cases": [[basis_name, formula], ...]}
stdout: JSON list, one record per case:
  {"basis":..., "formula":...,
   "parses": {"0": [P0,P1,P2,P3], "1": [...]}        # key = evalf flag of string_to_node
        Pi = {"dump": D | None, "unsupported": reason | None, "to_list": [...] | "EXC:Type", "count": n | None}
   "node":  {"0": R, "1": R}      R = {"labels": [...], "count": n} | {"exc": "Type"}   (generator.string_to_node)
   "fit":   {"0": F, "1": F}      key = replace_floats; F = {"labels": [...]} | {"exc": "Type"}  (fit_single.fit_from_string
                                   with single_function replaced by a stub: everything before the fit runs for real)
   "aifeyn":{"0": A, "1": A}      A = {"compl": n} | {"exc": "Type"}                (fit_single.string_to_aifeyn)
  }
The dump D of a sympy expression (what DecoratedNode looks at):
  ["N", class_name, str(e), [p, q] exact value, [p, q] value of the printed string]   number atoms
  ["S", name]                                                                         symbols x, a<k>
  ["A", class_name, [D, ...]]                                                         everything else, .args order
"""
import contextlib
import io
import json
import sys
from fractions import Fraction

import sympy

import esr.generation.generator as generator
import esr.fitting.fit_single as fit_single

NUMCLS = ("Integer", "Rational", "Float", "Zero", "One", "NegativeOne", "Half")


class Unsupported(Exception):
    pass


def _floatable(s):
    try:
        float(s)
        return True
    except Exception:
        return False


def dump(e):
    cls = e.__class__.__name__
    if len(e.args) == 0:
        if e.is_symbol:
            if cls != "Symbol":
                raise Unsupported("symbol class " + cls)
            n = e.name
            if n == "x" or (n[0] == "a" and n[1:].isdigit() and n == "a%d" % int(n[1:])):
                return ["S", n]
            raise Unsupported("symbol name " + n)
        if cls in NUMCLS and e.is_number:
            txt = str(e)
            if cls == "Float":
                m, ex = (e._mpf_[1], e._mpf_[2])
                qv = Fraction(m) * (Fraction(2) ** ex)
                if e._mpf_[0]:
                    qv = -qv
            else:
                qv = Fraction(int(e.p), int(e.q))
            try:
                qp = Fraction(txt)
            except Exception:
                raise Unsupported("number text " + txt)
            if max(abs(qv.numerator), qv.denominator, abs(qp.numerator), qp.denominator).bit_length() > 1400:
                raise Unsupported("number with more than 400 digits")
            return ["N", cls, txt, [qv.numerator, qv.denominator], [qp.numerator, qp.denominator]]
        raise Unsupported("atom class " + cls)
    if e.is_symbol:
        raise Unsupported("compound symbol")
    if e.is_number:
        # the model takes `val` of a compound constant to be irrelevant: it must not read as a float and not be '2'/'3'
        txt = str(e)
        if _floatable(txt) or txt in ("2", "3"):
            raise Unsupported("compound constant printing as a number: " + txt)
    return ["A", cls, [dump(a) for a in e.args]]


PARSES = [(False, True), (False, False), (True, True), (True, False)]


def one_parse(s, basis, kern, evaluate, evalf):
    rec = {"dump": None, "unsupported": None, "to_list": None, "count": None}
    try:
        ex = generator.string_to_expr(s, kern=kern, evaluate=evaluate, locs=None)
        if evalf:
            ex = ex.evalf()
    except Exception as e:
        rec["unsupported"] = "parse:" + type(e).__name__
        rec["to_list"] = "EXC:" + type(e).__name__
        return rec
    try:
        rec["dump"] = dump(ex)
    except Unsupported as e:
        rec["unsupported"] = str(e)
    except Exception as e:
        rec["unsupported"] = "dump:" + type(e).__name__
    try:
        nodes = generator.DecoratedNode(ex, basis)
        tl = nodes.to_list(basis)
        rec["to_list"] = tl
        rec["count"] = nodes.count_nodes(basis)
    except Exception as e:
        rec["to_list"] = "EXC:" + type(e).__name__
    return rec


def run_case(bname, basis, s):
    out = {"basis": bname, "formula": s, "parses": {}, "node": {}, "fit": {}, "aifeyn": {}}
    for evalf in (0, 1):
        out["parses"][str(evalf)] = [one_parse(s, basis, k, e, bool(evalf)) for (k, e) in PARSES]
        try:
            expr, nodes, c = generator.string_to_node(s, basis, evalf=bool(evalf))
            out["node"][str(evalf)] = {"labels": nodes.to_list(basis), "count": int(c)}
        except Exception as e:
            out["node"][str(evalf)] = {"exc": type(e).__name__}
    for rf in (0, 1):
        captured = {}

        def stub(labels, basis_functions, likelihood, **kw):
            captured["labels"] = list(labels)
            return (0.0, 0.0, []) if kw.get("return_params") else (0.0, 0.0)
        saved = fit_single.single_function
        fit_single.single_function = stub
        try:
            with contextlib.redirect_stdout(io.StringIO()):
                res = fit_single.fit_from_string(s, basis, None, replace_floats=bool(rf))
            out["fit"][str(rf)] = {"labels": list(res[2])}
        except Exception as e:
            out["fit"][str(rf)] = {"exc": type(e).__name__}
        finally:
            fit_single.single_function = saved
        try:
            with contextlib.redirect_stdout(io.StringIO()):
                a, c = fit_single.string_to_aifeyn(s, basis, verbose=False, replace_floats=bool(rf))
            out["aifeyn"][str(rf)] = {"compl": int(c)}
        except Exception as e:
            out["aifeyn"][str(rf)] = {"exc": type(e).__name__}
    return out


class _Timeout(BaseException):
    pass


def _alarm(signum, frame):
    raise _Timeout()


def main():
    import signal
    signal.signal(signal.SIGALRM, _alarm)
    job = json.load(sys.stdin)
    bases = job["bases"]
    limit = int(job.get("limit", 30))
    res = []
    for bname, s in job["cases"]:
        # sympy (powsimp / factor / evalf of towers of powers) can run for minutes: such formulas are set aside
        try:
            signal.alarm(limit)
            rec = run_case(bname, bases[bname], s)
        except _Timeout:
            rec = {"basis": bname, "formula": s, "timeout": True}
        finally:
            signal.alarm(0)
        res.append(rec)
    json.dump(res, sys.stdout)


if __name__ == "__main__":
    main()
