"""Implementation-side driver for C14 (runs against the scratch copy)."""
import contextlib
import io
import json
import os
import sys
import tempfile


class _Timeout(Exception):
    pass


def _alarm(signum, frame):
    raise _Timeout()


def arith(nmax, pmax):
    import signal
    signal.signal(signal.SIGALRM, _alarm)
    import esr.generation.utils as utils
    import esr.fitting.test_all as test_all

    class Comm:
        def Barrier(self):
            pass
    test_all.comm = Comm()
    d = tempfile.mkdtemp(prefix="c14.", dir=os.environ.get("ESRV_TMP", "/var/tmp"))

    class Lik:
        pass
    lik = Lik()
    lik.fn_dir = d + "/fn/"
    lik.base_out_dir = d + "/out"
    lik.out_dir = d + "/out/o"
    lik.temp_dir = d + "/out/t"
    os.makedirs(lik.fn_dir + "/compl_1")
    out = []
    for N in range(0, nmax + 1):
        with open(lik.fn_dir + "/compl_1/unique_equations_1.txt", "w") as f:
            for i in range(N):
                f.write("f%d\n" % i)
        for P in range(1, pmax + 1):
            for r in range(P):
                try:
                    signal.alarm(3)
                    si = utils.split_idx(N, r, P)
                    si = [int(v) for v in si]
                except Exception as e:
                    si = "EXC:" + type(e).__name__
                finally:
                    signal.alarm(0)
                test_all.rank, test_all.size = r, P
                try:
                    signal.alarm(3)
                    with contextlib.redirect_stdout(io.StringIO()):
                        fl, ds, de = test_all.get_functions(1, lik)
                    gf = [[int(s.strip()[1:]) for s in fl], int(ds), int(de)]
                except Exception as e:
                    gf = "EXC:" + type(e).__name__
                finally:
                    signal.alarm(0)
                out.append([N, P, r, si, gf])
    import shutil
    shutil.rmtree(d, ignore_errors=True)
    json.dump(out, sys.stdout)


def ctor_trace():
    """Trace the directory operations of the real Likelihood constructors and of get_functions."""
    import fstrace
    d = tempfile.mkdtemp(prefix="c14t.", dir=os.environ.get("ESRV_TMP", "/var/tmp"))
    import numpy as np
    np.savetxt(d + "/data.txt", np.array([[1.0, 2.0, 0.1], [2.0, 3.0, 0.1], [3.0, 5.0, 0.2]]))
    res = {}
    import esr.fitting.likelihood as L
    with fstrace.Trace() as t:
        lik = L.GaussLikelihood("data.txt", "verif_run", data_dir=d)
    res["ctor"] = t.ops_rel(d)
    import esr.fitting.test_all as test_all
    os.makedirs(lik.fn_dir + "/compl_1", exist_ok=True)
    with open(lik.fn_dir + "/compl_1/unique_equations_1.txt", "w") as f:
        f.write("x\na0\n")
    for r in (0, 1):
        class Comm:
            def Barrier(self):
                fstrace.CURRENT.ops.append(("barrier", ""))
        test_all.comm = Comm()
        test_all.rank, test_all.size = r, 2
        with fstrace.Trace() as t, contextlib.redirect_stdout(io.StringIO()):
            test_all.get_functions(1, lik)
        res["gf%d" % r] = t.ops_rel(d)
    res["dirs"] = [os.path.relpath(p, d) for p in (lik.like_dir, lik.base_out_dir, lik.out_dir, lik.temp_dir)]
    import shutil
    shutil.rmtree(d, ignore_errors=True)
    json.dump(res, sys.stdout)


def ctor_gated(datadir):
    """One rank of a gated constructor run (see fsgate)."""
    import fsgate
    fsgate.install()
    import esr.fitting.likelihood as L
    fsgate.arm()
    try:
        L.GaussLikelihood("data.txt", "verif_run", data_dir=datadir)
        fsgate.finish("ok")
    except BaseException as e:
        fsgate.finish("EXC:%s:%s" % (type(e).__name__, e))
        sys.exit(3)


if __name__ == "__main__":
    cmd = sys.argv[1]
    if cmd == "arith":
        arith(int(sys.argv[2]), int(sys.argv[3]))
    elif cmd == "ctor_trace":
        ctor_trace()
    elif cmd == "ctor_gated":
        ctor_gated(sys.argv[2])
