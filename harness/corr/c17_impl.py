"""Implementation-side driver for C17 (runs against the scratch copy, /venv/bin/python).

Commands (JSON on stdin where noted, JSON on stdout):
  build            stdin: [descriptor...]          -> [str]   cells built the way sympy_simplify builds them
  mkfile DIR       stdin: {rows:[[descriptor]], max_param, points}  writes DIR/subs.txt (real csv writer path)
                                                   and DIR/written.json
  load DIR K       (under esrv.run_mpi) real simplifier.load_subs(DIR/subs.txt, K) in both modes
  chains           stdin: {alphabet:[str|"nan"], L, k}  real simplify_inv_subs on every chain up to length L
  emit             real sympy_simplify on crafted inputs -> emitted cells
  gen C            real duplicate_checker.main('verif_c17', 1..C) -> round files, index files, final files
  compose          stdin: {chains:[[str|"nan"]], k, points} numeric composition before/after the real cancellation
"""
import contextlib
import csv
import hashlib
import io
import itertools
import json
import os
import sys

import numpy as np
import sympy


def _syms(k):
    if k == 0:
        return []
    a = sympy.symbols(" ".join('a%i' % i for i in range(k)), real=True)
    return [a] if k == 1 else list(a)


def build_obj(desc, all_a):
    """The object whose str() sympy_simplify appends to inv_subs (same constructors, same argument types)."""
    from esr.fitting.sympy_symbols import square, pow_abs, sqrt_abs, log_abs
    kind = desc[0]
    if kind == "nan":
        return np.nan
    if kind == "ren":
        return {all_a[k]: all_a[v] for k, v in desc[1]}
    a = all_a[desc[1]]
    if kind == "neg":
        return {a: -a}
    if kind == "inv":
        return {a: 1 / a}
    if kind == "scale":                       # str({a: a/n}) for a number n of the expression
        _, _, neg, n, d = desc
        nn = sympy.Rational(d, n) * (-1 if neg else 1)
        return {a: a / nn}
    if kind == "root":                        # str({a: a ** (1/n)}) for odd n
        _, _, neg, m = desc
        n = sympy.Integer(-m if neg else m)
        return {a: a ** (1 / n)}
    if kind == "absroot":                     # str({a: pow_abs(a, 1/n)}) / pow_abs(a, 1/(n+1))
        _, _, neg, m = desc
        n = sympy.Integer(-m if neg else m)
        return {a: pow_abs(a, 1 / n)}
    if kind == "absrootsign":                 # str({a: pow_abs(a, 1/(n+1)) * sign(a)})
        _, _, neg, m = desc
        n = sympy.Integer(-m if neg else m)
        return {a: pow_abs(a, 1 / n) * sympy.sign(a)}
    if kind == "intpow":
        n = desc[2]
        return {a: square(a)} if n == 2 else {a: a ** sympy.Integer(n)}
    if kind == "exp":
        return {a: sympy.exp(a)}
    if kind == "logabs":
        return {a: log_abs(a)}
    if kind == "fcbrt":
        return {a: a ** (1 / 3)}
    if kind == "absfcbrt":
        return {a: pow_abs(a, 1 / 3)}
    if kind == "valnan":
        return {a: pow_abs(a, 1 / sympy.Integer(0))}
    if kind == "sqrtabs":
        return {a: sqrt_abs(a)}
    raise ValueError("unknown descriptor %r" % (desc,))


class _Timeout(Exception):
    pass


def _alarm(signum, frame):
    raise _Timeout()


def num(v, pt, all_a):
    """numeric value of a sympy expression at a point (complex as [re, im]); 'nan' / 'err:...' (also on a 3 s timeout:
    towers of exponentials do not evaluate)"""
    import signal
    signal.signal(signal.SIGALRM, _alarm)
    try:
        signal.alarm(3)
        z = complex(sympy.sympify(v).evalf(25, subs={all_a[i]: sympy.Float(repr(pt[i]), 30) for i in range(len(all_a))}))
        signal.alarm(0)
        if z != z:
            return "nan"
        if abs(z) > 1e250:
            return "err:huge"
        return [z.real, z.imag]
    except BaseException as e:
        signal.alarm(0)
        if isinstance(e, (KeyboardInterrupt, SystemExit)):
            raise
        return "err:" + type(e).__name__


def cmd_build():
    descs = json.load(sys.stdin)
    all_a = _syms(6)
    json.dump([str(build_obj(d, all_a)) for d in descs], sys.stdout)


def cmd_mkfile(d):
    spec = json.load(sys.stdin)
    K = spec["max_param"]
    all_a = _syms(max(K, 6))
    rows_obj = [[build_obj(c, all_a) for c in row] for row in spec["rows"]]
    # the writers of simplifier.do_sympy / duplicate_checker.main: rows of str(...) through csv.writer(delimiter=';')
    data = [[str(o) for o in row] for row in rows_obj]
    with open(os.path.join(d, "subs.txt"), "w") as f:
        writer = csv.writer(f, delimiter=';')
        writer.writerows(data)
    out = []
    for row in rows_obj:
        r = []
        for o in row:
            if isinstance(o, float):
                r.append({"s": str(o), "nan": True})
            else:
                r.append({"s": str(o), "kv": [[str(k), str(v)] for k, v in o.items()],
                          "num": [[num(v, pt, all_a) for v in o.values()] for pt in spec["points"]]})
        out.append(r)
    with open(os.path.join(d, "written.json"), "w") as f:
        json.dump({"rows": out, "points": spec["points"], "max_param": K}, f)
    print(json.dumps({"rows": len(data), "cells": sum(len(r) for r in data)}))


def cmd_load(dirs, K, numeric, small):
    """real load_subs on every directory of the comma-separated list (one process start for many files)"""
    import esr.generation.simplifier as S
    all_a = _syms(max(K, 6))
    results = []
    for d in dirs.split(","):
        fname = os.path.join(d, "subs.txt")
        with open(os.path.join(d, "written.json")) as f:
            spec = json.load(f)
        with contextlib.redirect_stdout(io.StringIO()):
            obj = S.load_subs(fname, K)                      # sympy objects, broadcast to every rank
            txt = S.load_subs(fname, K, use_sympy=False)     # the mode duplicate_checker uses
            only0 = S.load_subs(fname, K, bcast_res=False) if small else (obj if S.rank == 0 else None)
        rows = []
        for row in obj:
            r = []
            for o in row:
                if isinstance(o, float):
                    r.append({"nan": bool(o != o), "is_np_nan": o is np.nan})
                elif isinstance(o, dict):
                    c = {"kv": [[str(k), str(v)] for k, v in o.items()]}
                    if numeric and S.rank == 0:
                        c["num"] = [[num(v, pt, all_a) for v in o.values()] for pt in spec["points"]]
                    r.append(c)
                else:
                    r.append({"other": repr(o)})
            rows.append(r)
        trows = [[("nan" if isinstance(o, float) and o != o else o) for o in row] for row in txt]
        # second generation: duplicate_checker.main writes the rows it read in text mode back with csv.writer and every later stage
        # reads THAT file; the mapping must survive this step too
        rows2 = None
        if numeric:
            f2 = os.path.join(d, "subs_second.txt")
            if S.rank == 0:
                with open(f2, "w") as f:
                    csv.writer(f, delimiter=';').writerows([[str(o) for o in row] for row in txt])
            S.comm.Barrier()
            with contextlib.redirect_stdout(io.StringIO()):
                obj2 = S.load_subs(f2, K)
            if S.rank == 0:
                rows2 = []
                for row in obj2:
                    r = []
                    for o in row:
                        if isinstance(o, float):
                            r.append({"nan": bool(o != o)})
                        elif isinstance(o, dict):
                            r.append({"kv": [[str(k), str(v)] for k, v in o.items()],
                                      "num": [[num(v, pt, all_a) for v in o.values()] for pt in spec["points"]]})
                        else:
                            r.append({"other": repr(o)})
                    rows2.append(r)
        plain = [[({"kv": c["kv"]} if "kv" in c else c) for c in row] for row in rows]
        digest = hashlib.sha1(json.dumps([plain, trows], sort_keys=True).encode()).hexdigest()
        if S.rank == 0:
            results.append({"rank": 0, "size": S.size, "rows": rows, "txt": trows, "rows_second": rows2, "only0_is_none": only0 is None, "digest": digest})
        else:
            results.append({"rank": S.rank, "digest": digest, "only0_is_none": only0 is None})
    json.dump(results, sys.stdout)


def cmd_chains():
    import esr.generation.simplifier as S
    spec = json.load(sys.stdin)
    alpha = [np.nan if s == "nan" else s for s in spec["alphabet"]]
    A = len(alpha)
    k = spec["k"]
    all_dup = S.get_all_dup(k)
    enc = []
    for L in range(spec["L"] + 1):
        for idx in itertools.product(range(A), repeat=L):
            chain = [alpha[i] for i in idx]
            res = S.simplify_inv_subs(chain, all_dup)
            if res is None:
                res = []          # duplicate_checker.main: None is written as the empty row
            v = 0
            for x in res:
                j = [t for t in range(A) if (alpha[t] is x)]
                if not j:
                    j = [t for t in range(A) if alpha[t] == x]
                v = v * (A + 1) + (j[0] + 1)
            enc.append(v)
    dups = {str(kk): S.get_all_dup(kk) for kk in range(0, 7)}
    json.dump({"enc": [str(v) for v in enc], "all_dup": dups}, sys.stdout)


CRAFTED = {
    1: ["2*a0*x", "x*a0/3", "-a0*x", "pow(x,a0**2)", "x + a0**3", "x+Abs(a0)**3", "x+sqrt_abs(a0)", "x*log_abs(a0)",
        "x+exp(a0)", "x + a0**4", "x+a0**(-2)", "x+a0**(-3)", "x+ a0**3*Abs(a0)", "x+ a0**2*Abs(a0)",
        "x+Abs(a0)/a0**3", "x - 3*a0/2", "x+a0**5*Abs(a0)", "x+inv(a0)", "x + Abs(a0)/a0", "x+a0**(-5)*Abs(a0)",
        "x + a0**(-4)*Abs(a0)", "x + a0**6", "x+a0**(-4)", "x + a0**5", "x+a0**7", "x*a0*5/7", "x-a0/4", "x+cube(a0)",
        "x+square(a0)", "x+cube(Abs(a0))", "x + a0**(-6)", "x+12*a0", "x+a0/12", "x - 12*a0/11"],
    2: ["a0*x+a1", "a1*x+a0", "a0*x - a1", "pow(x,a0)+a1*x", "pow(x,a1)+a0*x", "a1+x", "a0 - a1*x", "pow(x,a0) - a1",
        "pow(x,a0)+a1", "a0*a1*x", "(a0+a1)*x", "a0/a1 + x", "x*(a0 - a1)", "pow(x, a0*a1)", "x + Abs(a0)*Abs(a1)",
        "2*a1*x + a0", "a1**2 + a0*x"],
    3: ["a2*x+a0", "a0*pow(x,a1)+a2", "a2*pow(x,a0)+a1", "a1*pow(x,a2)+a0", "pow(x,a0)+a1*x+a2", "a2 + x", "a1*x + a2"],
}


def cmd_emit():
    import esr.generation.simplifier as S
    from esr.generation.custom_printer import ESRPrinter
    from esr.fitting.sympy_symbols import sympy_locs
    pr = ESRPrinter()
    out = []
    for K, funs in sorted(CRAFTED.items()):
        all_a = _syms(K)
        locs = dict(sympy_locs)
        for i, a in enumerate(all_a):
            locs['a%i' % i] = a
        for expand in (False, True):
            syms = [sympy.sympify(f, locals=locs) for f in funs]
            strs = [pr.doprint(s) for s in syms]
            inv = [None] * len(funs)
            with contextlib.redirect_stdout(io.StringIO()):
                f2, e2, t2 = S.sympy_simplify(list(strs), list(syms), inv, K, expand_fun=expand, tmax=20, check_perm=True)
            for src, new, cells in zip(strs, f2, t2):
                out.append({"K": K, "expand": expand, "fun": src, "new": new, "cells": cells})
    json.dump(out, sys.stdout)


def _read_rows(path):
    with open(path, 'r') as f:
        return [r for r in csv.reader(f, delimiter=';')]


def cmd_gen(C):
    import shutil
    import esr.generation.duplicate_checker as dc
    import esr.generation.simplifier as S
    import esr.generation.generator as generator
    orig = S.check_results

    def wrapped(dirname, compl, *a, **kw):
        # snapshot the file written by duplicate_checker.main before check_results blanks rows
        shutil.copy(dirname + '/inv_subs_%i.txt' % compl, dirname + '/inv_subs_%i.pre.txt' % compl)
        return orig(dirname, compl, *a, **kw)
    S.check_results = wrapped
    out = []
    for c in range(1, C + 1):
        with contextlib.redirect_stdout(io.StringIO()):
            dc.main('verif_c17', c, search_tmax=20)
        d = os.path.abspath(os.path.join(os.path.dirname(generator.__file__), '..', 'function_library', 'verif_c17', 'compl_%i' % c))
        with open(d + '/all_equations_%i.txt' % c) as f:
            all_fun = f.read().splitlines()
        K = S.get_max_param(all_fun, verbose=False)
        rounds = []
        r = 0
        while os.path.exists(d + '/inv_subs_%i_round_%i.txt' % (c, r)):
            rows = _read_rows(d + '/inv_subs_%i_round_%i.txt' % (c, r))
            idx = [int(v) for v in np.atleast_1d(np.loadtxt(d + '/inv_idx_%i_round_%i.txt' % (c, r), dtype=int))] if rows else []
            rounds.append({"rows": rows, "idx": idx})
            r += 1
        final = _read_rows(d + '/inv_subs_%i.txt' % c)
        pre = _read_rows(d + '/inv_subs_%i.pre.txt' % c) if os.path.exists(d + '/inv_subs_%i.pre.txt' % c) else final
        out.append({"compl": c, "max_param": K, "ntot": len(all_fun), "rounds": rounds, "final": final, "pre": pre,
                    "all_dup": S.get_all_dup(K)})
    json.dump(out, sys.stdout)


def cmd_compose():
    import tempfile
    import esr.generation.simplifier as S
    spec = json.load(sys.stdin)
    k = spec["k"]
    all_a = _syms(k)
    all_dup = S.get_all_dup(k)
    chains = [[np.nan if s == "nan" else s for s in ch] for ch in spec["chains"]]
    after = []
    for ch in chains:
        r = S.simplify_inv_subs(list(ch), all_dup)
        after.append([] if r is None else r)
    # strings -> sympy dicts through the real file format and the real reader
    d = tempfile.mkdtemp(prefix="c17c.", dir=os.environ.get("ESRV_TMP", "/var/tmp"))
    try:
        with open(d + "/subs.txt", "w") as f:
            writer = csv.writer(f, delimiter=';')
            writer.writerows(chains + after)
        with contextlib.redirect_stdout(io.StringIO()):
            loaded = S.load_subs(d + "/subs.txt", k)
    finally:
        import shutil
        shutil.rmtree(d, ignore_errors=True)
    n = len(chains)
    out = []

    def compose(subs):
        if any(isinstance(s, float) for s in subs):
            return None
        p = sympy.Array(sympy.symbols(" ".join('a%i' % i for i in range(k)), real=True)) if k > 1 else sympy.Array([all_a[0]])
        for s in subs:                                   # convert_params lines: p = p.subs(inv_subs[i], simultaneous=True)
            p = p.subs(s, simultaneous=True)
        return p

    for i in range(n):
        b, a = loaded[i], loaded[n + i]
        rec = {"after": ["nan" if isinstance(s, float) else s for s in after[i]],
               "nan_before": any(isinstance(s, float) for s in b), "nan_after": any(isinstance(s, float) for s in a)}
        pb, pa = compose(b), compose(a)
        if pb is not None and pa is not None:
            rec["before"] = [[num(x, pt, all_a) for x in pb] for pt in spec["points"]]
            rec["aft"] = [[num(x, pt, all_a) for x in pa] for pt in spec["points"]]
            if i < int(spec.get("convert_params") or 0):
                # the real consumer, when it runs on both
                cp = []
                for pt in spec["points"][:1]:
                    fish = np.zeros((k, k))
                    fish[np.diag_indices(k)] = 1.0
                    fm = fish[np.triu_indices(k)]
                    r2 = []
                    for subs in (b, a):
                        import signal
                        signal.signal(signal.SIGALRM, _alarm)
                        try:
                            signal.alarm(5)
                            with np.errstate(all='ignore'):
                                pn, _ = S.convert_params(list(pt[:k]), fm, list(subs), n=k)
                            signal.alarm(0)
                            pn = np.atleast_1d(np.array(pn, dtype=complex)).ravel()
                            if not np.all(np.isfinite(pn)):
                                r2.append("err:nonfinite")
                            else:
                                r2.append([[float(z.real), float(z.imag)] for z in pn])
                        except BaseException as e:
                            signal.alarm(0)
                            if isinstance(e, (KeyboardInterrupt, SystemExit)):
                                raise
                            r2.append("err:" + type(e).__name__)
                    cp.append(r2)
                rec["cp"] = cp
        out.append(rec)
    json.dump(out, sys.stdout)


if __name__ == "__main__":
    cmd = sys.argv[1]
    if cmd == "build":
        cmd_build()
    elif cmd == "mkfile":
        cmd_mkfile(sys.argv[2])
    elif cmd == "load":
        cmd_load(sys.argv[2], int(sys.argv[3]), "num" in sys.argv[4:], "small" in sys.argv[4:])
    elif cmd == "chains":
        cmd_chains()
    elif cmd == "emit":
        cmd_emit()
    elif cmd == "gen":
        cmd_gen(int(sys.argv[2]))
    elif cmd == "compose":
        cmd_compose()
