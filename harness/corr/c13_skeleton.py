"""Fingerprint of the communication skeleton of ESR's generation stage: for each function that
distributes work, the source-order list of statements that mention the communicator, split_idx,
array_split, itertools.chain or the merge guard.  coq/Model/Dist.v was written against exactly these
skeletons; a change to any of them means the hand-written model may no longer describe the code."""
import ast
import json
import os
import sys

SITES = {
    "esr/generation/generator.py": ["shape_to_functions"],
    "esr/generation/simplifier.py": ["make_changes", "initial_sympify", "sympy_simplify", "expand_or_factor", "load_subs", "check_results", "do_sympy"],
    "esr/generation/duplicate_checker.py": ["main"],
}
KEYS = ("comm.", "split_idx", "array_split", "itertools.chain", "change_indices[:i]", "start_idx", "shufidx",
        # the slice arithmetic derived from split_idx / array_split and the guards that use it
        "imin", "imax", "len(i)", "i[0]", "i[-1]", "nfun")


def simple_statements(fn):
    for node in ast.walk(fn):
        if isinstance(node, (ast.Assign, ast.AugAssign, ast.Expr, ast.Return)):
            yield node
        elif isinstance(node, (ast.If, ast.While)):
            yield ast.Expr(value=node.test, lineno=node.lineno, col_offset=0)
        elif isinstance(node, ast.For):
            yield ast.Expr(value=ast.Tuple(elts=[node.target, node.iter], ctx=ast.Load()), lineno=node.lineno, col_offset=0)


def fingerprint(root):
    out = {}
    for rel, fns in SITES.items():
        tree = ast.parse(open(os.path.join(root, rel)).read())
        for fn in [n for n in ast.walk(tree) if isinstance(n, ast.FunctionDef) and n.name in fns]:
            items = []
            for st in sorted(simple_statements(fn), key=lambda s: (s.lineno, s.col_offset)):
                txt = ast.unparse(st)
                if any(k in txt for k in KEYS) and "print(" not in txt:
                    items.append(txt)
            out["%s::%s" % (rel, fn.name)] = items
    return out


if __name__ == "__main__":
    json.dump(fingerprint(sys.argv[1]), sys.stdout, indent=1)
