"""Run ESR function generation (duplicate_checker.main) in the scratch copy.
usage: gen_run.py <runname> <compl> [<compl> ...]     (basis for verif_* run names from ESR_VERIF_BASIS)
Output goes to <scratch>/esr/function_library/<runname>/compl_<n>/ ."""
import sys
import contextlib
import io
import os

runname = sys.argv[1]
import esr.generation.duplicate_checker as dc
quiet = os.environ.get("ESRV_QUIET", "1") == "1"
for c in sys.argv[2:]:
    if quiet:
        with contextlib.redirect_stdout(io.StringIO()):
            dc.main(runname, int(c))
    else:
        dc.main(runname, int(c))
print("GEN-DONE", runname, sys.argv[2:])
