"""Run ESR fitting stages in the scratch copy.
usage: fit_run.py <likelihood:gauss|poisson|mse> <data_dir> <data_file> <run_name> <fn_set> <comp> <stages csv: fit,fisher,match,combine> [log_opt]
The function library must already exist in <scratch>/esr/function_library/<fn_set>/compl_<comp>/ ."""
import contextlib
import io
import os
import sys
import traceback

kind, data_dir, data_file, run_name, fn_set, comp, stages = sys.argv[1:8]
log_opt = len(sys.argv) > 8 and sys.argv[8] == "log"
comp = int(comp)
import numpy as np
np.random.seed(int(os.environ.get("ESRV_FIT_SEED", "1234")))
import esr.fitting.likelihood as L
cls = {"gauss": L.GaussLikelihood, "poisson": L.PoissonLikelihood, "mse": L.MSE}[kind]
quiet = os.environ.get("ESRV_QUIET", "1") == "1"
out = io.StringIO() if quiet else sys.stdout
try:
    with contextlib.redirect_stdout(out):
        lik = cls(data_file, run_name, data_dir=data_dir, fn_set=fn_set)
        for st in stages.split(","):
            if st == "fit":
                import esr.fitting.test_all as m
                m.main(comp, lik, log_opt=log_opt)
            elif st == "fisher":
                import esr.fitting.test_all_Fisher as m
                m.main(comp, lik)
            elif st == "match":
                import esr.fitting.match as m
                m.main(comp, lik)
            elif st == "combine":
                import esr.fitting.combine_DL as m
                m.main(comp, lik)
except BaseException:
    sys.stderr.write(traceback.format_exc())
    sys.stderr.write(out.getvalue()[-1500:] if quiet else "")
    sys.exit(2)
print("FIT-DONE", lik.out_dir)
