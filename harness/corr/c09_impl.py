"""Implementation-side driver for C09 (runs against the scratch copy, /venv/bin/python).

stdin : JSON {"mode": "cases"|"ctor", "cases": [...]}
stdout: JSON list, one answer per case.

A case: {"cls": name, "x": [v..], "y": [v..], "s": [v..], "pred": {"kind": "vec"|"scalar"|"raise", "vals": [v..]}}
A value v: ["q", num, den] (exact dyadic rational) | "nan" | "inf" | "-inf" | ["c", re, im] | ["f", float.hex()]
           | ["z", re_hex]  (complex-dtype entry with zero imaginary part)
An answer: {"r": ["fin", hex] | ["inf"] | ["-inf"] | ["nan"] | ["raise", type] | ["complex", re_hex, im_hex] | ["other", repr],
            "x_is_xvar": bool, "ncalls": int}
"""
import json
import math
import os
import shutil
import sys
import tempfile
import warnings

import numpy as np

warnings.simplefilter("ignore")
import esr.fitting.likelihood as L   # noqa: E402

CLS = {"GaussLikelihood": L.GaussLikelihood, "PoissonLikelihood": L.PoissonLikelihood, "CCLikelihood": L.CCLikelihood,
       "MockLikelihood": L.MockLikelihood, "MSE": L.MSE}


def val(v):
    if v == "nan":
        return float("nan")
    if v == "inf":
        return float("inf")
    if v == "-inf":
        return float("-inf")
    if v[0] == "q":
        f = v[1] / v[2]
        assert f * v[2] == v[1], "inexact rational %r" % (v,)
        return f
    if v[0] == "f":
        return float.fromhex(v[1])
    if v[0] == "c":
        return complex(v[1], v[2])
    if v[0] == "z":
        return complex(float.fromhex(v[1]), 0.0)
    raise ValueError(v)


def arr(vs):
    xs = [val(v) for v in vs]
    if any(isinstance(x, complex) for x in xs):
        return np.array(xs, dtype=complex)
    return np.array(xs, dtype=float)


def classify(r):
    if isinstance(r, np.ndarray) and r.ndim > 0:
        return ["other", "array%r" % (r.shape,)]
    if isinstance(r, (complex, np.complexfloating)):
        return ["complex", float(r.real).hex(), float(r.imag).hex()]
    try:
        f = float(r)
    except Exception:
        return ["other", repr(r)[:80]]
    if math.isnan(f):
        return ["nan"]
    if math.isinf(f):
        return ["inf"] if f > 0 else ["-inf"]
    return ["fin", f.hex()]


def make(case):
    """the object with its data attributes set directly (no files); CC/Mock: inv_cov as the constructor computes it"""
    cls = CLS[case["cls"]]
    o = object.__new__(cls)
    o.xvar = arr(case["x"])
    o.yvar = arr(case["y"])
    if case["cls"] in ("GaussLikelihood", "CCLikelihood", "MockLikelihood"):
        o.yerr = arr(case["s"])
    if case["cls"] in ("CCLikelihood", "MockLikelihood"):
        o.inv_cov = 1 / o.yerr ** 2
    if case["cls"] == "PoissonLikelihood":
        o.yerr = np.sqrt(o.yvar)
    if case["cls"] == "MSE":
        o.yerr = 0.
    return o


def run_case(o, case):
    p = case["pred"]
    info = {"x_is_xvar": True, "ncalls": 0}
    if p["kind"] == "vec":
        pv = arr(p["vals"])
    elif p["kind"] == "scalar":
        pv = val(p["vals"][0])

    def eq_numpy(x, *a):
        info["ncalls"] += 1
        info["x_is_xvar"] = info["x_is_xvar"] and (x is o.xvar)
        if p["kind"] == "raise":
            raise ZeroDivisionError("model function raised")
        if p["kind"] == "model":
            # a real model function: finite value, non-finite intermediate (see C09.search (a3))
            if p["form"] == "logistic":
                return p["c"] + 1 / (1 + np.exp(a[0] * (a[1] - x)))
            return p["c"] + 1 / (a[0] + 1 / x)
        return pv
    try:
        r = o.negloglike(case.get("a", [1.0]), eq_numpy)
        info["r"] = classify(r)
    except Exception as e:
        info["r"] = ["raise", type(e).__name__]
    return info


def run_seq(case):
    """several evaluations on ONE object, as the pipeline does (the same likelihood object evaluates every function of a library).
    A step's prediction is a given vector/scalar, or "alias_x": the model function returns the very array it was given
    (sympy.lambdify(x, x), ESR's complexity-1 function `x`).  Reports every step's value and whether the data attributes the
    object was created with are still what they were."""
    o = make(case)
    keep = {k: np.array(getattr(o, k), copy=True) for k in ("xvar", "yvar", "yerr", "inv_cov") if hasattr(o, k)}
    out = []
    for p in case["steps"]:
        if p["kind"] == "alias_x":
            def eq_numpy(x, *a):
                return x
            try:
                r = classify(o.negloglike([], eq_numpy))
            except Exception as e:
                r = ["raise", type(e).__name__]
        else:
            r = run_case(o, {"pred": p})["r"]
        same = all(np.array_equal(np.asarray(getattr(o, k)), v, equal_nan=True) for k, v in keep.items())
        out.append({"r": r, "data_unchanged": bool(same)})
    return {"steps": out}


def ctor_case(case, tmp):
    """build the object through its real constructor from a data file, report the attributes negloglike reads"""
    name = case["cls"]
    x, y, s = arr(case["x"]), arr(case["y"]), arr(case["s"])
    rows = "".join("%r %r %r\n" % (float(a), float(b), float(c)) for a, b, c in zip(x, y, s))
    rows2 = "".join("%r %r\n" % (float(a), float(b)) for a, b in zip(x, y))
    d = tempfile.mkdtemp(prefix="c09.", dir=tmp)
    try:
        if name == "CCLikelihood":
            # the constructor has a fixed path inside the (scratch) package: replace the scratch file
            path = os.path.join(os.path.dirname(L.__file__), "..", "data", "CC_Hubble.dat")
            with open(path, "w") as f:
                f.write(rows)
            o = L.CCLikelihood()
        elif name == "MockLikelihood":
            os.makedirs(d + "/mock")
            with open(d + "/mock/CC_Hubble_%i_%s.dat" % (len(x), "0.1"), "w") as f:
                f.write(rows)
            o = L.MockLikelihood(len(x), 0.1, data_dir=d)
        elif name == "PoissonLikelihood":
            with open(d + "/data.txt", "w") as f:
                f.write(rows2)
            o = L.PoissonLikelihood("data.txt", "c09", data_dir=d)
        else:
            with open(d + "/data.txt", "w") as f:
                f.write(rows)
            o = CLS[name]("data.txt", "c09", data_dir=d)
        shift = 1.0 if name in ("CCLikelihood", "MockLikelihood") else 0.0
        out = {"xvar_ok": bool(np.array_equal(np.atleast_1d(o.xvar), x + shift)),
               "yvar_ok": bool(np.array_equal(np.atleast_1d(o.yvar), y))}
        if name in ("GaussLikelihood", "CCLikelihood", "MockLikelihood"):
            out["yerr_ok"] = bool(np.array_equal(np.atleast_1d(o.yerr), s))
        if name in ("CCLikelihood", "MockLikelihood"):
            out["inv_cov_ok"] = bool(np.array_equal(np.atleast_1d(o.inv_cov), 1 / s ** 2))
        # make the data 1-d again when the file had a single row (loadtxt returns 0-d arrays)
        out.update(run_case(o, case))
        return out
    finally:
        shutil.rmtree(d, ignore_errors=True)


def main():
    req = json.load(sys.stdin)
    out = []
    if req["mode"] == "cases":
        for case in req["cases"]:
            out.append(run_case(make(case), case))
    elif req["mode"] == "seq":
        for case in req["cases"]:
            out.append(run_seq(case))
    elif req["mode"] == "ctor":
        tmp = os.environ.get("ESRV_TMP", "/var/tmp")
        for case in req["cases"]:
            try:
                out.append(ctor_case(case, tmp))
            except Exception as e:
                out.append({"r": ["raise", "CTOR:" + type(e).__name__ + ":" + str(e)[:200]]})
    json.dump(out, sys.stdout)


if __name__ == "__main__":
    main()
