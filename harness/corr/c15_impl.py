"""Implementation-side driver for C15: run the REAL duplicate_checker.main under timeout injection.

usage: c15_impl.py <runname> <n> <mode> <plan-json>
   mode  dry     no injection, no tracing: only the (k, function, with-line) log
         census  no injection, every block traced (executed body lines, entry/exit snapshots), calls logged
         inject  like census, and TimeoutException raised per plan
   plan  [[k, j], ...]                 k-th entered block (per process), j-th counted line event (-1: after the body)
      or {"call": {"max_param": 3, "check_perm": true, "expand_fun": false}, "nth": 0, "kinds": ["KA","KB","KC","KD"], "j": 0}
                                       every block of those kinds inside the nth sympy_simplify call with these arguments
      or {"all_kinds": ["KR"], "j": 0, "max": 1000}
                                       every block of those kinds is interrupted at line event j (e.g. every result check)
      or {"after_lines": [374, 379], "kinds": ["KA"], "max": 8}
                                       every block of those kinds is interrupted right after it executed one of these source lines
                                       (a state effect, e.g. the append of 'nan'), at most max times
      or {"list": [[k, j], ...], "rank": r}
                                       the list form, on rank r only (several ranks)
Prints one JSON object on the last stdout line (prefix C15JSON).
Output library: <scratch>/esr/function_library/<runname>/compl_<n>/ .
"""
import contextlib
import csv
import io
import json
import os
import shutil
import sys
import traceback

runname, n, mode = sys.argv[1], int(sys.argv[2]), sys.argv[3]
plan = json.loads(sys.argv[4]) if len(sys.argv) > 4 else []

import signal  # noqa: E402
import tinject  # noqa: E402
import esr.generation.simplifier as S  # noqa: E402
if isinstance(plan, dict) and "list" in plan:
    # {"list": [[k, j], ...], "rank": r}: the list plan, applied on rank r only (the other ranks run undisturbed)
    plan = plan["list"] if S.rank == int(plan.get("rank", 0)) else []
import esr.generation.generator as G  # noqa: E402
import esr.generation.duplicate_checker as dc  # noqa: E402

libdir = os.path.abspath(os.path.join(os.path.dirname(G.__file__), "..", "function_library", runname, "compl_%d" % n))
shutil.rmtree(libdir, ignore_errors=True)


def _cp(l):
    return None if l is None else [str(v) for v in l]


state = dict(shuf_done=False)


def snap(frame, rec):
    loc = frame.f_locals
    fn = frame.f_code.co_name
    try:
        if fn == "sympy_simplify":
            i = loc["i"]
            isf, aisf = loc["inv_subs_fun"], loc["all_inv_subs"]
            d = dict(i=int(i), str=loc["str_fun"][i], sym=str(loc["sym_fun"][i]), subs=_cp(isf[i]),
                     gstr=loc["all_fun"][i], gsym=str(loc["all_sym"][i]), gsubs=_cp(aisf[i]),
                     alias=(isf[i] is not None and isf[i] is aisf[i]),
                     f1_bound=("f1" in loc), expr_bound=("expr" in loc))
            if "change_indices" in loc:
                d["ci"] = [int(v) for v in loc["change_indices"]]
                d["ri"] = [int(v) for v in loc["ref_indices"]]
                d["ns"] = _cp(loc["new_inv_subs"])
            return d
        if fn == "expand_or_factor":
            return dict(j=int(loc["j"]), xi=[int(v) for v in loc["change_idx"]], nxv=len(loc["change_vals"]),
                        key=loc["keys"][loc["j"]])
        if fn == "check_results":
            d = dict(i=int(loc["i"]), fun=loc["all_fun"][loc["i"]], to_change=[int(r[0]) for r in loc["to_change"]],
                     imin=int(loc["imin"]))
            if not state["shuf_done"] and "shufidx" in loc:
                state["shuf_done"] = True
                d["shufidx"] = [int(v) for v in loc["shufidx"]]
            return d
    except Exception as e:  # never disturb the run
        return dict(snap_error="%s: %s" % (type(e).__name__, e))
    return None


calls = []
cur = dict(call=None)
sel_count = dict(n=0, active=False)


def plan_fn(k, func, with_line):
    if not isinstance(plan, dict):
        return None
    if "all_kinds" in plan:
        # every block of these kinds (in any function) is interrupted at counted line event j, at most plan["max"] times
        if inj.kind_of.get(with_line) in plan["all_kinds"] and state.get("all_budget", 0) > 0:
            state["all_budget"] -= 1
            return int(plan["j"])
        return None
    if "after_lines" in plan:
        # every block of these kinds: interrupt right after one of the given source lines has executed (at most plan["max"] times)
        if inj.kind_of.get(with_line) in plan["kinds"]:
            return {"after_lines": plan["after_lines"]}
        return None
    c = cur["call"]
    if func != "sympy_simplify" or c is None or not c.get("_selected"):
        return None
    if inj.kind_of.get(with_line) in plan["kinds"]:
        return int(plan["j"])
    return None


inj = tinject.Injector(S, plan=plan if (mode == "inject" and isinstance(plan, list)) else (),
                       trace_all=(mode in ("census", "inject")), snap=snap,
                       plan_fn=plan_fn if mode == "inject" else None).install()
if mode == "inject" and isinstance(plan, dict) and "all_kinds" in plan:
    state["all_budget"] = int(plan.get("max", 10 ** 6))
if mode == "inject" and isinstance(plan, dict) and "after_lines" in plan:
    inj.after_budget = int(plan.get("max", 8))
# with-line -> kind, structurally: the five blocks of sympy_simplify in source order, then the other two
_by_func = {}
for ln, info in sorted(inj.scan.items()):
    _by_func.setdefault(info["func"], []).append(ln)
inj.kind_of = {}
for fnm, names in (("sympy_simplify", ["KA", "KB", "KC", "KD", "KE"]), ("expand_or_factor", ["KX"]), ("check_results", ["KR"])):
    for ln, nm in zip(_by_func.get(fnm, []), names):
        inj.kind_of[ln] = nm
# the real SIGALRM is never armed; a stray one must be visible rather than silently ignored
signal.signal(signal.SIGALRM, signal.SIG_DFL)

_real_simplify = S.sympy_simplify
_real_do_sympy = S.do_sympy
_real_check = S.check_results
extra = dict(do_sympy_in=None, pre_check=None)


def logged_simplify(all_fun, all_sym, all_inv_subs, max_param, expand_fun=True, tmax=1, check_perm=False):
    rec = dict(c=len(calls), max_param=int(max_param), expand_fun=bool(expand_fun), check_perm=bool(check_perm),
               k0=inj.k, in_fun=list(all_fun), in_sym=[str(s) for s in all_sym], in_subs=[_cp(t) for t in all_inv_subs],
               status="running")
    if isinstance(plan, dict) and "call" in plan:
        want = plan["call"]
        if all(rec[key] == val for key, val in want.items()) and len(all_fun) > 0:
            if sel_count["n"] == int(plan.get("nth", 0)):
                rec["_selected"] = True
            sel_count["n"] += 1
    calls.append(rec)
    cur["call"] = rec
    out = _real_simplify(all_fun, all_sym, all_inv_subs, max_param, expand_fun=expand_fun, tmax=tmax, check_perm=check_perm)
    cur["call"] = None
    rec.update(k1=inj.k, out_fun=list(out[0]), out_sym=[str(s) for s in out[1]], out_subs=[_cp(t) for t in out[2]], status="done")
    return out


def logged_do_sympy(all_fun, all_sym, *a, **kw):
    extra["do_sympy_in"] = list(all_fun)
    extra["k_do_sympy"] = inj.k
    return _real_do_sympy(all_fun, all_sym, *a, **kw)


def _rows(p):
    with open(p, newline="") as f:
        return [r for r in csv.reader(f, delimiter=";")]


def read_library():
    return dict(
        all=open(os.path.join(libdir, "all_equations_%d.txt" % n)).read().splitlines(),
        uniq=open(os.path.join(libdir, "unique_equations_%d.txt" % n)).read().splitlines(),
        matches=[int(float(v)) for v in open(os.path.join(libdir, "matches_%d.txt" % n)).read().split()],
        subs=_rows(os.path.join(libdir, "inv_subs_%d.txt" % n)))


def logged_check(dirname, compl, *a, **kw):
    try:
        extra["pre_check"] = read_library()
    except Exception as e:
        extra["pre_check_error"] = "%s: %s" % (type(e).__name__, e)
    extra["k_check"] = inj.k
    return _real_check(dirname, compl, *a, **kw)


if mode != "dry":
    S.sympy_simplify = logged_simplify
    S.do_sympy = logged_do_sympy
    S.check_results = logged_check

res = dict(runname=runname, n=n, mode=mode, plan=plan, status="ok", scan_bad=inj.scan_bad)
buf = io.StringIO()
try:
    with contextlib.redirect_stdout(buf):
        dc.main(runname, n)
except BaseException as e:  # noqa: BLE001
    sys.settrace(None)
    tb = traceback.extract_tb(e.__traceback__)
    res["status"] = "crash"
    res["exc"] = "%s: %s" % (type(e).__name__, str(e)[:200])
    res["where"] = [(os.path.basename(f.filename), f.lineno, f.name) for f in tb][-4:]
sys.settrace(None)

res["nblocks"] = inj.k
out_lines = buf.getvalue().splitlines()
res["timed_out_prints"] = sum(1 for l in out_lines if l.startswith("TIMED OUT:") or l.startswith("Terminated expanding:"))
res["bad_comparison_prints"] = sum(1 for l in out_lines if l.startswith("Bad comparison:"))
if mode == "dry":
    res["blocks"] = [[b["k"], b["func"], b["with_line"]] for b in inj.blocks]
else:
    for b in inj.blocks:
        b["kind"] = inj.kind_of.get(b["with_line"])
    res["blocks"] = inj.blocks
for c in calls:
    c.pop("_selected", None)
res["calls"] = calls
res["do_sympy_in"] = extra["do_sympy_in"]
res["k_do_sympy"] = extra.get("k_do_sympy")
res["k_check"] = extra.get("k_check")
res["pre_check"] = extra["pre_check"]

rounds = []
r = 0
while os.path.exists(os.path.join(libdir, "inv_subs_%d_round_%d.txt" % (n, r))):
    idx = [int(l) for l in open(os.path.join(libdir, "inv_idx_%d_round_%d.txt" % (n, r))).read().split()]
    rounds.append(dict(idx=idx, subs=_rows(os.path.join(libdir, "inv_subs_%d_round_%d.txt" % (n, r)))))
    r += 1
res["rounds"] = rounds
res["libdir"] = libdir
if res["status"] == "ok":
    try:
        res["final"] = read_library()
    except Exception as e:
        res["final_error"] = "%s: %s" % (type(e).__name__, e)

# spec-side oracle (independent code, harness/lib/liboracle.py) on the library this run produced
seed = os.environ.get("C15_ORACLE_SEED")
if seed is not None and res["status"] == "ok":
    try:
        import liboracle
        viol, stats = liboracle.check_c03(liboracle.load_library(libdir, n), int(seed))
        res["oracle"] = dict(violations=viol[:8], nviol=len(viol), stats=stats)
    except Exception as e:
        res["oracle"] = dict(error="%s: %s" % (type(e).__name__, e))
print("C15JSON " + json.dumps(res))
