"""Implementation-side driver for C15: run the REAL duplicate_checker.main under timeout injection.

usage: c15_impl.py <runname> <n> <mode> <plan-json>
   mode  dry     no injection, no tracing: only the (k, function, with-line) log
         census  no injection, every block traced (executed body lines per block), sympy_simplify calls logged
         inject  raise TimeoutException per plan [[k, j], ...]; injected blocks traced; calls logged
Prints one JSON object on the last stdout line.  Output library: <scratch>/esr/function_library/<runname>/compl_<n>/ .
"""
import contextlib
import csv
import io
import json
import os
import shutil
import sys
import traceback

runname, n, mode = sys.argv[1], int(sys.argv[2]), sys.argv[3]
plan = json.loads(sys.argv[4]) if len(sys.argv) > 4 else []

import signal  # noqa: E402
import tinject  # noqa: E402
import esr.generation.simplifier as S  # noqa: E402
import esr.generation.generator as G  # noqa: E402
import esr.generation.duplicate_checker as dc  # noqa: E402

libdir = os.path.abspath(os.path.join(os.path.dirname(G.__file__), "..", "function_library", runname, "compl_%d" % n))
shutil.rmtree(libdir, ignore_errors=True)


def _cp(l):
    return None if l is None else [str(v) for v in l]


def snap(frame, rec):
    loc = frame.f_locals
    fn = frame.f_code.co_name
    try:
        if fn == "sympy_simplify":
            i = loc["i"]
            isf, aisf = loc["inv_subs_fun"], loc["all_inv_subs"]
            d = dict(i=int(i), str=loc["str_fun"][i], sym=str(loc["sym_fun"][i]), subs=_cp(isf[i]),
                     gstr=loc["all_fun"][i], gsubs=_cp(aisf[i]),
                     alias=(isf[i] is not None and isf[i] is aisf[i]),
                     f1_bound=("f1" in loc), expr_bound=("expr" in loc),
                     expand_fun=bool(loc["expand_fun"]), max_param=int(loc["max_param"]), check_perm=bool(loc["check_perm"]))
            for nm in ("change_indices", "ref_indices", "new_inv_subs"):
                if nm in loc:
                    d[nm] = len(loc[nm])
            return d
        if fn == "expand_or_factor":
            return dict(j=int(loc["j"]), change_idx=[int(v) for v in loc["change_idx"]], nvals=len(loc["change_vals"]),
                        key=loc["keys"][loc["j"]])
        if fn == "check_results":
            return dict(i=int(loc["i"]), fun=loc["all_fun"][loc["i"]], to_change=[[int(r[0]), r[1]] for r in loc["to_change"]],
                        imin=int(loc["imin"]))
    except Exception as e:  # never disturb the run
        return dict(snap_error="%s: %s" % (type(e).__name__, e))
    return None


inj = tinject.Injector(S, plan=plan if mode == "inject" else (), trace_all=(mode == "census"), snap=snap).install()
# the real SIGALRM is never armed; make sure a stray one would be visible rather than silently ignored
signal.signal(signal.SIGALRM, signal.SIG_DFL)

calls = []
_real_simplify = S.sympy_simplify


def logged_simplify(all_fun, all_sym, all_inv_subs, max_param, expand_fun=True, tmax=1, check_perm=False):
    rec = dict(c=len(calls), max_param=int(max_param), expand_fun=bool(expand_fun), check_perm=bool(check_perm),
               k0=inj.k, in_fun=list(all_fun), in_subs=[_cp(t) for t in all_inv_subs], status="running")
    calls.append(rec)
    out = _real_simplify(all_fun, all_sym, all_inv_subs, max_param, expand_fun=expand_fun, tmax=tmax, check_perm=check_perm)
    rec.update(k1=inj.k, out_fun=list(out[0]), out_sym=[str(s) for s in out[1]], out_subs=[_cp(t) for t in out[2]], status="done")
    return out


if mode != "dry":
    S.sympy_simplify = logged_simplify

res = dict(runname=runname, n=n, mode=mode, plan=plan, status="ok", scan_bad=inj.scan_bad)
buf = io.StringIO()
try:
    with contextlib.redirect_stdout(buf):
        dc.main(runname, n)
except BaseException as e:  # noqa: BLE001
    sys.settrace(None)
    tb = traceback.extract_tb(e.__traceback__)
    res["status"] = "crash"
    res["exc"] = "%s: %s" % (type(e).__name__, str(e)[:200])
    res["where"] = [(os.path.basename(f.filename), f.lineno, f.name) for f in tb][-4:]
sys.settrace(None)

res["nblocks"] = inj.k
res["timed_out_prints"] = sum(1 for l in buf.getvalue().splitlines() if l.startswith("TIMED OUT:") or l.startswith("Terminated expanding:"))
res["bad_comparison_prints"] = sum(1 for l in buf.getvalue().splitlines() if l.startswith("Bad comparison:"))
if mode == "dry":
    res["blocks"] = [[b["k"], b["func"], b["with_line"]] for b in inj.blocks]
elif mode == "census":
    res["blocks"] = [dict(k=b["k"], func=b["func"], with_line=b["with_line"], lines=b["lines"], pre=b["pre"]) for b in inj.blocks]
else:
    res["blocks"] = [b for b in inj.blocks if b["j"] is not None]
    res["kinds"] = [[b["k"], b["with_line"]] for b in inj.blocks]
res["calls"] = calls


def _rows(p):
    with open(p, newline="") as f:
        return [r for r in csv.reader(f, delimiter=";")]


rounds = []
r = 0
while os.path.exists(os.path.join(libdir, "inv_subs_%d_round_%d.txt" % (n, r))):
    idx = [int(l) for l in open(os.path.join(libdir, "inv_idx_%d_round_%d.txt" % (n, r))).read().split()]
    rounds.append(dict(idx=idx, subs=_rows(os.path.join(libdir, "inv_subs_%d_round_%d.txt" % (n, r)))))
    r += 1
res["rounds"] = rounds
res["libdir"] = libdir
if res["status"] == "ok":
    try:
        res["final"] = dict(
            all=open(os.path.join(libdir, "all_equations_%d.txt" % n)).read().splitlines(),
            uniq=open(os.path.join(libdir, "unique_equations_%d.txt" % n)).read().splitlines(),
            matches=[int(float(v)) for v in open(os.path.join(libdir, "matches_%d.txt" % n)).read().split()],
            subs=_rows(os.path.join(libdir, "inv_subs_%d.txt" % n)))
    except Exception as e:
        res["final_error"] = "%s: %s" % (type(e).__name__, e)

# spec-side oracle (independent code, harness/lib/liboracle.py) on the library this run produced
seed = os.environ.get("C15_ORACLE_SEED")
if seed is not None and res["status"] == "ok":
    try:
        import liboracle
        viol, stats = liboracle.check_c03(liboracle.load_library(libdir, n), int(seed))
        res["oracle"] = dict(violations=viol[:8], nviol=len(viol), stats=stats)
    except Exception as e:
        res["oracle"] = dict(error="%s: %s" % (type(e).__name__, e))
print("C15JSON " + json.dumps(res))
