"""Implementation-side driver for C08 (runs against the scratch copy, /venv/bin/python).

  bases                      -> {runname: basis_functions} read from duplicate_checker.main's source
  idioms   < json            -> CPython's answers for the string / list idioms the Coq model mirrors
  random   < json            -> aifeyn_complexity / tree_to_aifeyn / get_max_param on given inputs
  library  <runname> <n>     -> generate_equations into a temp dir; files, recorded calls, API values

Observation of the structure: inside aifeyn_complexity the module-level name `np` of
esr.generation.generator is replaced by a forwarding proxy that records the arguments of
np.log (scalar call: nop), np.abs (the integer array) and np.array; nothing else changes.
"""
import ast
import contextlib
import io
import json
import math
import os
import shutil
import sys
import tempfile
import warnings

warnings.simplefilter("ignore")


def shipped_bases():
    import esr.generation.duplicate_checker as dc
    src = open(dc.__file__).read()
    tree = ast.parse(src)
    out = {}
    for node in ast.walk(tree):
        if isinstance(node, ast.If) and isinstance(node.test, ast.Compare) and ast.unparse(node.test.left) == 'runname' \
                and len(node.test.ops) == 1 and isinstance(node.test.ops[0], ast.Eq) \
                and isinstance(node.test.comparators[0], ast.Constant):
            for st in node.body:
                if isinstance(st, ast.Assign) and ast.unparse(st.targets[0]) == 'basis_functions':
                    out[node.test.comparators[0].value] = ast.literal_eval(st.value)
    if not out:
        raise SystemExit("no shipped bases found in duplicate_checker.main")
    return out


# ------------------------------------------------------------------ structure recorder

class NpProxy:
    def __init__(self, real, rec):
        self.__dict__['_real'] = real
        self.__dict__['_rec'] = rec

    def __getattr__(self, name):
        real = getattr(self._real, name)
        rec = self._rec
        if name == 'log':
            def log(x, *a, **k):
                rec.append(('log', x))
                return real(x, *a, **k)
            return log
        if name == 'abs':
            def abs_(x, *a, **k):
                rec.append(('abs', x.copy() if hasattr(x, 'copy') else x))
                return real(x, *a, **k)
            return abs_
        if name == 'array':
            def array(x, *a, **k):
                r = real(x, *a, **k)
                rec.append(('array', str(r.dtype)))
                return r
            return array
        return real


def install_recorder():
    """wrap generator.aifeyn_complexity so that each call records (tree, param_list, structure, value)"""
    import esr.generation.generator as g
    import numpy
    orig = g.aifeyn_complexity
    calls = []

    def wrapped(tree, param_list):
        rec = []
        saved = g.np
        g.np = NpProxy(numpy, rec)
        try:
            v = orig(tree, param_list)
        finally:
            g.np = saved
        nop = [x for (t, x) in rec if t == 'log' and not hasattr(x, 'shape')]
        arr = [x for (t, x) in rec if t == 'abs']
        dt = [x for (t, x) in rec if t == 'array']
        st = None
        if len(nop) == 1 and len(arr) == 1 and isinstance(nop[0], int):
            st = [len(tree), int(nop[0]), [abs(int(c)) for c in arr[0].tolist()]]
        calls.append(dict(tree=[str(t) for t in tree], pl=[str(p) for p in param_list], struct=st,
                          dtype=dt[0] if dt else None, value=fl(v)))
        return v
    g.aifeyn_complexity = wrapped
    return calls, orig


def fl(v):
    v = float(v)
    if math.isnan(v):
        return "nan"
    if math.isinf(v):
        return "inf" if v > 0 else "-inf"
    return repr(v)


# ------------------------------------------------------------------ idioms

def s_of(codes):
    return ''.join(chr(c) for c in codes)


def c_of(s):
    return [ord(c) for c in s]


def idioms(inp):
    out = {}
    rows = []
    for codes in inp["strings"]:
        s = s_of(codes)
        isd = s.isdigit()
        guard = s.lstrip("-").isdigit()
        iv = None
        if guard:
            try:
                iv = int(s)
            except ValueError:
                iv = "ValueError"
        rows.append([c_of(s.lstrip("-")), isd, guard, iv])
    out["strings"] = rows
    out["lstrip"] = [c_of(s_of(s).lstrip(s_of(ch))) for ch, s in inp["lstrip"]]
    out["in_list"] = [[(s_of(x) in [s_of(y) for y in l]), len(set(s_of(y) for y in l))] for x, l in inp["in_list"]]
    out["in_str"] = [s_of(s) in s_of(f) for s, f in inp["in_str"]]
    out["fmt"] = [c_of('a%i' % z) for z in inp["fmt"]]
    import esr.generation.simplifier as simplifier
    gm = []
    for F in inp["gmp"]:
        gm.append(int(simplifier.get_max_param([s_of(f) for f in F], verbose=False)))
    out["gmp"] = gm
    return out


# ------------------------------------------------------------------ random label lists

def random_cases(inp):
    import esr.generation.generator as g
    import esr.fitting.fit_single as fs
    calls, orig = install_recorder()
    out = []
    for c in inp["direct"]:
        del calls[:]
        try:
            v = g.aifeyn_complexity(list(c["tree"]), list(c["pl"]))
            r = dict(calls[-1])
            r.pop("tree"); r.pop("pl")
        except Exception as e:
            r = dict(exc=type(e).__name__)
        out.append(r)
    api = []
    for c in inp["api"]:
        del calls[:]
        try:
            with contextlib.redirect_stdout(io.StringIO()):
                v, k = fs.tree_to_aifeyn(list(c["tree"]), c["basis"], verbose=False)
            r = dict(calls[-1])
            r["k"] = int(k)
            r["value2"] = fl(v)
            s = g.labels_to_shape(list(c["tree"]), c["basis"])
            ok, _, t = g.check_tree(s)
            r["fstr"] = g.node_to_string(0, t, list(c["tree"]))
        except Exception as e:
            r = dict(exc=type(e).__name__ + ":" + str(e)[:80])
        api.append(r)
    return dict(direct=out, api=api)


# ------------------------------------------------------------------ generated libraries

def library(runname, n, with_api=True):
    import numpy as np
    import esr.generation.generator as g
    import esr.fitting.fit_single as fs
    extra = json.loads(os.environ.get("C08_EXTRA_BASES", "{}"))     # user-style bases added by the harness
    basis = extra[runname] if runname in extra else shipped_bases()[runname]
    calls, orig = install_recorder()
    shapes = []
    real_stf = g.shape_to_functions

    def stf(s, basis_functions):
        r = real_stf(s, basis_functions)
        all_fun, all_tree, extra_fun, extra_tree, extra_orig = r
        shapes.append(dict(fun=[str(f) for f in all_fun], all=[[str(x) for x in t] for t in all_tree],
                           extra=[[str(x) for x in t] for t in extra_tree]))
        return r
    g.shape_to_functions = stf
    d = tempfile.mkdtemp(prefix="c08.", dir=os.environ.get("ESRV_TMP", "/var/tmp"))
    try:
        # stale content in all six files: the clearing block / the `>` redirection must remove it
        for nm in ("orig_trees", "extra_trees", "orig_aifeyn", "extra_aifeyn", "trees", "aifeyn"):
            with open("%s/%s_%d.txt" % (d, nm, n), "w") as f:
                f.write("STALE\n")
        with contextlib.redirect_stdout(io.StringIO()):
            g.generate_equations(n, basis, d)
        files = {}
        for nm in ("orig_trees", "extra_trees", "orig_aifeyn", "extra_aifeyn", "trees", "aifeyn"):
            with open("%s/%s_%d.txt" % (d, nm, n)) as f:
                files[nm] = f.read().split("\n")
                if files[nm] and files[nm][-1] == "":
                    files[nm].pop()
    finally:
        shutil.rmtree(d, ignore_errors=True)
    pipeline_calls = list(calls)
    api = None
    if with_api:
        api = []
        g.shape_to_functions = real_stf
        for sh in shapes:
            for t in sh["all"] + sh["extra"]:
                del calls[:]
                try:
                    with contextlib.redirect_stdout(io.StringIO()):
                        v, k = fs.tree_to_aifeyn(list(t), basis, verbose=False)
                    api.append([t, fl(v), int(k), calls[-1]["pl"]])
                except Exception as e:
                    api.append([t, "EXC:" + type(e).__name__, None, None])
    return dict(basis=basis, shapes=shapes, calls=pipeline_calls, files=files, api=api)


if __name__ == "__main__":
    cmd = sys.argv[1]
    if cmd == "bases":
        json.dump(shipped_bases(), sys.stdout)
    elif cmd == "idioms":
        json.dump(idioms(json.load(sys.stdin)), sys.stdout)
    elif cmd == "random":
        json.dump(random_cases(json.load(sys.stdin)), sys.stdout)
    elif cmd == "library":
        json.dump(library(sys.argv[2], int(sys.argv[3]), with_api=(len(sys.argv) < 5 or sys.argv[4] != "noapi")), sys.stdout)
    else:
        raise SystemExit("unknown command")
