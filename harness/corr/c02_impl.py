"""Implementation side for C02: for generated libraries dump, per line, the labels, the real
node_to_string output, the stored string, and values of the stored string as the generation stage
and the fitting stage read it (real sympify with each symbol table + lambdify)."""
import contextlib
import io
import json
import os
import re
import sys
import warnings

import numpy as np
import sympy

warnings.filterwarnings("ignore")


def main(libdir, n, basis_json, maxlines, seed):
    import esr.generation.generator as g
    from esr.fitting.sympy_symbols import sympy_locs, x
    import esr.fitting.likelihood as L
    basis = json.loads(basis_json)
    trees = [re.findall(r"'([^']*)'", l) for l in open(os.path.join(libdir, "trees_%d.txt" % n)).read().splitlines()]
    eqs = open(os.path.join(libdir, "all_equations_%d.txt" % n)).read().splitlines()
    rng = np.random.default_rng(seed)
    idx = list(range(min(len(trees), len(eqs))))
    if len(idx) > maxlines:
        idx = sorted(rng.choice(len(idx), size=maxlines, replace=False).tolist())
    lik = object.__new__(L.Likelihood)
    out = []
    pts = [(float(rng.uniform(0.4, 2.5)), [float(rng.choice([-1, 1]) * rng.uniform(0.4, 2.2)) for _ in range(6)]) for _ in range(6)]
    for i in idx:
        labels = trees[i]
        rec = {"i": i, "labels": labels, "string": eqs[i]}
        try:
            s = g.labels_to_shape(labels, basis)
            _, _, t = g.check_tree(s)
            rec["nts"] = g.node_to_string(0, t, labels)
            rec["shape"] = [int(v) for v in s]
        except Exception as e:
            rec["nts"] = "EXC:%s:%s" % (type(e).__name__, e)
        npar = max([int(l[1:]) + 1 for l in labels if re.fullmatch(r"a\d+", l)] + [0])
        syms = list(sympy.symbols(" ".join("a%d" % j for j in range(max(npar, 1))), real=True, seq=True))
        for stage in ("gen", "fit"):
            vals = []
            try:
                if stage == "gen":
                    locs = dict(sympy_locs)
                    for j, a in enumerate(syms):
                        locs["a%d" % j] = a
                    eq = sympy.sympify(eqs[i], locals=locs)
                else:
                    with contextlib.redirect_stdout(io.StringIO()):
                        _, eq, _ = lik.run_sympify(eqs[i])
                f = sympy.lambdify([x] + syms, eq, modules=["numpy"])
                for xv, th in pts:
                    try:
                        with np.errstate(all="ignore"):
                            v = complex(f(xv, *th[:len(syms)]))
                        vals.append([v.real, v.imag] if np.isfinite(v.real) and np.isfinite(v.imag) else None)
                    except Exception:
                        vals.append(None)
            except Exception as e:
                vals = "EXC:%s:%s" % (type(e).__name__, str(e)[:100])
            rec[stage] = vals
        out.append(rec)
    json.dump({"points": pts, "lines": out, "nlines": len(trees), "nstrings": len(eqs)}, sys.stdout)


def nts_arrays(cases_json):
    """the real node_to_string on raw node arrays: [{"idx": k|null, "nodes": [[type, left|null, right|null], ...], "labels": [...]}]"""
    import esr.generation.generator as g
    out = []
    for c in json.loads(cases_json):
        tree = []
        for ty, lf, rg in c["nodes"]:
            nd = g.Node(ty)
            nd.left, nd.right = lf, rg
            tree.append(nd)
        sys.setrecursionlimit(200)
        try:
            r = g.node_to_string(c["idx"], tree, list(c["labels"]))
            out.append(["none"] if r is None else ["str", r])
        except RecursionError:
            out.append(["loop"])
        except Exception as e:
            out.append(["raise", type(e).__name__])
    json.dump(out, sys.stdout)


if __name__ == "__main__":
    if sys.argv[1] == "nts_arrays":
        nts_arrays(sys.stdin.read())
    else:
        main(sys.argv[1], int(sys.argv[2]), sys.argv[3], int(sys.argv[4]), int(sys.argv[5]))
