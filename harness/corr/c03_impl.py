"""Implementation-side driver for C03 (runs against the scratch copy, /venv/bin/python).

Commands (JSON on stdout):
  trace RUNNAME N [N ...]   real duplicate_checker.main(RUNNAME, N) with recording wrappers (harness side only) around
                            simplifier.sympy_simplify, simplifier.expand_or_factor, simplifier.do_sympy,
                            simplifier.simplify_inv_subs, simplifier.check_results, utils.get_match_indexes and
                            numpy.random.shuffle (call made by duplicate_checker.main).  One JSON document per N.
  uniq MAXLEN NSYM          real utils.get_unique_indexes / get_match_indexes on every list over NSYM symbols up to MAXLEN
  unmerge                   stdin: crafted library files; real simplifier.check_results on each; files afterwards + to_change
"""
import contextlib
import csv
import io
import itertools
import json
import os
import re
import sys

import numpy as np


def _lines(path):
    with open(path) as f:
        return f.read().splitlines()


def _rows(path):
    with open(path, newline='') as f:
        return [row for row in csv.reader(f, delimiter=';')]


def trace(runname, compl):
    import esr.generation.duplicate_checker as dc
    import esr.generation.simplifier as simplifier
    import esr.generation.utils as utils
    import esr.generation.generator as generator

    rec = {"runname": runname, "n": compl, "calls": [], "events": [], "cancel": [], "shuffle": None,
           "extra_orig": None, "do_sympy": None, "check_results": None}

    real_ss = simplifier.sympy_simplify
    real_eof = simplifier.expand_or_factor
    real_ds = simplifier.do_sympy
    real_sis = simplifier.simplify_inv_subs
    real_cr = simplifier.check_results
    real_gmi = utils.get_match_indexes
    real_shuffle = np.random.shuffle
    real_cp = simplifier.count_params

    def ss(all_fun, all_sym, all_inv_subs, max_param, expand_fun=True, tmax=1, check_perm=False):
        fin = list(all_fun)
        tin = [None if t is None else list(t) for t in all_inv_subs]
        f, e, t = real_ss(all_fun, all_sym, all_inv_subs, max_param, expand_fun=expand_fun, tmax=tmax, check_perm=check_perm)
        rec["calls"].append({"group": int(max_param), "expand_fun": bool(expand_fun), "check_perm": bool(check_perm),
                             "in": fin, "tin": tin, "out": list(f),
                             "chains": [None if c is None else [str(x) for x in c] for c in t]})
        rec["events"].append("ss")
        return f, e, t

    def eof(all_sym, tmax=1, method='expand'):
        rec["events"].append("eof:" + method)
        return real_eof(all_sym, tmax=tmax, method=method)

    def ds(all_fun, all_sym, compl_, search_tmax, expand_tmax, dirname, track_memory=False):
        a0 = list(all_fun)
        mp_ = simplifier.get_max_param(all_fun, verbose=False)
        out = real_ds(all_fun, all_sym, compl_, search_tmax, expand_tmax, dirname, track_memory=track_memory)
        rec["do_sympy"] = {"in": a0, "out": list(out[0]), "nround": int(out[2]), "max_param": int(mp_)}
        return out

    def sis(inv_subs, all_dup):
        i = None if inv_subs is None else [str(x) for x in inv_subs]
        o = real_sis(inv_subs, all_dup)
        rec["cancel"].append([i, None if o is None else [str(x) for x in o]])
        return o

    def gmi(a, b):
        r = real_gmi(a, b)
        if sys._getframe(1).f_code.co_name == 'main':
            rec["extra_orig"] = [int(v) for v in r]
        return r

    def shuffle(x):
        before = [int(v) for v in x] if sys._getframe(1).f_code.co_name == 'main' else None
        real_shuffle(x)
        if before is not None:
            rec["shuffle"] = {"before": before, "after": [int(v) for v in x]}

    def cr(dirname, compl_, tmax=10):
        pre = {"uniq": _lines(dirname + '/unique_equations_%i.txt' % compl_),
               "matches": [int(float(v)) for v in _lines(dirname + '/matches_%i.txt' % compl_)],
               "subs": _rows(dirname + '/inv_subs_%i.txt' % compl_),
               "all": _lines(dirname + '/all_equations_%i.txt' % compl_)}
        buf = io.StringIO()
        with contextlib.redirect_stdout(buf):
            real_cr(dirname, compl_, tmax=tmax)
        txt = buf.getvalue()
        tc = None
        if 'Need to change' in txt:
            seg = txt.split('Need to change', 1)[1]
            seg = seg.split('Loading all equations', 1)[0]
            tc = []
            for ln in seg.splitlines()[1:]:
                m = re.match(r"^\[(?:np\.int64\()?(\d+)\)?, ", ln)
                if m:
                    tc.append(int(m.group(1)))
        rec["check_results"] = {"pre": pre, "to_change": tc, "ran": True}

    simplifier.sympy_simplify = ss
    simplifier.expand_or_factor = eof
    simplifier.do_sympy = ds
    simplifier.simplify_inv_subs = sis
    simplifier.check_results = cr
    utils.get_match_indexes = gmi
    np.random.shuffle = shuffle
    try:
        with contextlib.redirect_stdout(io.StringIO()):
            dc.main(runname, compl)
    finally:
        simplifier.sympy_simplify = real_ss
        simplifier.expand_or_factor = real_eof
        simplifier.do_sympy = real_ds
        simplifier.simplify_inv_subs = real_sis
        simplifier.check_results = real_cr
        utils.get_match_indexes = real_gmi
        np.random.shuffle = real_shuffle

    d = os.path.abspath(os.path.join(os.path.dirname(generator.__file__), '..', 'function_library', runname, 'compl_%i' % compl))
    rec["dir"] = d
    rec["final"] = {"all": _lines(d + '/all_equations_%i.txt' % compl),
                    "uniq": _lines(d + '/unique_equations_%i.txt' % compl),
                    "matches": [int(float(v)) for v in _lines(d + '/matches_%i.txt' % compl)],
                    "subs": _rows(d + '/inv_subs_%i.txt' % compl)}
    nround = rec["do_sympy"]["nround"]
    rounds = []
    for r in range(nround):
        idx = [int(v) for v in _lines(d + '/inv_idx_%i_round_%i.txt' % (compl, r)) if v.strip() != '']
        rows = _rows(d + '/inv_subs_%i_round_%i.txt' % (compl, r))
        rounds.append({"idx": idx, "rows": rows})
    rec["round_files"] = rounds
    # the REAL count_params on every string the bookkeeping handles (grouping key of do_sympy, measure of check_results)
    strings = set(rec["final"]["all"]) | set(rec["final"]["uniq"]) | set(rec["do_sympy"]["in"]) | set(rec["do_sympy"]["out"])
    for c in rec["calls"]:
        strings |= set(c["in"]) | set(c["out"])
    if rec["check_results"]:
        strings |= set(rec["check_results"]["pre"]["uniq"])
    strings = sorted(strings)
    mp_ = rec["do_sympy"]["max_param"]
    cp = real_cp(strings, mp_) if strings else []
    rec["count_params"] = {s: int(v) for s, v in zip(strings, cp)}
    return rec


def uniq_sweep(maxlen, nsym):
    import esr.generation.utils as utils
    out = []
    for n in range(0, maxlen + 1):
        for L in itertools.product(range(nsym), repeat=n):
            L = list(L)
            res, match = utils.get_unique_indexes(L)
            out.append([L, [[int(k), int(v)] for k, v in res.items()], [[int(k), int(v)] for k, v in match.items()]])
    gm = []
    for na in range(0, 5):
        for a in itertools.product(range(nsym), repeat=na):
            for nb in range(0, 4):
                for b in itertools.product(range(nsym), repeat=nb):
                    try:
                        r = [int(v) for v in utils.get_match_indexes(list(a), list(b))]
                    except KeyError:
                        r = None
                    gm.append([list(a), list(b), r])
    json.dump({"gui": out, "gmi": gm}, sys.stdout)


def unmerge_cases():
    """stdin: [{n, all, uniq, matches, subs}]; runs the REAL simplifier.check_results on crafted library files"""
    import shutil
    import tempfile
    import esr.generation.simplifier as simplifier
    cases = json.load(sys.stdin)
    out = []
    for c in cases:
        d = tempfile.mkdtemp(prefix="c03u.", dir=os.environ.get("ESRV_TMP", "/var/tmp"))
        n = c["n"]
        try:
            with open(d + '/all_equations_%i.txt' % n, 'w') as f:
                f.write("".join(s + "\n" for s in c["all"]))
            with open(d + '/unique_equations_%i.txt' % n, 'w') as f:
                f.write("".join(s + "\n" for s in c["uniq"]))
            with open(d + '/matches_%i.txt' % n, 'w') as f:
                f.write("".join("%d\n" % m for m in c["matches"]))
            with open(d + '/inv_subs_%i.txt' % n, 'w') as f:
                csv.writer(f, delimiter=';').writerows(c["subs"])
            buf = io.StringIO()
            with contextlib.redirect_stdout(buf):
                simplifier.check_results(d, n)
            txt = buf.getvalue()
            tc = []
            if 'Need to change' in txt:
                seg = txt.split('Need to change', 1)[1].split('Loading all equations', 1)[0]
                for ln in seg.splitlines()[1:]:
                    m = re.match(r"^\[(?:np\.int64\()?(\d+)\)?, ", ln)
                    if m:
                        tc.append(int(m.group(1)))
            out.append({"to_change": tc, "uniq": _lines(d + '/unique_equations_%i.txt' % n),
                        "matches": [int(float(v)) for v in _lines(d + '/matches_%i.txt' % n)],
                        "subs": _rows(d + '/inv_subs_%i.txt' % n)})
        finally:
            shutil.rmtree(d, ignore_errors=True)
    json.dump(out, sys.stdout)


if __name__ == "__main__":
    cmd = sys.argv[1]
    if cmd == "trace":
        res = [trace(sys.argv[2], int(c)) for c in sys.argv[3:]]
        json.dump(res, sys.stdout)
    elif cmd == "uniq":
        uniq_sweep(int(sys.argv[2]), int(sys.argv[3]))
    elif cmd == "unmerge":
        unmerge_cases()
