"""Implementation side for C20: the single-tree API on given label lists / formula strings with a Gaussian likelihood."""
import contextlib
import io
import json
import sys
import warnings

import numpy as np

warnings.filterwarnings("ignore")


def main(ddir, dfile, basis_json, jobs_json, seed):
    import esr.fitting.likelihood as L
    import esr.fitting.fit_single as fs
    basis = json.loads(basis_json)
    jobs = json.loads(jobs_json)
    out = []
    with contextlib.redirect_stdout(io.StringIO()):
        lik = L.GaussLikelihood(dfile, "single", data_dir=ddir)
    for j in jobs:
        np.random.seed(seed)
        rec = dict(j)
        try:
            with contextlib.redirect_stdout(io.StringIO()):
                if "labels" in j:
                    nll, dl, params = fs.single_function(list(j["labels"]), basis, lik, return_params=True, log_opt=j.get("log_opt", False))
                    rec.update(nll=float(nll), DL=float(dl), params=[float(p) for p in np.atleast_1d(params)])
                else:
                    nll, dl, labels, params = fs.fit_from_string(j["formula"], basis, lik, return_params=True, log_opt=j.get("log_opt", False))
                    rec.update(nll=float(nll), DL=float(dl), labels=[str(l) for l in labels], params=[float(p) for p in np.atleast_1d(params)])
        except Exception as e:
            rec["error"] = "%s: %s" % (type(e).__name__, e)
        out.append(rec)
    json.dump(out, sys.stdout)


if __name__ == "__main__":
    main(sys.argv[1], sys.argv[2], sys.argv[3], sys.argv[4], int(sys.argv[5]))
