"""Helpers shared by the pipeline-level checks (C04, C20, C14 stage runs): data sets, running the
real stages in a work copy, parsing their outputs, and INDEPENDENT closed forms for
linear-in-parameter functions under a Gaussian likelihood (uses no ESR code)."""
import csv
import json
import math
import os
import re
import shutil

import numpy as np

import esrv
import liboracle as lo

GEN = os.path.join(esrv.VERIF, "harness", "corr", "gen_run.py")
FIT = os.path.join(esrv.VERIF, "harness", "corr", "fit_run.py")

SHIPPED = {
    "keep_duplicates": [["x", "a"], ["square", "exp", "inv", "sqrt_abs", "log_abs"], ["+", "*", "-", "/", "pow"]],
    "core_maths": [["x", "a"], ["inv"], ["+", "*", "-", "/", "pow"]],
    "ext_maths": [["x", "a"], ["inv", "sqrt_abs", "square", "exp"], ["+", "*", "-", "/", "pow"]],
    "osc_maths": [["x", "a"], ["inv", "sin"], ["+", "*", "-", "/", "pow"]],
    "base10_maths": [["x", "a"], ["tenexp", "inv", "log10_abs"], ["+", "*", "-", "/", "pow"]],
    "base_e_maths": [["x", "a"], ["inv", "exp", "log_abs"], ["+", "*", "-", "/", "pow"]],
}


def work_repo(scratch, tag="fit"):
    """private copy of the scratch copy (its own function_library)"""
    work = esrv.mkscratch(tag)
    dst = os.path.join(work, "repo")
    shutil.copytree(scratch, dst, ignore=shutil.ignore_patterns("function_library", "__pycache__"))
    return work, dst


def generate(repo, runname, ns, basis=None, nranks=1, timeout=3000):
    extra = {"ESR_VERIF_BASIS": json.dumps(basis)} if basis is not None else None
    if nranks == 1:
        rc, out, err = esrv.run_py(repo, GEN, [runname] + [str(n) for n in ns], extra=extra, timeout=timeout)
        return rc == 0, err
    res = esrv.run_mpi(repo, GEN, [runname] + [str(n) for n in ns], nranks, extra=extra, timeout=timeout)
    return all(r[0] == 0 for r in res), "\n".join(r[2][-300:] for r in res if r[0] != 0)


def libdir(repo, runname, n):
    return os.path.join(repo, "esr", "function_library", runname, "compl_%d" % n)


def write_data(ddir, name, x, y, sig):
    os.makedirs(ddir, exist_ok=True)
    np.savetxt(os.path.join(ddir, name), np.c_[x, y, sig])


def run_stages(repo, kind, ddir, dfile, run_name, fn_set, n, stages="fit,fisher,match,combine", nranks=1, seed=1234, log_opt=False,
               timeout=3000):
    extra = {"ESRV_FIT_SEED": str(seed)}
    args = [kind, ddir, dfile, run_name, fn_set, str(n), stages] + (["log"] if log_opt else [])
    if nranks == 1:
        rc, out, err = esrv.run_py(repo, FIT, args, extra=extra, timeout=timeout)
        return [(rc, out, err)]
    return esrv.run_mpi(repo, FIT, args, nranks, extra=extra, timeout=timeout)


def outdir(ddir, run_name):
    return os.path.join(ddir, "fitting", "output", "output_" + run_name)


def load_table(path):
    if not os.path.exists(path):
        return None
    rows = []
    for line in open(path):
        line = line.strip()
        if line:
            rows.append([float(v) for v in line.split()])
    return rows


def load_final(path):
    if not os.path.exists(path):
        return None
    rows = []
    with open(path, newline="") as f:
        for r in csv.reader(f, delimiter=";"):
            rows.append({"rank": int(r[0]), "fcn": r[1], "DL": float(r[2]), "Prel": float(r[3]), "nll": float(r[4]),
                         "codelen": float(r[5]), "aifeyn": float(r[6]), "params": [float(v) for v in r[7:]]})
    return rows


# ------------------------------------------------------------------ independent closed forms

def gauss_nll(fstr, params, x, y, sig):
    """Gaussian negative log-likelihood of a library string at params (independent evaluator)."""
    import mpmath as mp
    tot = mp.mpf(0)
    for xi, yi, si in zip(x, y, sig):
        try:
            f = lo.eval_string(fstr, mp.mpf(float(xi)), [mp.mpf(float(p)) for p in params] + [mp.mpf(0)] * 4)
        except lo.Undefined:
            return float("inf")
        tot += (f - mp.mpf(float(yi))) ** 2 / (2 * mp.mpf(float(si)) ** 2) + mp.log(2 * mp.pi) / 2 + mp.log(mp.mpf(float(si)))
    return float(tot)


def aifeyn_of(labels):
    """k ln n + sum ln|c| : all parameters and integer constants together count as one symbol; 0 counted as 1"""
    k = len(labels)
    ints = [int(l) for l in labels if re.fullmatch(r"-?\d+", l)]
    par = [l for l in labels if re.fullmatch(r"a\d+", l)]
    others = set(l for l in labels if not re.fullmatch(r"-?\d+", l) and not re.fullmatch(r"a\d+", l))
    n = len(others) + (1 if (ints or par) else 0)
    return k * math.log(n) + sum(math.log(abs(c) if c != 0 else 1) for c in ints)


def linear_design(fstr, nparam, x):
    """If fstr is affine in its parameters return (g0, G) with f = g0 + G @ theta on the data points, else None.
    Decided numerically with the independent evaluator: exact affinity tests at random parameter vectors."""
    import mpmath as mp
    rng = np.random.default_rng(12345)

    def f(theta):
        out = []
        for xi in x:
            out.append(float(lo.eval_string(fstr, mp.mpf(float(xi)), [mp.mpf(float(t)) for t in theta] + [mp.mpf(0)] * 4)))
        return np.array(out)
    try:
        zero = np.zeros(nparam)
        g0 = f(zero)
        G = np.stack([f(np.eye(nparam)[k]) - g0 for k in range(nparam)], axis=1) if nparam else np.zeros((len(x), 0))
        for _ in range(3):
            th = rng.uniform(-2, 2, size=nparam)
            if not np.allclose(f(th), g0 + G @ th, rtol=1e-9, atol=1e-9):
                return None
    except (lo.Undefined, ZeroDivisionError, OverflowError, ValueError):
        return None
    if not (np.all(np.isfinite(g0)) and np.all(np.isfinite(G))):
        return None
    return g0, G


def mdl_closed_form(fstr, labels, nparam, x, y, sig):
    """Independent description length of a linear-in-parameter tree under Gaussian noise:
    ML parameters by weighted least squares, exact Hessian G^T W G, the MDL snapping rule, the code-length formula.
    Returns dict or None (not linear / degenerate design)."""
    x, y, sig = np.asarray(x, float), np.asarray(y, float), np.asarray(sig, float)
    des = linear_design(fstr, nparam, x)
    if des is None:
        return None
    g0, G = des
    const = float(np.sum(0.5 * np.log(2 * np.pi) + np.log(sig)))
    if nparam == 0:
        nll = float(np.sum((y - g0) ** 2 / (2 * sig ** 2))) + const
        return {"theta": [], "nll": nll, "codelen": 0.0, "aifeyn": aifeyn_of(labels), "DL": nll + aifeyn_of(labels), "kept": []}
    W = 1.0 / sig ** 2
    A = G.T @ (G * W[:, None])
    if np.linalg.matrix_rank(A) < nparam or np.linalg.cond(A) > 1e10:
        return None
    theta = np.linalg.solve(A, G.T @ (W * (y - g0)))
    I = np.diag(A)
    nsteps = np.abs(theta) * np.sqrt(I / 12.0)
    kept = nsteps >= 1
    th2 = np.where(kept, theta, 0.0)
    nll = float(np.sum((y - g0 - G @ th2) ** 2 / (2 * sig ** 2))) + const
    k = int(np.sum(kept))
    codelen = -k / 2.0 * math.log(3.0) + float(np.sum(0.5 * np.log(I[kept]) + np.log(np.abs(theta[kept])))) if k else 0.0
    a = aifeyn_of(labels)
    return {"theta": th2.tolist(), "theta_ml": theta.tolist(), "nll": nll, "codelen": codelen, "aifeyn": a, "DL": nll + codelen + a,
            "kept": kept.tolist(), "nsteps": nsteps.tolist(),
            "nll_ml": float(np.sum((y - g0 - G @ theta) ** 2 / (2 * sig ** 2))) + const}


def nparams_of(fstr):
    idx = [int(m) for m in re.findall(r"\ba(\d+)\b", fstr)]
    return max(idx) + 1 if idx else 0


def mdl_numeric(fstr, labels, nparam, x, y, sig, theta0):
    """Independent description length of ANY tree with 1-2 parameters, given a good starting point (the planted parameters):
    ML parameters by Nelder-Mead + Newton refinement on the independent likelihood, Hessian by high-precision differentiation,
    then the MDL snapping rule and code-length formula.  Returns None unless the optimum is certified
    (gradient ~ 0 and positive definite Hessian)."""
    import mpmath as mp
    from scipy.optimize import minimize
    if not 1 <= nparam <= 2:
        return None
    xs = [mp.mpf(float(v)) for v in x]
    ys = [mp.mpf(float(v)) for v in y]
    ss = [mp.mpf(float(v)) for v in sig]
    const = sum(mp.log(2 * mp.pi) / 2 + mp.log(s) for s in ss)

    def nll_mp(*th):
        tot = mp.mpf(0)
        for xi, yi, si in zip(xs, ys, ss):
            f = lo.eval_string(fstr, xi, list(th) + [mp.mpf(0)] * 4)
            tot += (f - yi) ** 2 / (2 * si ** 2)
        return tot + const

    def nll_f(th):
        try:
            return float(nll_mp(*[mp.mpf(float(t)) for t in th]))
        except lo.Undefined:
            return 1e300
    try:
        r = minimize(nll_f, np.array(theta0, float), method="Nelder-Mead", options={"xatol": 1e-10, "fatol": 1e-12, "maxiter": 4000})
        th = [mp.mpf(float(t)) for t in r.x]
        for _ in range(6):      # Newton polish
            g = [mp.diff(nll_mp, th, tuple(1 if j == i else 0 for j in range(nparam))) for i in range(nparam)]
            H = mp.matrix(nparam, nparam)
            for i in range(nparam):
                for j in range(nparam):
                    d = [0] * nparam
                    d[i] += 1
                    d[j] += 1
                    H[i, j] = mp.diff(nll_mp, th, tuple(d))
            step = mp.lu_solve(H, mp.matrix(g))
            th = [t - s for t, s in zip(th, step)]
        g = [mp.diff(nll_mp, th, tuple(1 if j == i else 0 for j in range(nparam))) for i in range(nparam)]
        H = mp.matrix(nparam, nparam)
        for i in range(nparam):
            for j in range(nparam):
                d = [0] * nparam
                d[i] += 1
                d[j] += 1
                H[i, j] = mp.diff(nll_mp, th, tuple(d))
        if max(abs(v) for v in g) > mp.mpf(10) ** -8 * (1 + abs(nll_mp(*th))):
            return None
        if nparam == 1:
            if H[0, 0] <= 0:
                return None
        elif not (H[0, 0] > 0 and H[0, 0] * H[1, 1] - H[0, 1] * H[1, 0] > 0):
            return None
        I = [float(H[i, i]) for i in range(nparam)]
        theta = [float(t) for t in th]
        nsteps = [abs(t) * math.sqrt(i / 12.0) for t, i in zip(theta, I)]
        kept = [s >= 1 for s in nsteps]
        th2 = [t if k else 0.0 for t, k in zip(theta, kept)]
        nll = nll_f(th2)
        if not math.isfinite(nll) or nll > 1e200:
            # the likelihood does not stay finite with the unresolved parameter(s) at zero, so nothing is dropped (C07: "provided
            # the likelihood stays finite").  With exactly one unresolved parameter ESR's convention is to keep the ML parameters
            # and charge that parameter with uncertainty = its own size (I := 12/theta^2, i.e. ln 2 nats); with two, the code's
            # subset search applies and the case is not judged here.
            if kept.count(False) != 1:
                return None
            I2 = [i if kp else 12.0 / (t * t) for t, i, kp in zip(theta, I, kept)]
            nll = nll_f(theta)
            if not math.isfinite(nll) or nll > 1e200:
                return None
            codelen = -nparam / 2.0 * math.log(3.0) + sum(0.5 * math.log(i) + math.log(abs(t)) for t, i in zip(theta, I2))
            a = aifeyn_of(labels)
            return {"theta": theta, "theta_ml": theta, "nll": nll, "codelen": codelen, "aifeyn": a, "DL": nll + codelen + a,
                    "kept": [True] * nparam, "I": I2, "fallback": True}
        k = sum(kept)
        codelen = -k / 2.0 * math.log(3.0) + sum(0.5 * math.log(i) + math.log(abs(t)) for t, i, kp in zip(theta, I, kept) if kp) if k else 0.0
        a = aifeyn_of(labels)
        return {"theta": th2, "theta_ml": theta, "nll": nll, "codelen": codelen, "aifeyn": a, "DL": nll + codelen + a, "kept": kept, "I": I}
    except (lo.Undefined, ZeroDivisionError, OverflowError, ValueError, TypeError):
        return None
