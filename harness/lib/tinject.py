"""Timeout injection for esr.generation.simplifier -- used from the harness only (C15).

`simplifier.time_limit` is replaced by a context manager that numbers every entered
time-limited block (k = 0,1,2,... per process, in entry order) and, for the blocks named in
a plan {k: j}, raises `simplifier.TimeoutException`

  * j >= 0 : at the j-th 'line' event of the frame that entered the `with` (frame-local
             tracing: `f_trace` is set on exactly that frame; callees are not traced), i.e.
             just before the (j+1)-th line of the body starts executing (events of bare `try:` lines and
             immediately repeated events of one line are not counted, see `_local`);
  * dynamic (plan_fn returns {"after_lines": [...]}): at the first counted line event after one of the given source
             lines has executed in the block (at most `after_budget` times per process);
  * j == -1: after the body has completed, from `__exit__` (the real SIGALRM handler can fire
             inside the generator's `finally`, before `signal.alarm(0)` has run).

No SIGALRM is ever armed.  For every traced block the injector records the executed body
lines, and snapshots of the frame state at entry ("pre"), at the interrupt ("mid") and at
the first line event after the exception handler has finished ("post").

The module knows nothing about the Coq model; it only reports what happened.
"""
import ast
import sys


def scan_blocks(path):
    """ast scan of simplifier.py: every `with time_limit(...)`.
    Returns {with_lineno: dict(func, with_line, body_end, try_line, handlers=[names], handler_lines=(lo,hi),
                               handler_src=[unparsed stmts])} and a list of problems (with not inside a catching try)."""
    src = open(path).read()
    tree = ast.parse(src)
    out, bad = {}, []

    def is_tl(w):
        for it in w.items:
            c = it.context_expr
            if isinstance(c, ast.Call) and isinstance(c.func, ast.Name) and c.func.id == "time_limit":
                return True
        return False

    def visit(node, func, trystack):
        if isinstance(node, (ast.FunctionDef, ast.AsyncFunctionDef)):
            func, trystack = node.name, []
        if isinstance(node, ast.With) and is_tl(node):
            record(node, func, trystack)
        if isinstance(node, ast.Try):
            for b in node.body:
                visit(b, func, trystack + [node])
            for h in node.handlers:
                for b in h.body:
                    visit(b, func, trystack)
            for b in node.orelse + node.finalbody:
                visit(b, func, trystack)
            return
        for child in ast.iter_child_nodes(node):
            visit(child, func, trystack)

    def record(node, func, trystack):
        names, lo, hi, hsrc, t = [], None, None, [], None
        catching = None
        for t0 in reversed(trystack):          # innermost first
            for h in t0.handlers:              # first matching handler of that try runs
                nm = ast.unparse(h.type) if h.type is not None else "BaseException"
                if nm in ("TimeoutException", "Exception", "BaseException"):
                    catching = (t0, h, nm)
                    break
            if catching:
                break
        if catching is None:
            bad.append("line %d (%s): `with time_limit` is not inside a try that catches TimeoutException" % (node.lineno, func))
        else:
            t, h, nm = catching
            names = [nm]
            lo, hi = h.lineno, h.end_lineno
            hsrc = [ast.unparse(s) for s in h.body]
        out[node.lineno] = dict(func=func, with_line=node.lineno, body_end=node.end_lineno,
                                try_line=t.lineno if t is not None else None, handlers=names,
                                handler_lines=(lo, hi), handler_src=hsrc)

    visit(tree, None, [])
    out["try_lines"] = sorted(n.lineno for n in ast.walk(tree) if isinstance(n, ast.Try))
    return out, bad


class Injector:
    def __init__(self, simplifier, plan=(), trace_all=False, snap=None, plan_fn=None):
        self.S = simplifier
        self.plan = {int(k): int(j) for k, j in plan}
        self.plan_fn = plan_fn    # optional (k, function name, with-line) -> j or None, consulted when k is not in plan
        self.trace_all = trace_all
        self.snap = snap or (lambda frame, info: None)
        self.k = 0
        self.after_budget = 0     # how many dynamic ("after a source line") interrupts may still fire
        self.blocks = []          # one record per entered block
        self.scan, self.scan_bad = scan_blocks(simplifier.__file__)
        self.try_lines = set(self.scan.pop("try_lines"))

    def install(self):
        self.S.time_limit = self.time_limit
        return self

    def time_limit(self, seconds):
        return _Block(self)

    # global trace function: never trace callees
    @staticmethod
    def _global(frame, event, arg):
        return None


class _Block:
    def __init__(self, inj):
        self.inj = inj

    def __enter__(self):
        inj = self.inj
        frame = sys._getframe(1)
        self.frame = frame
        self.k = inj.k
        inj.k += 1
        info = inj.scan.get(frame.f_lineno, {})
        self.rec = dict(k=self.k, func=frame.f_code.co_name, with_line=frame.f_lineno, lines=None, j=None,
                        fired=False, at_line=None, pre=None, mid=None, post=None)
        self.hl = info.get("handler_lines", (None, None))
        inj.blocks.append(self.rec)
        self.j = inj.plan.get(self.k)
        self.after = None
        if self.j is None and inj.plan_fn is not None:
            self.j = inj.plan_fn(self.k, frame.f_code.co_name, frame.f_lineno)
            if isinstance(self.j, dict):
                # dynamic position: interrupt at the first counted line event after one of these source lines has executed
                self.after = set(self.j["after_lines"])
                self.j = None
        self.traced = self.j is not None or self.after is not None or inj.trace_all
        if self.traced:
            self.rec["j"] = self.j
            self.rec["lines"] = []
            self.rec["pre"] = inj.snap(frame, self.rec)
            self.n = 0
            self.last = None
            sys.settrace(Injector._global)
            frame.f_trace = self._local
            frame.f_trace_lines = True
        return self

    def _local(self, frame, event, arg):
        if event == "line" and frame is self.frame:
            ln = frame.f_lineno
            if ln == self.rec["with_line"]:
                return self._local         # normal exit of the body; `__exit__` follows
            # CPython 3.12 quirk (measured, see C15 notes): an exception raised by a line-trace callback at the event of a
            # bare `try:` line, or at a repeated event of the line just reported (backward jump inside a one-line loop /
            # inlined comprehension), bypasses the frame's exception table.  Such events are not interrupt positions here.
            if ln == self.last or ln in self.inj.try_lines:
                return self._local
            self.last = ln
            if (self.after is not None and self.inj.after_budget > 0 and self.rec["lines"]
                    and self.rec["lines"][-1] in self.after):
                self.inj.after_budget -= 1
                self.j = self.rec["j"] = self.n
            if self.j is not None and self.j >= 0 and self.n == self.j:
                self._fire(frame, ln)
                raise self.inj.S.TimeoutException("injected at block %d line-event %d (source line %d)" % (self.k, self.j, ln))
            self.n += 1
            self.rec["lines"].append(ln)
        return self._local

    def _fire(self, frame, ln):
        self.rec["fired"] = True
        self.rec["at_line"] = ln
        self.rec["mid"] = self.inj.snap(frame, self.rec)

    def _observe(self, frame, event, arg):
        """after an injected exception: wait until the handler has finished, then snapshot."""
        if event == "line" and frame is self.frame:
            lo, hi = self.hl
            if lo is not None and lo <= frame.f_lineno <= hi:
                return self._observe
            self.rec["post"] = self.inj.snap(frame, self.rec)
            frame.f_trace = None
            sys.settrace(None)
            return None
        return self._observe

    def __exit__(self, et, ev, tb):
        frame = self.frame
        if not self.traced:
            return False
        fired_here = False
        if et is None and self.j == -1:
            self._fire(frame, -1)
            fired_here = True
        if self.rec["fired"] and (fired_here or (et is not None and issubclass(et, self.inj.S.TimeoutException))):
            sys.settrace(Injector._global)
            frame.f_trace = self._observe
            frame.f_trace_lines = True
            if fired_here:
                raise self.inj.S.TimeoutException("injected after the body of block %d" % self.k)
            return False
        if et is None:
            frame.f_trace = None
            sys.settrace(None)
            self.rec["post"] = self.inj.snap(frame, self.rec)     # the body ran to its end
        else:
            # some other exception leaves the body (e.g. ValueError raised by check_results' comparison):
            # snapshot after the enclosing handler, if there is one in this frame
            self.rec["exc"] = et.__name__
            sys.settrace(Injector._global)
            frame.f_trace = self._observe
            frame.f_trace_lines = True
        return False
