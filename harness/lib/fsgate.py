"""Rank-side gate: every os.path.isdir / os.mkdir call of this process waits for
the controller's go-file, so the harness can replay a chosen interleaving of
several real processes.  Controller side: Controller below."""
import os
import time

_state = {"armed": False, "k": 0}
DIR = os.environ.get("FSGATE_DIR")
RANK = os.environ.get("FSGATE_RANK", "0")


def _wait(path, timeout=120):
    t0 = time.time()
    while not os.path.exists(path):
        time.sleep(0.002)
        if time.time() - t0 > timeout:
            raise RuntimeError("fsgate timeout " + path)


def _touch(path, txt=""):
    with open(path + ".tmp", "w") as f:
        f.write(txt)
    os.rename(path + ".tmp", path)


def install():
    isdir0, mkdir0, exists0 = os.path.isdir, os.mkdir, os.path.exists

    def gated(name, fn):
        def w(p, *a, **k):
            if not _state["armed"] or str(p).startswith(DIR):
                return fn(p, *a, **k)
            k_ = _state["k"]
            _state["k"] += 1
            _state["armed"] = False
            _touch(os.path.join(DIR, "req.%s.%d" % (RANK, k_)), name + " " + str(p))
            _wait(os.path.join(DIR, "go.%s.%d" % (RANK, k_)))
            try:
                return fn(p, *a, **k)
            finally:
                _touch(os.path.join(DIR, "done.%s.%d" % (RANK, k_)))
                _state["armed"] = True
        return w
    os.path.isdir = gated("isdir", isdir0)
    os.mkdir = gated("mkdir", mkdir0)


def arm():
    _state["armed"] = True
    _touch(os.path.join(DIR, "armed.%s" % RANK))


def finish(msg):
    _state["armed"] = False
    _touch(os.path.join(DIR, "fin.%s" % RANK), msg)


class Controller:
    """Grants gated calls in the order given by `sched` (list of rank ids), then lets everything run."""

    def __init__(self, gdir, nranks):
        self.d, self.n = gdir, nranks
        self.k = [0] * nranks
        self.log = []

    def fin(self, r):
        return os.path.exists(os.path.join(self.d, "fin.%d" % r))

    def grant(self, r, timeout=120):
        """grant rank r's next gated call; returns False if r finished instead"""
        t0 = time.time()
        req = os.path.join(self.d, "req.%d.%d" % (r, self.k[r]))
        while not os.path.exists(req):
            if self.fin(r):
                return False
            time.sleep(0.002)
            if time.time() - t0 > timeout:
                raise RuntimeError("controller timeout waiting for rank %d" % r)
        self.log.append((r, open(req).read()))
        _touch(os.path.join(self.d, "go.%d.%d" % (r, self.k[r])))
        done = os.path.join(self.d, "done.%d.%d" % (r, self.k[r]))
        while not os.path.exists(done):
            time.sleep(0.002)
            if time.time() - t0 > timeout:
                raise RuntimeError("controller timeout waiting for done of rank %d" % r)
        self.k[r] += 1
        return True

    def run(self, sched, timeout=120):
        for r in range(self.n):
            _wait(os.path.join(self.d, "armed.%d" % r), timeout)
        for r in sched:
            self.grant(r, timeout)
        live = [r for r in range(self.n)]
        while live:
            for r in list(live):
                if not self.grant(r, timeout):
                    live.remove(r)
        return {r: open(os.path.join(self.d, "fin.%d" % r)).read() for r in range(self.n)}
