"""Shared machinery for the ESR verification checks.

Scratch copies of /repo, the Coq build, evaluation of generated cases.v files,
evidence / replay / known-findings handling.  Nothing here decides a property;
it is plumbing used by harness/props/Cxx.py.
"""
import atexit
import fcntl
import hashlib
import json
import os
import random
import re
import shutil
import subprocess
import sys
import time

VERIF = os.path.dirname(os.path.dirname(os.path.dirname(os.path.abspath(__file__))))
REPO = os.environ.get("ESRV_REPO", "/repo")
PY = "/venv/bin/python"
SCRATCH_ROOT = os.environ.get("ESRV_SCRATCH", "/var/tmp")
COQ = os.path.join(VERIF, "coq")
GUARD = "ESR_VERIF"

_scratch_dirs = []


def _cleanup():
    for d in _scratch_dirs:
        shutil.rmtree(d, ignore_errors=True)


atexit.register(_cleanup)


def mkscratch(tag="w"):
    d = os.path.join(SCRATCH_ROOT, "esrv.%s.%d.%06x" % (tag, os.getpid(), random.getrandbits(24)))
    os.makedirs(d)
    _scratch_dirs.append(d)
    return d


def scratch_copy():
    """Copy /repo's *working tree* (not HEAD) to a fresh directory and return it.

    ESR writes function_library/ and fitting/output/ inside its own package
    directory, so the implementation is never run in place."""
    d = mkscratch("repo")
    dst = os.path.join(d, "repo")
    subprocess.check_call(["rsync", "-a", "--exclude", ".git", "--exclude", "__pycache__",
                           "--exclude", "esr/function_library", "--exclude", "esr/fitting/output",
                           REPO + "/", dst + "/"])
    return dst


def py_env(scratch, mpi="single", extra=None, rank=None, size=None, mpidir=None, hooks=True):
    env = dict(os.environ)
    paths = [os.path.join(VERIF, "harness", "fakempi", mpi), scratch, os.path.join(VERIF, "harness", "lib")]
    env["PYTHONPATH"] = ":".join(paths)
    env["PYTHONHASHSEED"] = "0"
    env["PYTHONDONTWRITEBYTECODE"] = "1"
    env["MPLBACKEND"] = "Agg"
    env["OMP_NUM_THREADS"] = "1"
    env["OPENBLAS_NUM_THREADS"] = "1"
    if hooks:
        env[GUARD] = "1"
    else:
        env.pop(GUARD, None)
    if rank is not None:
        env["FAKE_MPI_RANK"] = str(rank)
        env["FAKE_MPI_SIZE"] = str(size)
        env["FAKE_MPI_DIR"] = mpidir
    if extra:
        env.update(extra)
    return env


def run_py(scratch, script, args=(), mpi="single", extra=None, timeout=1800, stdin=None, cwd=None):
    """Run a driver script against the scratch copy. Returns (rc, stdout, stderr)."""
    env = py_env(scratch, mpi=mpi, extra=extra)
    p = subprocess.run([PY, script] + list(args), env=env, cwd=cwd or os.path.dirname(scratch),
                       input=stdin, capture_output=True, text=True, timeout=timeout)
    return p.returncode, p.stdout, p.stderr


def run_mpi(scratch, script, args, nranks, extra=None, timeout=1800, cwd=None):
    """Run `script` as nranks processes under the multi-process MPI stand-in.
    Returns list of (rc, stdout, stderr) per rank."""
    mpidir = mkscratch("mpi")
    procs, files = [], []
    for r in range(nranks):
        env = py_env(scratch, mpi="multi", extra=extra, rank=r, size=nranks, mpidir=mpidir)
        # output goes to files (a pipe nobody reads while the ranks are polled would block a talkative rank)
        fo, fe = open(os.path.join(mpidir, "out.%d" % r), "w+"), open(os.path.join(mpidir, "err.%d" % r), "w+")
        files.append((fo, fe))
        procs.append(subprocess.Popen([PY, script] + list(args), env=env, cwd=cwd or os.path.dirname(scratch), stdout=fo, stderr=fe, text=True))
    t0 = time.time()
    # a rank that ends with an error leaves the others waiting in a collective for good: they get `grace` seconds, then are killed
    # (their exit status -9 and the note below say so); the overall time limit applies as before
    grace, first_bad = 40, None
    while True:
        codes = [p.poll() for p in procs]
        if all(c is not None for c in codes):
            break
        now = time.time()
        if first_bad is None and any(c not in (None, 0) for c in codes):
            first_bad = now
        if now - t0 > timeout or (first_bad is not None and now - first_bad > grace):
            break
        time.sleep(0.2)
    out = []
    late = time.time() - t0 > timeout
    for p, (fo, fe) in zip(procs, files):
        killed = p.poll() is None
        if killed:
            p.kill()
        p.wait()
        fo.seek(0)
        fe.seek(0)
        o, e = fo.read(), fe.read()
        fo.close()
        fe.close()
        if killed:
            out.append((-9, o, e + "\n[esrv] killed: %s" % ("time limit" if late else "another rank ended with an error and this one kept waiting")))
        else:
            out.append((p.returncode, o, e))
    shutil.rmtree(mpidir, ignore_errors=True)
    return out


# ---------------------------------------------------------------- Coq build

class Lock:
    def __init__(self):
        self.path = os.path.join(VERIF, ".build.lock")

    def __enter__(self):
        self.f = open(self.path, "w")
        fcntl.flock(self.f, fcntl.LOCK_EX)
        return self

    def __exit__(self, *a):
        fcntl.flock(self.f, fcntl.LOCK_UN)
        self.f.close()


def write_if_changed(path, text):
    try:
        with open(path) as f:
            if f.read() == text:
                return False
    except FileNotFoundError:
        pass
    os.makedirs(os.path.dirname(path), exist_ok=True)
    with open(path, "w") as f:
        f.write(text)
    return True


def coq_make(targets=(), timeout=3000, jobs=16):
    """Full .vo build (never -vos). Returns (ok, log)."""
    with Lock():
        if (not os.path.exists(os.path.join(COQ, "Makefile"))
                or os.path.getmtime(os.path.join(COQ, "Makefile")) < os.path.getmtime(os.path.join(COQ, "_CoqProject"))):
            subprocess.check_call(["coq_makefile", "-f", "_CoqProject", "-o", "Makefile"], cwd=COQ,
                                  stdout=subprocess.DEVNULL)
        cmd = ["timeout", str(timeout), "make", "-k", "-j%d" % jobs] + list(targets)
        p = subprocess.run(cmd, cwd=COQ, capture_output=True, text=True)
        return p.returncode == 0, p.stdout + p.stderr


def vo_ok(vfile):
    """True iff the .vo of coq/<vfile> is up to date w.r.t. its source and all its dependencies
    (make -q: nothing would be rebuilt)."""
    vo = vfile[:-2] + ".vo"
    if not os.path.exists(os.path.join(COQ, vo)):
        return False
    p = subprocess.run(["make", "-q", vo], cwd=COQ, capture_output=True, text=True)
    return p.returncode == 0


def coq_deps(vfile):
    """Transitive set of project .v files that coq/<vfile> depends on (incl. itself)."""
    p = subprocess.run(["coqdep", "-f", "_CoqProject"], cwd=COQ, capture_output=True, text=True)
    dep = {}
    for line in p.stdout.splitlines():
        if ":" not in line:
            continue
        lhs, rhs = line.split(":", 1)
        tg = [t for t in lhs.split() if t.endswith(".vo")]
        srcs = [s[:-3] + ".v" for s in rhs.split() if s.endswith(".vo")]
        for t in tg:
            dep[t[:-3] + ".v"] = srcs
    seen = set()
    todo = [vfile]
    while todo:
        f = todo.pop()
        if f in seen:
            continue
        seen.add(f)
        todo.extend(dep.get(f, []))
    return sorted(seen)


def coq_run(vtext, name="Case", timeout=600):
    """Compile a throw-away .v file against the built project; return (rc, stdout+stderr)."""
    d = mkscratch("coq")
    path = os.path.join(d, name + ".v")
    with open(path, "w") as f:
        f.write(vtext)
    p = subprocess.run(["timeout", str(timeout), "coqc", "-Q", COQ, "ESRV", "-w", "-all", path],
                       capture_output=True, text=True, cwd=d)
    shutil.rmtree(d, ignore_errors=True)
    return p.returncode, p.stdout + p.stderr


def print_assumptions(props_file, timeout=600):
    """Re-check coq/Props/Cxx.v alone and return the text printed by its
    Print Assumptions commands (the .vo is written to a scratch path)."""
    d = mkscratch("pa")
    p = subprocess.run(["timeout", str(timeout), "coqc", "-Q", ".", "ESRV", "-w", "-all",
                        "-o", os.path.join(d, os.path.basename(props_file)[:-2] + ".vo"), props_file],
                       capture_output=True, text=True, cwd=COQ)
    shutil.rmtree(d, ignore_errors=True)
    return p.returncode, p.stdout + p.stderr


HYGIENE = re.compile(r"\b(Admitted|admit|Axiom|Axioms|Parameter|Parameters|Conjecture|Hypothesis|Variable|Variables|"
                     r"Abort|bypass_check|Admit Obligations)\b|Unset\s+Guard|Unset\s+Positivity|"
                     r"Unset\s+Universe|type-in-type|impredicative-set")


def hygiene(only=None):
    """Scan .v files of the development (all of them, or the list `only` of paths relative to coq/).
    `Variable`/`Hypothesis` are allowed only inside a Section (checked by tracking Section/End nesting)."""
    bad = []
    for root, _, files in os.walk(COQ):
        for fn in files:
            if not fn.endswith(".v"):
                continue
            path = os.path.join(root, fn)
            if only is not None and os.path.relpath(path, COQ) not in only:
                continue
            depth = 0
            incomment = 0
            for ln, line in enumerate(open(path), 1):
                # strip comments (nesting-aware, line granular is enough for our style)
                out = ""
                i = 0
                while i < len(line):
                    if line.startswith("(*", i):
                        incomment += 1
                        i += 2
                    elif line.startswith("*)", i) and incomment:
                        incomment -= 1
                        i += 2
                    else:
                        if not incomment:
                            out += line[i]
                        i += 1
                if re.match(r"\s*Section\b", out):
                    depth += 1
                if re.match(r"\s*End\b", out) and depth:
                    depth -= 1
                for m in HYGIENE.finditer(out):
                    w = m.group(0)
                    if w in ("Variable", "Variables", "Hypothesis") and depth > 0:
                        continue
                    bad.append("%s:%d: %s" % (os.path.relpath(path, VERIF), ln, w))
    for fn in ("_CoqProject",):
        txt = open(os.path.join(COQ, fn)).read()
        for w in ("type-in-type", "impredicative-set", "-vos", "-noinit"):
            if w in txt:
                bad.append("_CoqProject: " + w)
    return bad


STMT = re.compile(r"^\s*(Theorem|Lemma|Corollary|Example|Fact|Remark|Proposition)\s+([A-Za-z0-9_']+)", re.M)


def count_obligations(vfiles):
    names = []
    for vf in vfiles:
        txt = open(os.path.join(COQ, vf)).read()
        names += [vf + ":" + m.group(2) for m in STMT.finditer(txt)]
    return names


# ---------------------------------------------------------------- reporting

class Report:
    """Collects what one check run did; writes evidence and replays."""

    def __init__(self, prop, tier, seed):
        self.prop, self.tier, self.seed = prop, tier, seed
        self.t0 = time.time()
        self.evaluations = 0
        self.nontrivial = set()
        self.samples = []
        self.rule = ""
        self.assumptions = []
        self.trusted = []
        self.extra = {}
        self.failures = []       # dicts: kind, what, key, input, observed, expected
        self.obligations = []
        self.discharged = 0
        self.checker_cmd = ""
        self.traces = 0
        self.exhaustive = None

    def case(self, key=None, nontrivial=True, sample=None):
        self.evaluations += 1
        if nontrivial and key is not None:
            self.nontrivial.add(key if isinstance(key, (str, int, tuple)) else json.dumps(key, sort_keys=True, default=str))
        if sample is not None and len(self.samples) < 6:
            self.samples.append(sample)

    def fail(self, kind, what, key, input=None, observed=None, expected=None, theorem=None):
        self.failures.append(dict(kind=kind, what=what, key=key, input=input, observed=observed,
                                  expected=expected, theorem_or_check=theorem))

    def write_evidence(self, nviol):
        cov = dict(obligations=len(self.obligations), discharged=self.discharged,
                   checker_cmd=self.checker_cmd, trusted_base=self.trusted,
                   evaluations=self.evaluations, distinct_nontrivial=len(self.nontrivial),
                   rule=self.rule, samples=self.samples[:6],
                   traces_validated_against_impl=self.traces,
                   obligation_names=self.obligations)
        if self.exhaustive is not None:
            cov["exhaustive"] = self.exhaustive
        cov.update(self.extra)
        ev = dict(property_id=self.prop, tier=self.tier, seed=self.seed, level="proof",
                  coverage=cov, assumptions=self.assumptions,
                  wall_s=round(time.time() - self.t0, 2), violations=nviol)
        path = os.path.join(VERIF, "evidence", self.prop + ".json")
        os.makedirs(os.path.dirname(path), exist_ok=True)
        with open(path, "w") as f:
            json.dump(ev, f, indent=1, default=str)
        return path


def load_known():
    p = os.path.join(VERIF, "KNOWN_FINDINGS.json")
    if not os.path.exists(p):
        return []
    return json.load(open(p))["findings"]


def repo_diff_sha():
    try:
        d = subprocess.run(["git", "-C", REPO, "diff", "HEAD"], capture_output=True, text=True).stdout
        h = subprocess.run(["git", "-C", REPO, "rev-parse", "HEAD"], capture_output=True, text=True).stdout.strip()
        return h[:12] + "+" + hashlib.sha1(d.encode()).hexdigest()[:10]
    except Exception:
        return "unknown"


def write_replay(prop, failure, seed):
    body = dict(property=prop, seed=seed, repo_state=repo_diff_sha(), **failure)
    txt = json.dumps(body, indent=1, sort_keys=True, default=str)
    h = hashlib.sha1(txt.encode()).hexdigest()[:12]
    path = os.path.join(VERIF, "replays", "%s-%s.json" % (prop, h))
    os.makedirs(os.path.dirname(path), exist_ok=True)
    with open(path, "w") as f:
        f.write(txt)
    return path


def rng(seed, tag=""):
    return random.Random("%s/%s" % (seed, tag))


# ---------------------------------------------------------------- source guards
# A hand-written model describes the function it was written against.  For every (file, qualified function name) a property
# module lists in GUARDED, the normalised source (ast.unparse without the docstring) is compared with the text stored under
# harness/corr/guards/.  A difference does not say the property is violated -- it says the model may no longer describe the
# code, i.e. the theorems no longer show the property of the current source; the check then reports broken-correspondence
# and relies on the correspondence runs and the search for a failing input.

def _find_def(tree, qual):
    import ast
    cur = tree
    for part in qual.split("."):
        nxt = None
        for n in ast.iter_child_nodes(cur):
            if isinstance(n, (ast.FunctionDef, ast.AsyncFunctionDef, ast.ClassDef)) and n.name == part:
                nxt = n
                break
        if nxt is None:
            return None
        cur = nxt
    return cur


def guard_text(root, rel, qual):
    import ast
    tree = ast.parse(open(os.path.join(root, rel)).read())
    fn = _find_def(tree, qual)
    if fn is None:
        return None
    if (fn.body and isinstance(fn.body[0], ast.Expr) and isinstance(fn.body[0].value, ast.Constant)
            and isinstance(fn.body[0].value.value, str)):
        fn.body = fn.body[1:] or [ast.Pass()]

    # progress output is not behaviour the models describe: print(...) / sys.stdout.flush() statements, and `if` statements that
    # contain nothing else, are dropped before the comparison (so is every comment and the layout, by ast.unparse)
    def print_only(st):
        if (isinstance(st, ast.Expr) and isinstance(st.value, ast.Call) and ast.unparse(st.value.func) in ("print", "sys.stdout.flush")
                and not any(k.arg == "file" for k in st.value.keywords)):
            return True
        if isinstance(st, ast.If) and not st.orelse and all(print_only(x) for x in st.body):
            return True
        return False

    class Strip(ast.NodeTransformer):
        def generic_visit(self, node):
            super().generic_visit(node)
            for field in ("body", "orelse", "finalbody"):
                b = getattr(node, field, None)
                if isinstance(b, list) and b and all(isinstance(x, ast.stmt) for x in b):
                    nb = [x for x in b if not print_only(x)]
                    setattr(node, field, nb if (nb or field != "body") else [ast.Pass()])
            return node
    fn = Strip().visit(fn)
    return ast.unparse(fn) + "\n"


def guard_path(rel, qual):
    return os.path.join(VERIF, "harness", "corr", "guards", rel.replace("/", "__") + "::" + qual + ".txt")


def check_guards(root, sites):
    """returns [(rel, qual, problem text)] for guarded functions whose source differs from the stored text"""
    import difflib
    out = []
    for rel, qual in sites:
        try:
            cur = guard_text(root, rel, qual)
        except Exception as e:
            out.append((rel, qual, "cannot parse: %s" % e))
            continue
        try:
            want = open(guard_path(rel, qual)).read()
        except FileNotFoundError:
            out.append((rel, qual, "no stored text (run harness/tools/update_guards.py)"))
            continue
        if cur is None:
            out.append((rel, qual, "function not found"))
        elif cur != want:
            d = [l for l in difflib.unified_diff(want.splitlines(), cur.splitlines(), "model was written against", "current source", lineterm="", n=0)
                 if not l.startswith(("---", "+++", "@@"))]
            out.append((rel, qual, "; ".join(d[:6])[:600]))
    return out
