"""Independent (spec-side) oracles on ESR function libraries: tree evaluation, string
evaluation under ESR's operator semantics, and the C03 soundness statement
  f_i(x; sigma_i(theta)) == u_{m_i}(x; theta)
evaluated with mpmath at generic points.  Uses no ESR code."""
import ast
import csv
import os
import random
import re

import mpmath as mp

mp.mp.dps = 30

ARITY = {'+': 2, '*': 2, '-': 2, '/': 2, 'pow': 2, 'pow_abs': 2,
         'inv': 1, 'square': 1, 'cube': 1, 'sqrt_abs': 1, 'sqrt': 1, 'log_abs': 1, 'log': 1, 'exp': 1,
         'sin': 1, 'abs': 1, 'Abs': 1, 'tenexp': 1, 'log10_abs': 1}


class Undefined(Exception):
    pass


class NonReal(Undefined):
    """the value exists but is not a real number (principal branch of a fractional power or logarithm of a negative number)"""


def _fin(v):
    if isinstance(v, mp.mpc):
        if abs(v.imag) > mp.mpf(10) ** -20 * (1 + abs(v.real)):
            if mp.isfinite(v.real) and mp.isfinite(v.imag):
                raise NonReal('complex')
            raise Undefined('complex')
        v = v.real
    v = mp.mpf(v)
    if not mp.isfinite(v):
        raise Undefined('non-finite')
    if abs(v) > mp.mpf(10) ** 120:
        raise Undefined('too large for a meaningful comparison at this precision')
    return v


def _exp(a):
    """exp with a range guard: mpmath computes exp of a number like 1e40 by shifting a mantissa that many bits (MemoryError);
    a value that large is outside every comparison made here anyway"""
    r = a.real if isinstance(a, mp.mpc) else a
    if not mp.isfinite(r) or abs(r) > 10 ** 6:
        raise Undefined('exp argument out of range')
    return mp.exp(a)


def _power(a, b):
    if a != 0:
        try:
            big = abs(mp.re(b * mp.log(a)))
        except Exception:
            big = 0
        if not mp.isfinite(big) or big > 10 ** 6:
            raise Undefined('power out of range')
    return mp.power(a, b)


def _pow_abs(a, b):
    a = abs(a)
    if a == 0:
        if b > 0:
            return mp.mpf(0)
        raise Undefined('0**nonpos')
    return _power(a, b)


def _log_abs(a):
    if a == 0:
        raise Undefined('log 0')
    return mp.log(abs(a))


def _div(a, b):
    if b == 0:
        raise Undefined('div 0')
    return a / b


# ---------------------------------------------------------------- trees

def parse_tree(labels, i=0):
    l = str(labels[i])
    a = ARITY.get(l, 0)
    if a == 0:
        return (l,), i + 1
    if a == 1:
        c, j = parse_tree(labels, i + 1)
        return (l, c), j
    c1, j = parse_tree(labels, i + 1)
    c2, k = parse_tree(labels, j)
    return (l, c1, c2), k


def wellformed(labels):
    try:
        t, j = parse_tree(labels, 0)
        return j == len(labels)
    except Exception:
        return False


def eval_tree(t, x, a):
    op = t[0]
    if len(t) == 1:
        if op == 'x':
            return x
        if re.fullmatch(r'a\d+', op):
            return a[int(op[1:])]
        try:
            return mp.mpf(int(op))
        except ValueError:
            return mp.mpf(op)
    if len(t) == 2:
        u = eval_tree(t[1], x, a)
        if op == 'inv':
            return _div(mp.mpf(1), u)
        if op == 'square':
            return u * u
        if op == 'cube':
            return u * u * u
        if op in ('sqrt_abs', 'sqrt'):
            return mp.sqrt(abs(u))
        if op in ('log_abs', 'log'):
            return _log_abs(u)
        if op == 'exp':
            return _exp(u)
        if op == 'sin':
            return mp.sin(u)
        if op in ('abs', 'Abs'):
            return abs(u)
        if op == 'tenexp':
            return _power(mp.mpf(10), u)
        if op == 'log10_abs':
            return _log_abs(u) / mp.log(10)
        raise ValueError(op)
    u = eval_tree(t[1], x, a)
    v = eval_tree(t[2], x, a)
    if op == '+':
        return u + v
    if op == '-':
        return u - v
    if op == '*':
        return u * v
    if op == '/':
        return _div(u, v)
    if op in ('pow', 'pow_abs'):
        return _pow_abs(u, v)
    raise ValueError(op)


def eval_labels(labels, x, a):
    t, j = parse_tree(labels, 0)
    if j != len(labels):
        raise ValueError('malformed tree %r' % (labels,))
    try:
        return _fin(eval_tree(t, x, a))
    except (ZeroDivisionError, OverflowError, ValueError) as e:
        if isinstance(e, ValueError) and 'malformed' in str(e):
            raise
        raise Undefined(str(e))


# ---------------------------------------------------------------- strings

class _Num(ast.NodeTransformer):
    def visit_Constant(self, n):
        if isinstance(n.value, (int, float)) and not isinstance(n.value, bool):
            return ast.copy_location(ast.Call(func=ast.Name(id='__mpf', ctx=ast.Load()),
                                              args=[ast.Constant(value=repr(n.value))], keywords=[]), n)
        return n

    def visit_BinOp(self, n):
        self.generic_visit(n)
        if isinstance(n.op, ast.Pow):
            return ast.copy_location(ast.Call(func=ast.Name(id='__pow', ctx=ast.Load()), args=[n.left, n.right], keywords=[]), n)
        if isinstance(n.op, ast.Div):
            return ast.copy_location(ast.Call(func=ast.Name(id='__div', ctx=ast.Load()), args=[n.left, n.right], keywords=[]), n)
        return n


def _rpow(a, b):
    """Python/sympy `**` on reals: integer exponents exact, otherwise principal value (complex => undefined)."""
    if a == 0:
        if b > 0:
            return mp.mpf(0)
        if b == 0:
            return mp.mpf(1)
        raise Undefined('0**neg')
    return _power(a, b)


def _sign(a):
    return mp.mpf(1) if a > 0 else (mp.mpf(-1) if a < 0 else mp.mpf(0))


def _plain_log(a, base=None):
    if a == 0:
        raise Undefined('log 0')
    v = mp.log(a)
    return v if base is None else v / mp.log(base)


_COMPILED = {}


def compile_expr(s):
    if s not in _COMPILED:
        tree = ast.parse(s.strip(), mode='eval')
        tree = ast.fix_missing_locations(_Num().visit(tree))
        _COMPILED[s] = compile(tree, '<esr>', 'eval')
    return _COMPILED[s]


def esr_namespace(mode):
    """mode 'esr': the meaning ESR gives library strings (pow/sqrt/log act on absolute values);
       mode 'plain': plain sympy meaning (used for substitution values)."""
    ns = {'zoo': mp.inf, 'oo': mp.inf, 'nan': mp.nan, '__mpf': mp.mpf, '__pow': _rpow, '__div': _div, 'Abs': abs, 'exp': _exp, 'sin': mp.sin, 'cos': mp.cos,
          'sign': _sign, 'atan2': mp.atan2, 're': mp.re, 'im': mp.im, 'arg': mp.arg, 'tan': mp.tan, 'I': mp.mpc(0, 1), 'E': mp.e, 'pi': mp.pi, 'inv': lambda a: _div(mp.mpf(1), a), 'square': lambda a: a * a,
          'cube': lambda a: a * a * a, 'sqrt_abs': lambda a: mp.sqrt(abs(a)), 'log_abs': _log_abs,
          'log10_abs': lambda a: _log_abs(a) / mp.log(10), 'tenexp': lambda a: _power(mp.mpf(10), a), 'pow_abs': _pow_abs}
    if mode == 'esr':
        ns.update({'pow': _pow_abs, 'sqrt': lambda a: mp.sqrt(abs(a)), 'log': lambda a, b=None: _log_abs(a) if b is None else _log_abs(a) / mp.log(b)})
    else:
        ns.update({'pow': _rpow, 'sqrt': lambda a: mp.sqrt(a), 'log': _plain_log})
    return ns


_NS = {'esr': esr_namespace('esr'), 'plain': esr_namespace('plain')}


def _fin_c(v):
    """finite real or complex value (substitution values keep their principal complex value: the recorded
       identity is between expressions, and (a0**(1/3))**3 is a0 for every real a0 only when read that way)"""
    if isinstance(v, mp.mpc) and abs(v.imag) > mp.mpf(10) ** -20 * (1 + abs(v.real)):
        if not (mp.isfinite(v.real) and mp.isfinite(v.imag)):
            raise Undefined('non-finite')
        if abs(v) > mp.mpf(10) ** 120:
            raise Undefined('too large')
        return v
    return _fin(v)


def eval_string(s, x, a, mode='esr', complex_ok=False):
    ns = dict(_NS[mode])
    ns['x'] = x
    for i, v in enumerate(a):
        ns['a%d' % i] = v
    try:
        v = eval(compile_expr(s), {'__builtins__': {}}, ns)
        return _fin_c(v) if complex_ok else _fin(v)
    except Undefined:
        raise
    except (ZeroDivisionError, OverflowError, ValueError, TypeError, NameError, SyntaxError, AttributeError, MemoryError) as e:
        raise Undefined('%s: %s' % (type(e).__name__, e))


def count_params(s):
    idx = [int(m) for m in re.findall(r'\ba(\d+)\b', s)]
    return sorted(set(idx))


# ---------------------------------------------------------------- substitutions

def parse_sub(s):
    """'{a0: -a0, a1: 1/a1}' -> [('a0','-a0'), ('a1','1/a1')] ; 'nan' -> None"""
    s = s.strip()
    if s == 'nan':
        return None
    assert s[0] == '{' and s[-1] == '}', s
    body = s[1:-1]
    out = []
    depth = 0
    cur = ''
    parts = []
    for ch in body:
        if ch in '([':
            depth += 1
        if ch in ')]':
            depth -= 1
        if ch == ',' and depth == 0:
            parts.append(cur)
            cur = ''
        else:
            cur += ch
    if cur.strip():
        parts.append(cur)
    for p in parts:
        k, v = p.split(':', 1)
        out.append((k.strip(), v.strip()))
    return out


def apply_chain(chain, theta):
    """parameter vector the function must be evaluated at so that it equals its unique at theta:
       p = id.subs(d1).subs(d2)...subs(dn)  =>  p(theta) = d1(d2(...dn(theta)))"""
    v = list(theta)
    for d in reversed(chain):
        new = list(v)
        for k, expr in d:
            i = int(k[1:])
            while i >= len(new):
                new.append(mp.mpf(0))
                v.append(mp.mpf(0))
            new[i] = eval_string(expr, mp.mpf(1), v, mode='plain', complex_ok=True)
        v = new
    return v


# ---------------------------------------------------------------- library files

def read_lines(path):
    with open(path) as f:
        return f.read().splitlines()


def parse_tree_line(line):
    return re.findall(r"'([^']*)'", line)


def load_library(d, n):
    lib = {}
    lib['all'] = read_lines(os.path.join(d, 'all_equations_%d.txt' % n))
    lib['uniq'] = read_lines(os.path.join(d, 'unique_equations_%d.txt' % n))
    lib['matches'] = [int(float(v)) for v in read_lines(os.path.join(d, 'matches_%d.txt' % n))]
    with open(os.path.join(d, 'inv_subs_%d.txt' % n), newline='') as f:
        lib['subs'] = [row for row in csv.reader(f, delimiter=';')]
    lib['trees'] = [parse_tree_line(l) for l in read_lines(os.path.join(d, 'trees_%d.txt' % n))]
    lib['aifeyn'] = [float(v) for v in read_lines(os.path.join(d, 'aifeyn_%d.txt' % n))]
    for k in ('orig_trees', 'extra_trees'):
        p = os.path.join(d, '%s_%d.txt' % (k, n))
        lib[k] = [parse_tree_line(l) for l in read_lines(p)] if os.path.exists(p) else []
    return lib


def gen_points(rng, nparam, npts):
    pts = []
    for _ in range(npts):
        x = mp.mpf(rng.uniform(0.35, 2.6))
        th = [mp.mpf(rng.choice([-1, 1]) * rng.uniform(0.4, 2.2)) for _ in range(max(nparam, 1))]
        pts.append((x, th))
    return pts


def close(u, v, tol=mp.mpf(10) ** -12):
    return abs(u - v) <= tol * (1 + abs(u) + abs(v))


def same_function(fa, fb, pts, min_defined=2, nonreal_is_diff=False):
    """fa, fb: callables (x, theta) -> mpf raising Undefined.  Returns ('ok'|'diff'|'undecided', detail)"""
    ndef = 0
    for x, th in pts:
        try:
            v = fb(x, th)
        except Undefined:
            continue
        try:
            u = fa(x, th)
        except NonReal:
            if not nonreal_is_diff:
                continue
            # fb is a real number here and fa is not: the two are not the same function at this point
            return 'diff', {'x': str(x), 'theta': [str(t) for t in th], 'lhs': 'non-real', 'rhs': str(v)}
        except Undefined:
            continue
        ndef += 1
        if not close(u, v):
            return 'diff', {'x': str(x), 'theta': [str(t) for t in th], 'lhs': str(u), 'rhs': str(v)}
    return ('ok', None) if ndef >= min_defined else ('undecided', None)


_FAM_X = [mp.mpf('0.5'), mp.mpf('1.3'), mp.mpf('2.4')]


def _fam_params(rng, k):
    """parameter vectors of mixed sign and magnitude (1e-2 .. 1e2)"""
    return [mp.mpf(rng.choice([-1, 1]) * 10 ** rng.uniform(-2, 2)) for _ in range(max(k, 1))]


def family_features(s, k, rng, nsamp):
    """Which signs the curves x -> s(x; theta) of a family take at three fixed abscissae, and which signs their two increments
    take: a list of five sets over {-1, +1}.  Two parametrisations of the SAME family of curves have the same five sets."""
    feats = [set() for _ in range(5)]
    for _ in range(nsamp):
        th = _fam_params(rng, k)
        try:
            v = [eval_string(s, x, th) for x in _FAM_X]
        except Undefined:
            continue
        q = v + [v[1] - v[0], v[2] - v[1]]
        for j, val in enumerate(q):
            if abs(val) > mp.mpf(10) ** -9 * (1 + max(abs(t) for t in v)):
                feats[j].add(1 if val > 0 else -1)
        if all(len(f) == 2 for f in feats):
            break
    return feats


def family_differs(f, kf, u, ku, rng, nsamp=80, confirm=4000):
    """None, or a description of a sign a curve of one family takes (at a fixed x, or as an increment) that no sampled curve of the
    other family takes -- after `confirm` further samples of the other family aimed at finding one."""
    ff, fu = family_features(f, kf, rng, nsamp), family_features(u, ku, rng, nsamp)
    names = ['value at x=0.5', 'value at x=1.3', 'value at x=2.4', 'increment 0.5->1.3', 'increment 1.3->2.4']
    for (a, sa, ka, b, sb, kb) in ((ff, f, kf, fu, u, ku), (fu, u, ku, ff, f, kf)):
        for j in range(5):
            miss = a[j] - b[j]
            if miss:
                more = family_features(sb, kb, rng, confirm)
                if miss - more[j]:
                    return {'quantity': names[j], 'sign': sorted(miss - more[j])[0], 'taken_by': sa, 'never_by': sb}
    return None


def check_c03(lib, seed, npts=8, family_budget=120):
    """The C03 statement on one library.  Returns (violations, stats)."""
    rng = random.Random(seed)
    viol = []
    stats = {'functions': len(lib['all']), 'uniques': len(lib['uniq']), 'with_chain': 0, 'nan': 0, 'undecided': 0, 'checked': 0}
    nall = len(lib['all'])
    if not (len(lib['matches']) == nall and len(lib['subs']) == nall and len(lib['trees']) == nall and len(lib['aifeyn']) == nall):
        viol.append({'kind': 'row-counts', 'all': nall, 'matches': len(lib['matches']), 'subs': len(lib['subs']),
                     'trees': len(lib['trees']), 'aifeyn': len(lib['aifeyn'])})
        return viol, stats
    if len(set(lib['uniq'])) != len(lib['uniq']):
        seen = set()
        dup = [u for u in lib['uniq'] if u in seen or seen.add(u)]
        viol.append({'kind': 'unique-duplicate', 'dup': dup[:3]})
    for j, u in enumerate(lib['uniq']):
        ps = count_params(u)
        if ps != list(range(len(ps))):
            viol.append({'kind': 'unique-param-gap', 'index': j, 'unique': u})
    for i, f in enumerate(lib['all']):
        m = lib['matches'][i]
        if not (0 <= m < len(lib['uniq'])):
            viol.append({'kind': 'match-out-of-range', 'index': i, 'match': m})
            continue
        u = lib['uniq'][m]
        chain_s = [c for c in lib['subs'][i] if c.strip() != '']
        kf, ku = len(count_params(f)), len(count_params(u))
        if any(c.strip() == 'nan' for c in chain_s):
            stats['nan'] += 1
            if not ku < kf:
                viol.append({'kind': 'nan-without-fewer-params', 'index': i, 'function': f, 'unique': u, 'chain': chain_s})
            elif family_budget > 0:
                # "both still describe the same family of curves": a necessary condition that needs no fitting
                family_budget -= 1
                stats['family_checked'] = stats.get('family_checked', 0) + 1
                d = family_differs(f, kf, u, ku, rng)
                if d is not None:
                    viol.append({'kind': 'nan-family-differs', 'index': i, 'function': f, 'unique': u, 'detail': d})
            continue
        if chain_s:
            stats['with_chain'] += 1
        try:
            chain = [parse_sub(c) for c in chain_s]
        except Exception as e:
            viol.append({'kind': 'unparsable-chain', 'index': i, 'chain': chain_s, 'error': str(e)})
            continue
        npar = max([kf, ku] + [int(k[1:]) + 1 for d in chain for k, _ in d] + [1])
        pts = gen_points(rng, npar, npts)
        res, det = same_function(lambda x, th: eval_string(f, x, apply_chain(chain, th)),
                                 lambda x, th: eval_string(u, x, th), pts, nonreal_is_diff=True)
        if res == 'undecided':
            pts = gen_points(rng, npar, 4 * npts)
            res, det = same_function(lambda x, th: eval_string(f, x, apply_chain(chain, th)),
                                     lambda x, th: eval_string(u, x, th), pts, nonreal_is_diff=True)
        if res == 'diff':
            viol.append({'kind': 'map-unsound', 'index': i, 'function': f, 'unique': u, 'chain': chain_s, 'point': det})
        elif res == 'undecided':
            stats['undecided'] += 1
        else:
            stats['checked'] += 1
    return viol, stats


def check_c02_tree_vs_string(lib, seed, npts=8):
    """tree on line i evaluates to the string on line i (independent evaluators on both sides)."""
    rng = random.Random(seed + 1)
    viol = []
    stats = {'lines': len(lib['all']), 'checked': 0, 'undecided': 0}
    for i, (labels, s) in enumerate(zip(lib['trees'], lib['all'])):
        if not wellformed(labels):
            viol.append({'kind': 'malformed-tree', 'index': i, 'labels': labels})
            continue
        npar = max([int(l[1:]) + 1 for l in labels if re.fullmatch(r'a\d+', l)] + [1])
        pts = gen_points(rng, npar, npts)
        res, det = same_function(lambda x, th: eval_labels(labels, x, th), lambda x, th: eval_string(s, x, th), pts)
        if res == 'undecided':
            pts = gen_points(rng, npar, 5 * npts)
            res, det = same_function(lambda x, th: eval_labels(labels, x, th), lambda x, th: eval_string(s, x, th), pts)
        if res == 'diff':
            viol.append({'kind': 'string-differs-from-tree', 'index': i, 'labels': labels, 'string': s, 'point': det})
        elif res == 'undecided':
            stats['undecided'] += 1
        else:
            stats['checked'] += 1
    return viol, stats
