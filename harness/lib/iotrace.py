"""Trace the file operations and the `sympy_locs` accesses of ESR stages (C16).

What is recorded (only for paths below the registered roots):
  builtins.open(path, mode)                 -> ["open", mode, path]
  np.savetxt / np.loadtxt / np.genfromtxt   -> ["savetxt"|"loadtxt"|"genfromtxt", path]
  os.remove(path)                           -> ["remove", path]
  os.path.exists(path)                      -> ["exists", path]
  os.system(cmd)                            -> parsed shell command:
        ["cat", [srcs], dst] | ["catglob", dir, pattern, dst] | ["rmglob", pattern-path]
        ["sed", src, dst] | ["mv", src, dst] | ["touch", path] | ["system?", cmd]   (unknown: fail closed)
  sympy_locs (a logging dict subclass installed in esr.fitting.sympy_symbols,
  esr.generation.simplifier and esr.generation.generator):
        ["locs_set", key, repr(value), srepr-of-assumptions] | ["locs_get", key, hit]
        ["locs_mut?", method]  for any other mutation (fail closed)

Nothing here changes behaviour: every wrapper calls the original with the same arguments.
"""
import builtins
import os
import re

CURRENT = None


def _sym_desc(v):
    try:
        import sympy
        if isinstance(v, sympy.Symbol):
            a = v.assumptions0
            return "Symbol(%s,real=%s,positive=%s)" % (v.name, a.get("real"), a.get("positive"))
    except Exception:
        pass
    return type(v).__name__


class LoggingLocs(dict):
    """dict subclass: same contents and semantics as the module-level sympy_locs, plus a log.
    Reads are logged through __contains__/__getitem__/get (sympy's parser uses all three and
    `eval(code, globals, locals)` calls __getitem__ on a dict subclass)."""

    def _log(self, rec):
        t = CURRENT
        if t is not None and t.enabled:
            t.ops.append(rec)

    def __setitem__(self, k, v):
        self._log(["locs_set", k, _sym_desc(v)])
        dict.__setitem__(self, k, v)

    def __contains__(self, k):
        r = dict.__contains__(self, k)
        self._log(["locs_get", k, bool(r)])
        return r

    def __getitem__(self, k):
        try:
            v = dict.__getitem__(self, k)
        except KeyError:
            self._log(["locs_get", k, False])
            raise
        self._log(["locs_get", k, True])
        return v

    def get(self, k, d=None):
        r = dict.__contains__(self, k)
        self._log(["locs_get", k, bool(r)])
        return dict.get(self, k, d)

    def pop(self, k, *d):
        # sympy's parse_expr pops the key '' (its "null" marker) after every parse; with no such key this is a no-op
        if dict.__contains__(self, k):
            self._log(["locs_mut?", "pop:%r" % (k,)])
        return dict.pop(self, k, *d)

    def setdefault(self, k, d=None):
        if not dict.__contains__(self, k):
            self._log(["locs_mut?", "setdefault:%r" % (k,)])
        return dict.setdefault(self, k, d)

    def update(self, *a, **kw):
        self._log(["locs_mut?", "update"])
        return dict.update(self, *a, **kw)

    def __delitem__(self, k):
        self._log(["locs_mut?", "del:%r" % (k,)])
        return dict.__delitem__(self, k)

    def clear(self):
        self._log(["locs_mut?", "clear"])
        return dict.clear(self)

    def popitem(self):
        self._log(["locs_mut?", "popitem"])
        return dict.popitem(self)


def install_locs():
    """Replace the module-level dict by a LoggingLocs with the same bindings, in every module that
    imported it by name.  Returns the new dict."""
    import esr.fitting.sympy_symbols as ss
    import esr.generation.simplifier as simplifier
    import esr.generation.generator as generator
    if isinstance(ss.sympy_locs, LoggingLocs):
        return ss.sympy_locs
    new = LoggingLocs()
    for k, v in ss.sympy_locs.items():
        dict.__setitem__(new, k, v)
    old = ss.sympy_locs
    for m in (ss, simplifier, generator):
        if getattr(m, "sympy_locs", None) is not old:
            raise RuntimeError("iotrace: %s.sympy_locs is not the shared dict" % m.__name__)
        m.sympy_locs = new
    return new


_CATGLOB = re.compile(r'^cat `find (\S+) -name "([^"]+)" \| sort -V` > (\S+)$')
_CAT = re.compile(r'^cat ((?:\S+ )+)> (\S+)$')
_RM = re.compile(r'^rm (\S+)$')
_SED = re.compile(r"^sed 's/\.\$//; s/\^\.//' (\S+) > (\S+)$")
_MV = re.compile(r'^mv (\S+) (\S+)$')
_TOUCH = re.compile(r'^touch (\S+)$')


def parse_system(cmd):
    m = _CATGLOB.match(cmd)
    if m:
        return ["catglob", m.group(1), m.group(2), m.group(3)]
    m = _CAT.match(cmd)
    if m:
        return ["cat", m.group(1).split(), m.group(2)]
    m = _RM.match(cmd)
    if m:
        return ["rmglob", m.group(1)]
    m = _SED.match(cmd)
    if m:
        return ["sed", m.group(1), m.group(2)]
    m = _MV.match(cmd)
    if m:
        return ["mv", m.group(1), m.group(2)]
    m = _TOUCH.match(cmd)
    if m:
        return ["touch", m.group(1)]
    return ["system?", cmd]


class Trace:
    """Context manager.  roots: list of directories; only paths below one of them are recorded."""

    def __init__(self, roots):
        self.roots = [os.path.normpath(os.path.abspath(r)) for r in roots]
        self.ops = []
        self.enabled = False

    def _mine(self, p):
        try:
            p = os.fspath(p)
        except TypeError:
            return None
        if not isinstance(p, str):
            return None
        q = os.path.normpath(os.path.abspath(p))
        for r in self.roots:
            if q == r or q.startswith(r + os.sep):
                return q
        return None

    def mark(self, label):
        self.ops.append(["mark", label])

    def __enter__(self):
        global CURRENT
        import numpy as np
        self.saved = (builtins.open, os.system, os.remove, os.path.exists, np.savetxt, np.loadtxt, np.genfromtxt)
        open0, system0, remove0, exists0, savetxt0, loadtxt0, genfromtxt0 = self.saved
        tr = self
        self.depth = 0

        def topen(file, mode="r", *a, **k):
            q = tr._mine(file) if tr.depth == 0 else None
            if q is not None and tr.enabled:
                tr.ops.append(["open", mode, q])
            return open0(file, mode, *a, **k)

        def tsystem(cmd):
            if tr.enabled:
                tr.ops.append(parse_system(cmd))
            return system0(cmd)

        def tremove(p, *a, **k):
            q = tr._mine(p)
            if q is not None and tr.enabled:
                tr.ops.append(["remove", q])
            return remove0(p, *a, **k)

        def texists(p):
            q = tr._mine(p)
            if q is not None and tr.enabled and tr.depth == 0:
                tr.ops.append(["exists", q])
            return exists0(p)

        def wrap_np(name, f0):
            def w(fname, *a, **k):
                q = tr._mine(fname)
                if q is not None and tr.enabled:
                    tr.ops.append([name, q])
                tr.depth += 1
                try:
                    return f0(fname, *a, **k)
                finally:
                    tr.depth -= 1
            w.__name__ = name
            return w
        builtins.open = topen
        os.system = tsystem
        os.remove = tremove
        os.path.exists = texists
        np.savetxt = wrap_np("savetxt", savetxt0)
        np.loadtxt = wrap_np("loadtxt", loadtxt0)
        np.genfromtxt = wrap_np("genfromtxt", genfromtxt0)
        CURRENT = self
        self.enabled = True
        return self

    def __exit__(self, *a):
        global CURRENT
        import numpy as np
        self.enabled = False
        (builtins.open, os.system, os.remove, os.path.exists, np.savetxt, np.loadtxt, np.genfromtxt) = self.saved
        CURRENT = None
