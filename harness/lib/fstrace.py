"""Record directory operations (isdir / mkdir / makedirs) performed by ESR code."""
import os

CURRENT = None


class Trace:
    def __enter__(self):
        global CURRENT
        self.ops = []
        self.saved = (os.path.isdir, os.mkdir, os.makedirs)
        isdir0, mkdir0, makedirs0 = self.saved
        self.depth = 0

        def isdir(p):
            if self.depth == 0:
                self.ops.append(("isdir", os.fspath(p)))
            return isdir0(p)

        def mkdir(p, *a, **k):
            if self.depth == 0:
                self.ops.append(("mkdir", os.fspath(p)))
            return mkdir0(p, *a, **k)

        def makedirs(p, *a, **k):
            eo = k.get("exist_ok", a[1] if len(a) > 1 else False)
            self.ops.append(("makedirs_ok" if eo else "makedirs", os.fspath(p)))
            self.depth += 1
            try:
                return makedirs0(p, *a, **k)
            finally:
                self.depth -= 1
        os.path.isdir, os.mkdir, os.makedirs = isdir, mkdir, makedirs
        CURRENT = self
        return self

    def __exit__(self, *a):
        global CURRENT
        os.path.isdir, os.mkdir, os.makedirs = self.saved
        CURRENT = None

    def ops_rel(self, base):
        out = []
        for op, p in self.ops:
            if p and os.path.abspath(p).startswith(os.path.abspath(base)):
                out.append([op, os.path.normpath(os.path.relpath(p, base))])
            elif op == "barrier":
                out.append([op, ""])
        return out
